"""C17 - OpenQASM 2 import/export preserves the program and agrees with Qiskit.

Correspondence (extracted Coq model `qasm`, symbolic arithmetic, no floats compared):
  * eval_exp_recurse on real Lark trees  ==  QExp.flatE fx   (fx decided per run:
    false = the code as it is, true = after fixes/D5.patch; anything else is a mismatch)
  * python's own parser (ast.parse) on the emitted text  ==  QExp.pyparse/pyeval
  * QExp.denote on the real Lark tree  ==  the generator's semantic tree
  * replace_param_ids / has_param_variable / replace_param_indices+flatten  ==  bindE / hasE / substE
  * convert_qubit_ids_to_indices, cxgate, ugate, reset, measure  ==  QRegs
Property oracles on the implementation:
  (e) value of every generated expression vs an independent float evaluation
  (i) encode -> decode round trip of random circuits over QASM-expressible gates
  (ii) unitary of decoded generated programs vs qiskit.qasm2.loads (bit order, global phase)
  (iii) bqskit.ext Qiskit / Cirq / pytket translators round-trip small circuits
"""
from __future__ import annotations

import ast
import math
import re
import sys
import warnings
from pathlib import Path

import vf

sys.path.insert(0, str(Path(__file__).resolve().parent.parent / 'gen'))

BUILD = dict(extracted=['qasm'], translators={'gen_qasm_table'})

FN_STD = ['sin', 'cos', 'tan', 'exp', 'ln', 'sqrt']
TERMINAL_FN = {'SIN': 'sin', 'COS': 'cos', 'TAN': 'tan', 'EXP': 'exp', 'LN': 'ln', 'SQRT': 'sqrt'}
MATH_FN = {'sin': math.sin, 'cos': math.cos, 'tan': math.tan, 'exp': math.exp, 'ln': math.log, 'sqrt': math.sqrt}

UNSUPPORTED = [
    'register broadcast of gates (h q;  cx q, r;)  - LangException "Gate acts on 1 qubits"',
    'opaque declarations (parsed, the gate stays unknown)',
    'if (c == n) statements (parsed; the condition is silently ignored - see design notes)',
    'unary plus, leading zeros in literals, identifiers shadowing qelib1 names',
    'barrier inside a gate body is accepted and dropped (identity) - generated, no effect on the unitary',
]


# =============================================================================
# implementation access
# =============================================================================
class Impl:
    def __init__(self):
        warnings.simplefilter('ignore')
        from bqskit.ir.circuit import Circuit  # noqa
        import lark
        from bqskit.ir.lang.qasm2 import visitor as V
        from bqskit.ir.lang.qasm2 import parser as P
        from bqskit.ir.lang.qasm2 import OPENQASM2Language
        from bqskit.ir.lang.language import LangException
        import numpy as np
        self.lark, self.V, self.P, self.np = lark, V, P, np
        self.Circuit = Circuit
        self.L = OPENQASM2Language()
        self.LangException = LangException
        # function names: text of the grammar terminal -> canonical function
        terms = {t.name: t for t in P._OPENQASMPARSER.terminals}
        self.fn_text = {}       # canonical fn -> text the grammar accepts
        for tn, fn in TERMINAL_FN.items():
            self.fn_text[fn] = terms[tn].pattern.value
        self.text_fn = {v: k for k, v in self.fn_text.items()}
        self.bound = sorted(fn for fn, txt in self.fn_text.items() if txt in V.eval_locals)

    def parse_exp(self, text: str):
        t = self.P.parse('OPENQASM 2.0;\nqreg q[1];\nrz(%s) q[0];\n' % text)
        return list(t.find_data('explist'))[0].children[-1]


# =============================================================================
# Lark tree -> model encoding
# =============================================================================
class Interner:
    def __init__(self):
        self.d: dict[str, int] = {}

    def __call__(self, s: str) -> int:
        if s not in self.d:
            self.d[s] = len(self.d)
        return self.d[s]


class BadTree(Exception):
    pass


def enc_exp(I: Impl, t, lits: Interner, ids: Interner) -> str:
    lark = I.lark
    if not isinstance(t, lark.Tree) or t.data != 'exp':
        raise BadTree(f'exp expected, got {t!r:.80}')
    out = ['E']
    for i, c in enumerate(t.children):
        if i % 2 == 0:
            out.append(enc_mul(I, c, lits, ids))
        else:
            if not isinstance(c, lark.Token) or str(c) not in '+-':
                raise BadTree(f'additive operator expected, got {c!r}')
            out.append(str(c))
    return '[' + ' '.join(out) + ']'


def enc_mul(I, t, lits, ids) -> str:
    lark = I.lark
    if not isinstance(t, lark.Tree) or t.data != 'mulexp':
        raise BadTree(f'mulexp expected, got {t!r:.80}')
    out = ['M']
    for i, c in enumerate(t.children):
        if i % 2 == 0:
            out.append(enc_prim(I, c, lits, ids))
        else:
            if not isinstance(c, lark.Token) or str(c) not in '*/':
                raise BadTree(f'multiplicative operator expected, got {c!r}')
            out.append(str(c))
    return '[' + ' '.join(out) + ']'


def enc_prim(I, t, lits, ids) -> str:
    lark = I.lark
    if not isinstance(t, lark.Tree) or t.data != 'primaryexp' or len(t.children) != 1:
        raise BadTree(f'primaryexp expected, got {t!r:.80}')
    c = t.children[0]
    if isinstance(c, lark.Token):
        if c.type in ('REAL', 'NNINTEGER'):
            return '[num %d]' % lits(str(c))
        if c.type == 'PI':
            return '[pi]'
        if c.type == 'ID':
            return '[id %d]' % ids(str(c))
        if c.type == 'PARAM_IDX':
            return '[idx %d]' % int(c)
        raise BadTree(f'unknown token type {c.type}')
    if c.data == 'parenexp' and len(c.children) == 1:
        return '[paren %s]' % enc_exp(I, c.children[0], lits, ids)
    if c.data == 'usub' and len(c.children) == 1:
        return '[usub %s]' % enc_exp(I, c.children[0], lits, ids)
    if c.data == 'pow' and len(c.children) == 2:
        return '[pow %s %s]' % (enc_prim(I, c.children[0], lits, ids), enc_prim(I, c.children[1], lits, ids))
    if c.data == 'unaryexp' and len(c.children) == 2:
        op = c.children[0]
        if op.data != 'unaryop' or len(op.children) != 1 or op.children[0].type not in TERMINAL_FN:
            raise BadTree(f'unaryop of unexpected shape {op!r:.80}')
        return '[fn %s %s]' % (TERMINAL_FN[op.children[0].type], enc_exp(I, c.children[1], lits, ids))
    raise BadTree(f'unknown primaryexp child {c.data}')


NUM_RE = r'(?:\d+\.?\d*(?:[eE][-+]?\d+)?|\.\d+(?:[eE][-+]?\d+)?)'
TOK_RE = re.compile(r'\s*(?:(?P<num>' + NUM_RE + r')|(?P<name>[A-Za-z_]\w*)|(?P<op>\*\*|[-+*/()^]))')


def tokens_of_code(I: Impl, code: str, lits: Interner, ids: Interner) -> str:
    """Tokenise the python text emitted by eval_exp_recurse into the model's token names."""
    out, pos = [], 0
    code = code.rstrip()
    while pos < len(code):
        m = TOK_RE.match(code, pos)
        if not m:
            return 'UNLEXABLE ' + code
        pos = m.end()
        if m.group('num') is not None:
            out.append('n%d' % lits(m.group('num')))
        elif m.group('name') is not None:
            nm = m.group('name')
            if nm == 'pi':
                out.append('pi')
            elif nm in I.text_fn:
                out.append('f:' + I.text_fn[nm])
            else:
                out.append('id%d' % ids(nm))
        else:
            out.append(m.group('op'))
    return ' '.join(out)


def sym_of_pyast(I: Impl, code: str, lits: Interner) -> str:
    """Python's own parse of the emitted text, in the model's symbolic-value syntax
    (NONE where eval would raise NameError / SyntaxError)."""
    try:
        tree = ast.parse(code.strip(), mode='eval')
    except SyntaxError:
        return 'NONE'

    class Unbound(Exception):
        pass

    def go(n) -> str:
        if isinstance(n, ast.BinOp):
            op = {ast.Add: 'add', ast.Sub: 'sub', ast.Mult: 'mul', ast.Div: 'div', ast.Pow: 'pow'}.get(type(n.op))
            if op is None:
                raise Unbound()
            return '[%s %s %s]' % (op, go(n.left), go(n.right))
        if isinstance(n, ast.UnaryOp) and isinstance(n.op, ast.USub):
            return '[neg %s]' % go(n.operand)
        if isinstance(n, ast.Constant) and isinstance(n.value, (int, float)):
            return '[num %d]' % lits(ast.get_source_segment(code.strip(), n))
        if isinstance(n, ast.Name):
            if n.id == 'pi':
                return '[pi]'
            raise Unbound()
        if isinstance(n, ast.Call) and isinstance(n.func, ast.Name) and len(n.args) == 1 and not n.keywords:
            if n.func.id in I.text_fn:
                return '[fn %s %s]' % (I.text_fn[n.func.id], go(n.args[0]))
            raise Unbound()
        raise Unbound()
    try:
        return go(tree.body)
    except Unbound:
        return 'NONE'


# =============================================================================
# expression generator: semantic trees printed with standard precedence
# =============================================================================
# node: ('num', text) ('pi',) ('id', name) ('add'|'sub'|'mul'|'div'|'pow', a, b) ('neg', a) ('fn', f, a) ('paren', a)
LEVEL = {'add': 1, 'sub': 1, 'mul': 2, 'div': 2, 'neg': 3, 'pow': 4, 'num': 5, 'pi': 5, 'id': 5, 'fn': 5, 'paren': 5}


def pr(n, need: int, rng, sp=True) -> str:
    k = n[0]
    s = ' ' if (sp and rng.random() < 0.3) else ''
    if k == 'num':
        r = n[1]
    elif k == 'pi':
        r = 'pi'
    elif k == 'id':
        r = n[1]
    elif k in ('add', 'sub'):
        r = pr(n[1], 1, rng) + s + ('+' if k == 'add' else '-') + s + pr(n[2], 2, rng)
    elif k in ('mul', 'div'):
        r = pr(n[1], 2, rng) + s + ('*' if k == 'mul' else '/') + s + pr(n[2], 3, rng)
    elif k == 'neg':
        r = '-' + s + pr(n[1], 3, rng)
    elif k == 'pow':
        r = pr(n[1], 5, rng) + s + '^' + s + pr(n[2], 3, rng)
    elif k == 'fn':
        r = n[1] + '(' + s + pr(n[2], 1, rng) + s + ')'
    elif k == 'paren':
        r = '(' + s + pr(n[1], 1, rng) + s + ')'
    else:
        raise ValueError(k)
    if LEVEL[k] < need:
        r = '(' + r + ')'
    return r


class Reject(Exception):
    pass


def fval(n, env=None) -> float:
    """Independent float evaluation of the semantic tree; Reject for ill-conditioned /
    out-of-domain cases (the generator redraws)."""
    k = n[0]
    if k == 'num':
        return float(n[1])
    if k == 'pi':
        return math.pi
    if k == 'id':
        if env is None or n[1] not in env:
            raise Reject()
        return env[n[1]]
    if k == 'paren':
        return fval(n[1], env)
    if k == 'neg':
        return -fval(n[1], env)
    if k == 'fn':
        x = fval(n[2], env)
        f = n[1]
        if f in ('ln', 'sqrt') and x < 1e-3:
            raise Reject()
        if f == 'exp' and x > 10:
            raise Reject()
        if f == 'tan' and abs(math.cos(x)) < 1e-2:
            raise Reject()
        return MATH_FN[f](x)
    a, b = fval(n[1], env), fval(n[2], env)
    if k == 'add':
        r = a + b
    elif k == 'sub':
        r = a - b
    elif k == 'mul':
        r = a * b
    elif k == 'div':
        if abs(b) < 1e-3:
            raise Reject()
        r = a / b
    elif k == 'pow':
        if abs(b) > 4 or (a < 1e-3 and b != int(b)) or (abs(a) < 1e-3 and b < 0) or abs(a) > 50:
            raise Reject()
        r = a ** b
    else:
        raise ValueError(k)
    if not (abs(r) < 1e6):
        raise Reject()
    return r


def sym_of_sem(n, lits: Interner, env_syms=None) -> str:
    k = n[0]
    if k == 'num':
        return '[num %d]' % lits(n[1])
    if k == 'pi':
        return '[pi]'
    if k == 'id':
        if env_syms is None or n[1] not in env_syms:
            raise KeyError(n[1])
        return env_syms[n[1]]
    if k == 'paren':
        return sym_of_sem(n[1], lits, env_syms)
    if k == 'neg':
        return '[neg %s]' % sym_of_sem(n[1], lits, env_syms)
    if k == 'fn':
        return '[fn %s %s]' % (n[1], sym_of_sem(n[2], lits, env_syms))
    return '[%s %s %s]' % (k, sym_of_sem(n[1], lits, env_syms), sym_of_sem(n[2], lits, env_syms))


NUMS = ['0', '1', '2', '3', '4', '7', '10', '0.5', '1.5', '2.25', '.5', '3.', '0.125', '1e1', '2.5e-1', '1.E+1', '5e0', '12', '0.75', '6.02e2', '1e-2']


def gen_sem(rng, depth: int, ids=(), fns=FN_STD):
    """ids: formal parameter names usable as leaves.  With formals the operators are restricted to total ones
    (no division by / power to / ln, sqrt, tan, exp of something that depends on a formal) so that every call
    site is in the domain whatever the actual values are."""
    r = rng.random()
    if depth <= 0 or r < 0.22:
        x = rng.random()
        if ids and x < 0.6:
            return ('id', rng.choice(ids))
        if x < 0.5:
            return ('pi',)
        return ('num', rng.choice(NUMS))
    if r < 0.50:
        return (rng.choice(['add', 'sub']), gen_sem(rng, depth - 1, ids, fns), gen_sem(rng, depth - 1, ids, fns))
    if r < 0.72:
        k = rng.choice(['mul', 'div'])
        return (k, gen_sem(rng, depth - 1, ids, fns), gen_sem(rng, depth - 1, () if k == 'div' else ids, fns))
    if r < 0.82:
        return ('neg', gen_sem(rng, depth - 1, ids, fns))
    if r < 0.90:
        if ids:
            return ('pow', gen_sem(rng, depth - 1, ids, fns), ('num', rng.choice(['2', '3', '2', '1'])))
        return ('pow', gen_sem(rng, depth - 1, ids, fns), gen_sem(rng, depth - 2, ids, fns))
    if r < 0.96 and fns:
        f = rng.choice(fns)
        return ('fn', f, gen_sem(rng, depth - 1, ids if f in ('sin', 'cos') else (), fns))
    return ('paren', gen_sem(rng, depth - 1, ids, fns))


def has_kind(n, kinds) -> bool:
    return n[0] in kinds or any(isinstance(c, tuple) and has_kind(c, kinds) for c in n[1:])


def fns_used(n) -> set:
    s = {n[1]} if n[0] == 'fn' else set()
    for c in n[1:]:
        if isinstance(c, tuple):
            s |= fns_used(c)
    return s


def draw_exp(rng, depth, ids=(), env=None, fns=FN_STD):
    if ids and env is None:
        env = {x: 0.7 for x in ids}
    for _ in range(200):
        n = gen_sem(rng, depth, ids, fns)
        try:
            v = fval(n, env)
        except (Reject, OverflowError, ValueError, ZeroDivisionError):
            continue
        if isinstance(v, complex):
            continue
        return n, v
    return ('num', '1'), 1.0


# =============================================================================
# model session: batch queries, answers by index
# =============================================================================
class Model:
    def __init__(self):
        self.lines: list[str] = []
        self.out: list[str] | None = None

    def q(self, line: str) -> int:
        self.lines.append(line)
        return len(self.lines) - 1

    def run(self):
        self.out = vf.run_model('qasm', self.lines) if self.lines else []
        if len(self.out) != len(self.lines):
            raise RuntimeError(f'model answered {len(self.out)} of {len(self.lines)} queries')

    def a(self, i: int) -> str:
        return self.out[i]


def close(a: float, b: float) -> bool:
    return abs(a - b) <= 1e-9 * max(1.0, abs(a), abs(b))


# =============================================================================
# shrinking (first occurrence of each signature only)
# =============================================================================
def subtrees(n):
    yield n
    for c in n[1:]:
        if isinstance(c, tuple):
            yield from subtrees(c)


def size(n) -> int:
    return 1 + sum(size(c) for c in n[1:] if isinstance(c, tuple))


def shrink_lines(text: str, still_fails) -> str:
    """greedy statement deletion: drop one line (or one whole gate definition) at a time while the predicate
    on the program text keeps holding"""
    lines = text.rstrip('\n').split('\n')
    changed = True
    budget = 200
    while changed and budget > 0:
        changed = False
        i = 2
        while i < len(lines) and budget > 0:
            j = i + 1
            if lines[i].startswith('gate '):
                while j < len(lines) and lines[j - 1].strip() != '}':
                    j += 1
            elif lines[i].startswith(('qreg', 'creg')) or lines[i].strip() == '}':
                i += 1
                continue
            cand = lines[:i] + lines[j:]
            budget -= 1
            try:
                ok = still_fails('\n'.join(cand) + '\n')
            except Exception:  # noqa
                ok = False
            if ok:
                lines = cand
                changed = True
            else:
                i = j
    return '\n'.join(lines) + '\n'


# =============================================================================
# checks
# =============================================================================
class Checker:
    def __init__(self, ctx: vf.Ctx, I: Impl):
        self.ctx, self.I = ctx, I
        self.shrunk: set = set()
        self.version_votes = {'current': 0, 'fixed': 0, 'both': 0, 'neither': 0}
        self.pending = []      # deferred comparisons: (fn, args)
        # register walks with a known defect (idlist, reset, measure): does the implementation follow the QRegs model of
        # the code as it is ('current') or the specification the C17_regs_* theorems compare against ('repaired',
        # i.e. after fixes/C17-idlist|reset|measure.patch)?  decided per call site and run, like flatten/flatten_fixed
        self.regs_votes = {k: {'current': 0, 'repaired': 0, 'both': 0} for k in ('conv', 'reset', 'meas')}
        # creg declarations of the encoder: QProg.encode_with (current) or encode_with_fixed (fixes/C17-creg.patch)
        self.creg_votes = {'current': 0, 'fixed': 0, 'both': 0}

    # ---- classification of an implementation error / wrong value -------------
    def regs_vote(self, site: str, model: str, impl: str, spec) -> bool:
        """True if impl is accounted for by the model of the current code or by the specification"""
        if impl == model:
            self.regs_votes[site]['both' if (spec is None or spec == model) else 'current'] += 1
            return True
        if spec is not None and impl == spec:
            self.regs_votes[site]['repaired'] += 1
            return True
        return False

    def exp_violation(self, case, sem, expected, observed, model_cur_ok: bool | None):
        """The implementation's value of a generated expression is wrong (or it raised)."""
        used = fns_used(sem) if sem is not None else set()
        unbound = sorted(f for f in used if f not in self.I.bound or self.I.fn_text[f] != f)
        if unbound and isinstance(observed, str):
            for f in unbound[:1]:
                return self.ctx.violation(dict(call='eval_exp', symptom='function-unavailable', fn=f), case, expected, observed,
                                          f'expression function {f}() of OpenQASM 2 cannot be used (grammar terminal / eval_locals)')
        if model_cur_ok is False:
            return self.ctx.violation(dict(call='eval_exp', symptom='parentheses-dropped'), case, expected, observed,
                                      'parameter expression evaluates to a different value than the program text denotes '
                                      '(flattening drops parentheses)')
        return self.ctx.violation(dict(call='eval_exp', symptom='wrong-value'), case, expected, observed,
                                  'parameter expression evaluates to a different value than the program text denotes')

    def shrink_expr(self, case, sem, expected, obs):
        """smallest sub-expression (printed on its own) that the implementation still mis-evaluates"""
        key = ('expr', isinstance(obs, str))
        if key in self.shrunk:
            return case, sem, expected, obs
        self.shrunk.add(key)
        import random
        best = (size(sem), case, sem, expected, obs)
        for sub in subtrees(sem):
            if size(sub) >= best[0]:
                continue
            try:
                exp = fval(sub)
                text = pr(sub, 1, random.Random(0), sp=False)
            except Exception:  # noqa
                continue
            try:
                got = float(self.I.V.eval_exp(self.I.parse_exp(text)))
                o = got
            except Exception as e:  # noqa
                got, o = None, 'raised ' + type(e).__name__ + ': ' + str(e)[:80]
            if (got is None or not close(got, exp)) and isinstance(o, str) == isinstance(obs, str):
                best = (size(sub), dict(kind='expr', text=text, sem=sub, shrunk_from=case['text']), sub, exp, o)
        return best[1:]

    # ---- one generated expression -----------------------------------------------
    def expression(self, M: Model, text: str, sem, expected: float, key):
        ctx, I = self.ctx, self.I
        case = dict(kind='expr', text=text, sem=sem)
        lits, ids = Interner(), Interner()
        try:
            tree = I.parse_exp(text)
        except Exception as e:  # noqa  (grammar rejects the text)
            obs = 'parse error: ' + type(e).__name__
            self.exp_violation(case, sem, expected, obs, None)
            ctx.count('expr_parse_error')
            return
        try:
            enc = enc_exp(I, tree, lits, ids)
        except BadTree as e:
            ctx.broken_obligation('Lark tree of an expression has a shape the model does not know', f'{text}: {e}')
            return
        code = I.V.eval_exp_recurse(tree)
        try:
            val = float(I.V.eval_exp(tree))
            obs = val
        except Exception as e:  # noqa
            val, obs = None, 'raised ' + type(e).__name__ + ': ' + str(e)[:80]
        qi = dict(ok=M.q(f'ok {enc}'), f0=M.q(f'flat 0 {enc}'), f1=M.q(f'flat 1 {enc}'),
                  e0=M.q(f'eval 0 [{" ".join(FN_STD)}] {enc}'), e1=M.q(f'eval 1 [{" ".join(FN_STD)}] {enc}'),
                  den=M.q(f'denote {enc}'))
        impl_toks = tokens_of_code(I, code, lits, ids)
        impl_py = sym_of_pyast(I, code, lits)
        sem_sym = sym_of_sem(sem, lits)
        self.pending.append(('expr', dict(case=case, qi=qi, impl_toks=impl_toks, impl_py=impl_py, sem_sym=sem_sym,
                                          sem=sem, expected=expected, val=val, obs=obs, code=code, key=key)))

    def finish_expression(self, M: Model, d):
        ctx = self.ctx
        case = d['case']
        q = {k: M.a(i) for k, i in d['qi'].items()}
        if q['ok'] != 'T':
            ctx.broken_obligation('a real Lark tree violates lark_ok (shape assumption of C17_exp_faithful)', str(case))
        # (1) flattening: which version is the implementation
        m0, m1 = d['impl_toks'] == q['f0'], d['impl_toks'] == q['f1']
        ver = 'both' if (m0 and m1) else 'current' if m0 else 'fixed' if m1 else 'neither'
        self.version_votes[ver] += 1
        if ver == 'neither':
            ctx.violation(dict(call='eval_exp_recurse', kind='model-mismatch'), case, dict(current=q['f0'], fixed=q['f1']),
                          d['impl_toks'], 'flattened text is neither QExp.flatten nor QExp.flatten_fixed of the tree',
                          kind='correspondence', corr='coq/qasm/QExp.v flatE vs visitor.eval_exp_recurse')
        # (2) python grammar model vs python's parser, on the text the implementation emitted
        model_py = q['e1'] if m1 else q['e0']
        if ver != 'neither' and d['impl_py'] != model_py:
            ctx.violation(dict(call='pyparse', kind='model-mismatch'), dict(case, code=d['code']), model_py, d['impl_py'],
                          'python parses the emitted text differently from QExp.pyparse',
                          kind='correspondence', corr='coq/qasm/QExp.v pyparse/pyeval vs ast.parse')
        # (3) the standard reading of the Lark tree = the generator's semantic tree
        if q['den'] != d['sem_sym']:
            ctx.violation(dict(call='denote', kind='model-mismatch'), case, d['sem_sym'], q['den'],
                          'QExp.denote of the Lark tree differs from the semantic tree the text was printed from',
                          kind='correspondence', corr='coq/qasm/QExp.v normE/denote vs generator')
        # (4) the repaired flattening is faithful on this tree (instance of C17_exp_faithful)
        if q['e1'] != q['den']:
            ctx.violation(dict(call='exp_faithful', kind='model-mismatch'), case, q['den'], q['e1'],
                          'model: eval_exp true <> denote on a real tree (theorem instance fails?)',
                          kind='correspondence', corr='C17_exp_faithful instance')
        # (5) property oracle on the implementation
        if d['val'] is None or not close(d['val'], d['expected']):
            case, sem, expected, obs = self.shrink_expr(case, d['sem'], d['expected'], d['obs'])
            self.exp_violation(case, sem, expected, obs, (q['e0'] == q['den']) if sem is d['sem'] else False if '(' in case['text'] else None)
        nontrivial = q['e0'] != q['den'] or has_kind(d['sem'], ('neg', 'pow', 'fn'))
        ctx.case(d['key'], nontrivial=nontrivial)
        if q['e0'] != q['den']:
            ctx.count('expr_paren_sensitive')


# ---- argument lists ----------------------------------------------------------
def enc_idlist(I, t, ids) -> str:
    # idlist: ID | idlist "," ID   -> ids in textual order
    out = []
    while True:
        if not isinstance(t, I.lark.Tree) or t.data != 'idlist':
            raise BadTree(f'idlist expected: {t!r:.60}')
        if len(t.children) == 2:
            out.append(ids(str(t.children[1])))
            t = t.children[0]
        elif len(t.children) == 1:
            out.append(ids(str(t.children[0])))
            break
        else:
            raise BadTree('idlist arity')
    return '[idl ' + ' '.join(str(x) for x in reversed(out)) + ']'


def enc_mixed(I, t, ids) -> str:
    ch = t.children
    if t.data != 'mixedlist':
        raise BadTree('mixedlist expected')
    if isinstance(ch[0], I.lark.Tree):
        if ch[0].data == 'idlist':
            if len(ch) != 3:
                raise BadTree('idlist-headed mixedlist arity')
            return '[mxidl %s %d %d]' % (enc_idlist(I, ch[0], ids), ids(str(ch[1])), int(ch[2]))
        if len(ch) == 2:
            return '[mxid %s %d]' % (enc_mixed(I, ch[0], ids), ids(str(ch[1])))
        if len(ch) == 3:
            return '[mxidx %s %d %d]' % (enc_mixed(I, ch[0], ids), ids(str(ch[1])), int(ch[2]))
        raise BadTree('mixedlist arity')
    if len(ch) != 2:
        raise BadTree('mixedlist head arity')
    return '[mxfirst %d %d]' % (ids(str(ch[0])), int(ch[1]))


def enc_qlist(I, t, ids) -> str:
    if t.data == 'anylist':
        c = t.children[0]
        return '[any %s]' % (enc_idlist(I, c, ids) if c.data == 'idlist' else enc_mixed(I, c, ids))
    if t.data == 'argument':
        if len(t.children) == 2:
            return '[arg %d %d]' % (ids(str(t.children[0])), int(t.children[1]))
        return '[arg %d]' % ids(str(t.children[0]))
    raise BadTree(f'qlist of kind {t.data}')


def qlist_items(I, t) -> list:
    """the argument list as (name, index|None) in textual order (specification side)"""
    if t.data == 'anylist':
        return qlist_items(I, t.children[0])
    if t.data == 'idlist':
        if len(t.children) == 2:
            return qlist_items(I, t.children[0]) + [(str(t.children[1]), None)]
        return [(str(t.children[0]), None)]
    if t.data == 'argument':
        return [(str(t.children[0]), int(t.children[1]) if len(t.children) == 2 else None)]
    if t.data == 'mixedlist':
        ch = t.children
        if isinstance(ch[0], I.lark.Tree):
            head = qlist_items(I, ch[0])
            return head + [(str(ch[1]), int(ch[2]) if len(ch) == 3 else None)]
        return [(str(ch[0]), int(ch[1]))]
    raise BadTree(t.data)


def spec_locs(regs, items):
    """flat indices by the definition: offset = sum of earlier sizes; None if a register is unknown"""
    out = []
    for name, idx in items:
        off = 0
        for n, sz in regs:
            if n == name:
                out += [off + idx] if idx is not None else [off + k for k in range(sz)]
                break
            off += sz
        else:
            return None
    return out


# =============================================================================
# instrumented decoding of a whole program
# =============================================================================
class Trace:
    def __init__(self):
        self.conv = []      # (regs, qlist tree, result|exc)     top-level conversions
        self.evals = []     # (tree, code, value|exc)
        self.binds = []     # (formals, exp tree, has, stored tree|None)
        self.substs = []    # (stored tree, params, code)
        self.cx = []        # (regs, (c, ci, t, ti), loc|exc)
        self.ug = []
        self.resets = []    # (regs, tree, [locs])
        self.meas = []      # (regs, tree, loc, keys)


def decode_traced(I: Impl, text: str):
    """Run the real decoder with the visitor's helper calls recorded (monkeypatching only)."""
    V = I.V
    tr = Trace()
    Vis = V.OPENQASMVisitor
    saved = dict(conv=Vis.convert_qubit_ids_to_indices, eval_exp=V.eval_exp, rpi=Vis.replace_param_ids,
                 epe=V.CustomGateDef.evaluate_param_exps, cx=Vis.cxgate, ug=Vis.ugate, reset=Vis.reset, measure=Vis.measure,
                 gatep=Vis.gatep, ugatep=Vis.ugatep)
    depth = [0]

    def conv(self, qlist):
        depth[0] += 1
        try:
            try:
                r = saved['conv'](self, qlist)
            except Exception as e:  # noqa
                if depth[0] == 1:
                    tr.conv.append((list(self.qubit_regs), qlist, e))
                raise
            if depth[0] == 1:
                tr.conv.append((list(self.qubit_regs), qlist, list(r)))
            return r
        finally:
            depth[0] -= 1

    def eval_exp(tree):
        code = V.eval_exp_recurse(tree)
        try:
            r = saved['eval_exp'](tree)
        except Exception as e:  # noqa
            tr.evals.append((tree, code, e))
            raise
        tr.evals.append((tree, code, float(r)))
        return r

    cur = dict(formals=None)

    def gatep(self, tree):
        cur['formals'] = list(self.gate_def_parsing_obj['params'])
        return saved['gatep'](self, tree)

    def ugatep(self, tree):
        cur['formals'] = list(self.gate_def_parsing_obj['params'])
        return saved['ugatep'](self, tree)

    rdepth = [0]

    def rpi(self, exp):
        rdepth[0] += 1
        try:
            r = saved['rpi'](self, exp)
        finally:
            rdepth[0] -= 1
        if rdepth[0] == 0:
            tr.binds.append((list(self.gate_def_parsing_obj['params']), exp, r))
        return r

    def epe(self, param_exps, params):
        for e in param_exps:
            if not isinstance(e, float):
                sub = self.replace_param_indices(e, params)
                tr.substs.append((e, [float(p) for p in params], V.eval_exp_recurse(sub)))
        return saved['epe'](self, param_exps, params)

    def wrap_stmt(name, store):
        def f(self, tree):
            n0 = len(self.op_list)
            regs = list(self.qubit_regs)
            nfail = sum(1 for x in tr.evals if isinstance(x[2], Exception))
            try:
                r = saved[name](self, tree)
            except Exception as e:  # noqa
                if sum(1 for x in tr.evals if isinstance(x[2], Exception)) == nfail:
                    store.append((regs, tree, e))    # (a failing parameter expression is reported through tr.evals)
                raise
            store.append((regs, tree, list(self.op_list[n0:])))
            return r
        return f

    Vis.convert_qubit_ids_to_indices = conv
    V.eval_exp = eval_exp
    Vis.replace_param_ids = rpi
    Vis.gatep, Vis.ugatep = gatep, ugatep
    V.CustomGateDef.evaluate_param_exps = epe
    Vis.cxgate = wrap_stmt('cx', tr.cx)
    Vis.ugate = wrap_stmt('ug', tr.ug)
    Vis.reset = wrap_stmt('reset', tr.resets)
    Vis.measure = wrap_stmt('measure', tr.meas)
    try:
        try:
            circ = I.L.decode(text)
            err = None
        except Exception as e:  # noqa
            circ, err = None, e
    finally:
        Vis.convert_qubit_ids_to_indices = saved['conv']
        V.eval_exp = saved['eval_exp']
        Vis.replace_param_ids = saved['rpi']
        Vis.gatep, Vis.ugatep = saved['gatep'], saved['ugatep']
        V.CustomGateDef.evaluate_param_exps = saved['epe']
        Vis.cxgate, Vis.ugate, Vis.reset, Vis.measure = saved['cx'], saved['ug'], saved['reset'], saved['measure']
    return circ, err, tr


def exc_class(I, e) -> str:
    return 'ERRLANG' if isinstance(e, I.LangException) else 'ERRCRASH'


def fmt_ints(l) -> str:
    return '[' + ' '.join(str(int(x)) for x in l) + ']'


def float_act(x: float, lits: Interner) -> str:
    s = str(float(x))
    if s.startswith('-'):
        return '[1 %d]' % lits(s[1:])
    return '[0 %d]' % lits(s)


def check_trace(ck: Checker, M: Model, text: str, tr: Trace, case):
    """queue model queries for everything the decoder did on this program"""
    ctx, I = ck.ctx, ck.I
    regids = Interner()

    def regs_enc(regs):
        return '[' + ' '.join('[%d %d]' % (regids(str(n)), int(sz)) for n, sz in regs) + ']'

    for regs, qlist, res in tr.conv:
        try:
            enc = enc_qlist(I, qlist, regids)
            items = qlist_items(I, qlist)
        except BadTree as e:
            ctx.broken_obligation('argument list of a shape the model does not know', f'{e}')
            continue
        impl = exc_class(I, res) if isinstance(res, Exception) else fmt_ints(res)
        spec = spec_locs([(str(n), int(s)) for n, s in regs], items)
        ck.pending.append(('conv', dict(case=case, qi=M.q(f'conv {regs_enc(regs)} {enc}'), impl=impl,
                                        spec=None if spec is None else fmt_ints(spec), items=items,
                                        err=repr(res)[:120] if isinstance(res, Exception) else None)))
        ctx.count('conv_calls')
    for regs, tree, res in tr.cx:
        c, t = tree.children[0].children, tree.children[1].children
        if len(c) != 2 or len(t) != 2:
            continue    # `CX q, r;` : IndexError in the code, not modelled (register broadcast is unsupported)
        q = f'cx {regs_enc(regs)} {regids(str(c[0]))} {int(c[1])} {regids(str(t[0]))} {int(t[1])}'
        impl = exc_class(I, res) if isinstance(res, Exception) else fmt_ints(res[0].location)
        spec = spec_locs([(str(n), int(s)) for n, s in regs], [(str(c[0]), int(c[1])), (str(t[0]), int(t[1]))])
        ck.pending.append(('stmt', dict(case=case, what='cxgate', qi=M.q(q), impl=impl,
                                        spec=None if spec is None or spec[0] == spec[1] else fmt_ints(spec))))
    for regs, tree, res in tr.ug:
        a = tree.children[1].children
        if len(a) != 2:
            continue
        q = f'ug {regs_enc(regs)} {regids(str(a[0]))} {int(a[1])}'
        impl = exc_class(I, res) if isinstance(res, Exception) else fmt_ints(res[0].location)
        spec = spec_locs([(str(n), int(s)) for n, s in regs], [(str(a[0]), int(a[1]))])
        ck.pending.append(('stmt', dict(case=case, what='ugate', qi=M.q(q), impl=impl, spec=None if spec is None else fmt_ints(spec))))
    for regs, tree, res in tr.resets:
        a = tree.children[-1].children
        q = f'reset {regs_enc(regs)} {regids(str(a[0]))}' + (f' {int(a[1])}' if len(a) == 2 else '')
        impl = exc_class(I, res) if isinstance(res, Exception) else fmt_ints([op.location[0] for op in res])
        spec = spec_locs([(str(n), int(s)) for n, s in regs], [(str(a[0]), int(a[1]) if len(a) == 2 else None)])
        ck.pending.append(('reset', dict(case=case, qi=M.q(q), impl=impl, spec=None if spec is None else fmt_ints(spec))))
    for regs, tree, res in tr.meas:
        a = tree.children[0].children
        cb = tree.children[1].children
        if len(a) != len(cb):
            continue
        q = f'meas {regs_enc(regs)} {regids(str(a[0]))}' + (f' {int(a[1])}' if len(a) == 2 else '')
        if isinstance(res, Exception):
            impl = exc_class(I, res)
            if impl == 'ERRLANG':
                continue       # classical-register checks (size mismatch, unknown creg) are not modelled
        else:
            op = res[0]
            impl = '[%s %s]' % (fmt_ints(op.location), fmt_ints(list(op.gate.measurements.keys())))
        spec = spec_locs([(str(n), int(s)) for n, s in regs], [(str(a[0]), int(a[1]) if len(a) == 2 else None)])
        ck.pending.append(('meas', dict(case=case, qi=M.q(q), impl=impl,
                                        spec=None if spec is None else '[%s %s]' % (fmt_ints(spec), fmt_ints(spec)))))
    # expressions evaluated while decoding (top-level parameters, constant body parameters)
    for tree, code, res in tr.evals:
        if any(isinstance(t, I.lark.Token) and t.type == 'REAL' and not re.fullmatch(NUM_RE, str(t))
               for t in tree.scan_values(lambda v: isinstance(v, I.lark.Token))):
            continue       # a substituted tree: compared through tr.substs
        lits, ids = Interner(), Interner()
        try:
            enc = enc_exp(I, tree, lits, ids)
        except BadTree as e:
            ctx.broken_obligation('Lark tree of an expression has a shape the model does not know', f'{e}')
            continue
        ck.pending.append(('pexpr', dict(case=case, ok=M.q(f'ok {enc}'), f0=M.q(f'flat 0 {enc}'), f1=M.q(f'flat 1 {enc}'),
                                         e0=M.q(f'eval 0 [{" ".join(FN_STD)}] {enc}'), e1=M.q(f'eval 1 [{" ".join(FN_STD)}] {enc}'),
                                         impl_toks=tokens_of_code(I, code, lits, ids), impl_py=sym_of_pyast(I, code, lits), code=code)))
        ctx.count('program_expressions')
    # replace_param_ids / has_param_variable
    for formals, exp, stored in tr.binds:
        lits, ids = Interner(), Interner()
        try:
            enc = enc_exp(I, exp, lits, ids)
            enc_st = enc_exp(I, stored, lits, ids)
        except BadTree as e:
            ctx.broken_obligation('gate-body expression of a shape the model does not know', f'{e}')
            continue
        fs = '[' + ' '.join(str(ids(f)) for f in formals) + ']'
        ck.pending.append(('bind', dict(case=case, qi=M.q(f'bind {fs} {enc}'), has=M.q(f'has {fs} {enc}'), impl=enc_st)))
        ctx.count('bind_calls')
    # replace_param_indices + flatten
    for stored, params, code in tr.substs:
        if not all(math.isfinite(p) for p in params):
            ctx.count('subst_nonfinite_actual_skipped')     # str(nan) / str(inf) are names, outside the model's assumption
            continue
        lits, ids = Interner(), Interner()
        try:
            enc = enc_exp(I, stored, lits, ids)
        except BadTree as e:
            ctx.broken_obligation('stored gate-body expression of a shape the model does not know', f'{e}')
            continue
        acts = '[' + ' '.join(float_act(p, lits) for p in params) + ']'
        ck.pending.append(('subst', dict(case=case, f0=M.q(f'sflat 0 {acts} {enc}'), f1=M.q(f'sflat 1 {acts} {enc}'),
                                         impl=tokens_of_code(I, code, lits, ids), code=code, params=params)))
        ctx.count('subst_calls')


def finish_pending(ck: Checker, M: Model):
    ctx = ck.ctx
    for kind, d in ck.pending:
        if kind == 'expr':
            ck.finish_expression(M, d)
        elif kind == 'prog':
            finish_prog(ck, M, d)
        elif kind == 'conv':
            m = M.a(d['qi'])
            if not ck.regs_vote('conv', m, d['impl'], d['spec']):
                ctx.violation(dict(call='convert_qubit_ids_to_indices', kind='model-mismatch'), d['case'], m, d['impl'],
                              'QRegs.convert_qubit_ids_to_indices and the implementation disagree',
                              kind='correspondence', corr='coq/qasm/QRegs.v vs visitor.convert_qubit_ids_to_indices')
            if d['impl'] == 'ERRCRASH':
                multi = sum(1 for _, i in d['items'] if i is None) >= 2 or len(d['items']) >= 2
                ctx.violation(dict(call='convert_qubit_ids_to_indices', symptom='idlist-crash' if multi else 'crash'),
                              d['case'], d['spec'], d['err'],
                              'an argument list of two or more bare register names crashes the decoder (AttributeError)')
            elif d['spec'] is not None and d['impl'] != d['spec']:
                ctx.violation(dict(call='convert_qubit_ids_to_indices', symptom='wrong-index'), d['case'], d['spec'], d['impl'],
                              'flat qubit indices differ from (sum of earlier register sizes) + index')
        elif kind == 'stmt':
            m = M.a(d['qi'])
            if m != d['impl']:
                ctx.violation(dict(call=d['what'], kind='model-mismatch'), d['case'], m, d['impl'],
                              f'QRegs.{d["what"]} and the implementation disagree', kind='correspondence',
                              corr=f'coq/qasm/QRegs.v vs visitor.{d["what"]}')
            if d['spec'] is not None and d['impl'] != d['spec']:
                ctx.violation(dict(call=d['what'], symptom='wrong-index'), d['case'], d['spec'], d['impl'],
                              f'{d["what"]}: operation location differs from the register arithmetic')
        elif kind == 'reset':
            m = M.a(d['qi'])
            if not ck.regs_vote('reset', m, d['impl'], d['spec']):
                ctx.violation(dict(call='reset', kind='model-mismatch'), d['case'], m, d['impl'],
                              'QRegs.reset_locs and the implementation disagree', kind='correspondence',
                              corr='coq/qasm/QRegs.v vs visitor.reset')
            if d['spec'] is not None and d['impl'] != d['spec']:
                ctx.violation(dict(call='reset', symptom='wrong-register'), d['case'], d['spec'], d['impl'],
                              '`reset r;` resets the qubits of the FIRST declared register whatever register is named')
        elif kind == 'meas':
            m = M.a(d['qi'])
            if not ck.regs_vote('meas', m, d['impl'], d['spec']):
                ctx.violation(dict(call='measure', kind='model-mismatch'), d['case'], m, d['impl'],
                              'QRegs.measure_keys and the implementation disagree', kind='correspondence',
                              corr='coq/qasm/QRegs.v vs visitor.measure')
            if d['spec'] is not None and d['impl'] != d['spec']:
                ctx.violation(dict(call='measure', symptom='register-offset-ignored'), d['case'], d['spec'], d['impl'],
                              '`measure r[i] -> c[j];` records the register-local index i as the measured qudit '
                              '(wrong for every register but the first)')
        elif kind == 'pexpr':
            f0, f1 = M.a(d['f0']), M.a(d['f1'])
            m0, m1 = d['impl_toks'] == f0, d['impl_toks'] == f1
            ver = 'both' if (m0 and m1) else 'current' if m0 else 'fixed' if m1 else 'neither'
            ck.version_votes[ver] += 1
            if M.a(d['ok']) != 'T':
                ctx.broken_obligation('a real Lark tree violates lark_ok (shape assumption of C17_exp_faithful)', d['code'])
            if ver == 'neither':
                ctx.violation(dict(call='eval_exp_recurse', kind='model-mismatch'), dict(d['case'], code=d['code']),
                              dict(current=f0, fixed=f1), d['impl_toks'],
                              'flattened text is neither QExp.flatten nor QExp.flatten_fixed of the tree',
                              kind='correspondence', corr='coq/qasm/QExp.v flatE vs visitor.eval_exp_recurse')
            else:
                mp = M.a(d['e1']) if m1 else M.a(d['e0'])
                if mp != d['impl_py']:
                    ctx.violation(dict(call='pyparse', kind='model-mismatch'), dict(d['case'], code=d['code']), mp, d['impl_py'],
                                  'python parses the emitted text differently from QExp.pyparse',
                                  kind='correspondence', corr='coq/qasm/QExp.v pyparse vs ast.parse')
        elif kind == 'formals':
            m = M.a(d['qi'])
            flat = [int(x) for x in re.findall(r'\d+', m)]
            if m != d['impl'] or d['header'] != list(range(d['nparams'])) or flat != d['header']:
                ctx.violation(dict(call='get_qasm_gate_def', kind='model-mismatch'), dict(d['case'], block=d['name']),
                              dict(body=m, header=list(range(d['nparams']))), dict(body=d['impl'], header=d['header']),
                              'formal parameters printed in a CircuitGate definition differ from QEnc.body_formals '
                              '(contiguous disjoint slices of p0..p{n-1} in body order)',
                              kind='correspondence', corr='coq/qasm/QEnc.v body_formals vs CircuitGate.get_qasm_gate_def')
        elif kind == 'bind':
            m, h = M.a(d['qi']), M.a(d['has'])
            if m != d['impl'] or h != 'T':
                ctx.violation(dict(call='replace_param_ids', kind='model-mismatch'), d['case'], m + ' has=' + h, d['impl'],
                              'QExp.bindE / hasE and replace_param_ids / has_param_variable disagree',
                              kind='correspondence', corr='coq/qasm/QExp.v bindE vs visitor.replace_param_ids')
        elif kind == 'subst':
            f0, f1 = M.a(d['f0']), M.a(d['f1'])
            m0, m1 = d['impl'] == f0, d['impl'] == f1
            ver = 'both' if (m0 and m1) else 'current' if m0 else 'fixed' if m1 else 'neither'
            ck.version_votes[ver] += 1
            if ver == 'neither':
                ctx.violation(dict(call='replace_param_indices', kind='model-mismatch'),
                              dict(d['case'], code=d['code'], params=d['params']), dict(current=f0, fixed=f1), d['impl'],
                              'substituted + flattened body expression differs from QExp.substE + flatE',
                              kind='correspondence', corr='coq/qasm/QExp.v substE/flatE vs CustomGateDef.replace_param_indices')
    ck.pending = []


# =============================================================================
# unitaries
# =============================================================================
def phase_dist(np, A, B) -> float:
    """max |A - e^{i phi} B| with the phase fixed on B's largest entry"""
    if A.shape != B.shape:
        return float('inf')
    k = int(np.argmax(np.abs(B)))
    i, j = divmod(k, B.shape[1])
    if abs(B[i, j]) < 1e-9 or abs(A[i, j]) < 1e-9:
        return float(np.max(np.abs(np.abs(A) - np.abs(B)))) + 1.0
    ph = (A[i, j] / B[i, j])
    ph = ph / abs(ph)
    return float(np.max(np.abs(A - ph * B)))


def unitary_of(I: Impl, circ):
    """unitary of the decoded circuit with measure/reset/barrier pseudo-operations removed"""
    from bqskit.ir.gates.measure import MeasurementPlaceholder
    from bqskit.ir.gates.reset import Reset
    from bqskit.ir.gates.barrier import BarrierPlaceholder
    c = I.Circuit(circ.num_qudits)
    for op in circ:
        if isinstance(op.gate, (MeasurementPlaceholder, Reset, BarrierPlaceholder)):
            continue
        c.append(op)
    return I.np.array(c.get_unitary().numpy)


class LargeAngle(Exception):
    pass


def _max_angle(qc, depth=0) -> float:
    m = 0.0
    for inst in qc.data:
        op = inst.operation
        for p in op.params:
            try:
                m = max(m, abs(float(p)))
            except Exception:  # noqa
                pass
        d = getattr(op, 'definition', None)
        if d is not None and depth < 6 and op.name not in QELIB:
            m = max(m, _max_angle(d, depth + 1))
    return m


def qiskit_unitary(I: Impl, text: str, angle_limit=1e4):
    """reference unitary.  Raises LargeAngle when some rotation angle of the program exceeds angle_limit:
    sin/cos of a huge argument lose |angle|*2^-52 of absolute accuracy, so two correct implementations may
    differ by more than the comparison tolerance."""
    from qiskit import qasm2
    from qiskit.quantum_info import Operator
    qc = qasm2.loads(text, custom_instructions=qasm2.LEGACY_CUSTOM_INSTRUCTIONS)
    if angle_limit is not None and _max_angle(qc) > angle_limit:
        raise LargeAngle()
    qc.remove_final_measurements(inplace=True)
    qc2 = qc.copy_empty_like()
    for inst in qc.data:
        if inst.operation.name in ('barrier',):
            continue
        qc2.append(inst)
    return I.np.array(Operator(qc2.reverse_bits()).data)


# =============================================================================
# program generator
# =============================================================================
# name -> (num_params, num_qubits): qelib1.inc as Qiskit defines it (legacy set) and BQSKit's table
QELIB = {'u3': (3, 1), 'u2': (2, 1), 'u1': (1, 1), 'cx': (0, 2), 'id': (0, 1), 'u': (3, 1), 'p': (1, 1), 'x': (0, 1),
         'y': (0, 1), 'z': (0, 1), 'h': (0, 1), 's': (0, 1), 'sdg': (0, 1), 't': (0, 1), 'tdg': (0, 1), 'rx': (1, 1),
         'ry': (1, 1), 'rz': (1, 1), 'sx': (0, 1), 'sxdg': (0, 1), 'cz': (0, 2), 'cy': (0, 2), 'swap': (0, 2), 'ch': (0, 2),
         'ccx': (0, 3), 'cswap': (0, 3), 'crx': (1, 2), 'cry': (1, 2), 'crz': (1, 2), 'cu1': (1, 2), 'cp': (1, 2),
         'cu3': (3, 2), 'csx': (0, 2), 'cu': (4, 2), 'rxx': (1, 2), 'rzz': (1, 2), 'rccx': (0, 3), 'rc3x': (0, 4),
         'c3x': (0, 4), 'c3sqrtx': (0, 4), 'c4x': (0, 5)}
REGNAMES = ['q', 'r', 'anc', 'w', 'q2', 'data']


def gen_program(rng, fns, with_reset=False, paren_free=False):
    """returns (text, meta).  fns: expression functions the generator may use."""
    nregs = rng.choice([1, 1, 2, 2, 3])
    names = rng.sample(REGNAMES, nregs)
    sizes = [rng.randint(1, 3) for _ in range(nregs)]
    while sum(sizes) < 2:
        sizes[0] += 1
    regs = list(zip(names, sizes))
    total = sum(sizes)
    qubits = [(n, i) for n, s in regs for i in range(s)]
    lines = ['OPENQASM 2.0;', 'include "qelib1.inc";']
    # registers may be declared between other statements only before first use: keep them first,
    # sometimes interleaved with a creg
    creg = None
    for k, (n, s) in enumerate(regs):
        lines.append(f'qreg {n}[{s}];')
        if creg is None and rng.random() < 0.4:
            creg = ('c', max(sizes))
            lines.append(f'creg c[{creg[1]}];')

    def pexp(depth, ids=(), env=None):
        n, v = draw_exp(rng, depth, ids, env, fns)
        if paren_free and has_kind(n, ('paren',)):
            return pexp(depth, ids, env)
        t = pr(n, 1, rng)
        if paren_free and '(' in t.replace('sin(', '').replace('cos(', '').replace('tan(', '').replace('ln(', ''):
            return pexp(max(depth - 1, 0), ids, env)
        return t

    # user gates
    customs = {}      # name -> (nparams, nqubits)
    ndefs = rng.choice([0, 1, 2, 2, 3])
    for d in range(ndefs):
        gname = f'g{d}'
        np_ = rng.choice([0, 1, 1, 2, 3])
        nq = rng.randint(1, min(3, total))
        formals = rng.sample(['a', 'b', 'theta', 'lam', 'x0'], np_)
        qs = rng.sample(['qa', 'qb', 'qc', 't0'], nq)
        hdr = f'gate {gname}' + (f'({", ".join(formals)})' if formals or rng.random() < 0.2 else '') + ' ' + ', '.join(qs)
        body = []
        for _ in range(rng.randint(0, 4)):
            r = rng.random()
            cands = [(n, a) for n, a in list(QELIB.items()) + list(customs.items()) if a[1] <= nq]
            if r < 0.12:
                body.append(f'  U({pexp(2, formals)}, {pexp(1, formals)}, {pexp(2, formals)}) {rng.choice(qs)};')
            elif r < 0.22 and nq >= 2:
                a, b = rng.sample(qs, 2)
                body.append(f'  CX {a}, {b};')
            elif r < 0.28 and nq >= 1 and (body or rng.random() < 0.05):
                # (a barrier as the FIRST body statement is rejected by the grammar: known finding, kept rare)
                body.append('  barrier ' + ', '.join(rng.sample(qs, rng.randint(1, nq))) + ';')
            else:
                nested = [(n, a) for n, a in customs.items() if a[1] <= nq]
                n, (p, a) = rng.choice(nested) if nested and rng.random() < 0.35 else rng.choice(cands)
                args = ', '.join(rng.sample(qs, a))
                ps = ', '.join(pexp(rng.choice([1, 2, 3]), formals) for _ in range(p))
                body.append(f'  {n}' + (f'({ps})' if p else ('()' if rng.random() < 0.1 else '')) + f' {args};')
        lines.append(hdr + ' {')
        lines += body
        lines.append('}')
        customs[gname] = (np_, nq)
    # statements
    nst = rng.randint(4, 12)
    for _ in range(nst):
        r = rng.random()
        if r < 0.08:
            n, i = rng.choice(qubits)
            lines.append(f'U({pexp(2)}, {pexp(2)}, {pexp(1)}) {n}[{i}];')
        elif r < 0.16 and total >= 2:
            (a, i), (b, j) = rng.sample(qubits, 2)
            lines.append(f'CX {a}[{i}], {b}[{j}];')
        elif r < 0.26:
            # barrier: single register / indexed qubits / mixed list (a list of 2+ bare names crashes: directed cases)
            form = rng.random()
            if form < 0.3:
                lines.append(f'barrier {rng.choice(names)};')
            elif form < 0.65:
                k = rng.randint(1, total)
                lines.append('barrier ' + ', '.join(f'{n}[{i}]' for n, i in rng.sample(qubits, k)) + ';')
            else:
                # one bare name first or later, the rest indexed qubits of OTHER registers
                bare = rng.choice(names)
                others = [(n, i) for n, i in qubits if n != bare]
                picks = rng.sample(others, rng.randint(0, len(others))) if others else []
                items = [f'{n}[{i}]' for n, i in picks]
                pos = rng.randint(0, len(items))
                if pos >= 2 or (pos == 1 and len(items) >= 1) or pos == 0:
                    items.insert(pos, bare)
                lines.append('barrier ' + ', '.join(items) + ';')
        elif r < 0.50 and customs:
            g = rng.choice(list(customs))
            p, a = customs[g]
            if a > total:
                continue
            args = ', '.join(f'{n}[{i}]' for n, i in rng.sample(qubits, a))
            ps = ', '.join(pexp(rng.choice([1, 2, 3])) for _ in range(p))
            lines.append(f'{g}' + (f'({ps})' if p else '') + f' {args};')
        else:
            cands = [(n, a) for n, a in QELIB.items() if a[1] <= total]
            n, (p, a) = rng.choice(cands)
            args = ', '.join(f'{x}[{i}]' for x, i in rng.sample(qubits, a))
            ps = ', '.join(pexp(rng.choice([0, 1, 2, 3])) for _ in range(p))
            lines.append(f'{n}' + (f'({ps})' if p else '') + f' {args};')
    meta = dict(regs=regs, has_reset=False, has_measure=False)
    if with_reset:
        k = rng.randint(1, 2)
        for _ in range(k):
            if rng.random() < 0.5:
                lines.append(f'reset {rng.choice(names)};')
            else:
                n, i = rng.choice(qubits)
                lines.append(f'reset {n}[{i}];')
        meta['has_reset'] = True
    if creg is not None and rng.random() < 0.7:
        # final measurements
        for _ in range(rng.randint(1, 2)):
            if rng.random() < 0.4:
                cands = [(n, s) for n, s in regs if s == creg[1]]
                if cands:
                    lines.append(f'measure {rng.choice(cands)[0]} -> c;')
                    continue
            n, i = rng.choice(qubits)
            lines.append(f'measure {n}[{i}] -> c[{rng.randrange(creg[1])}];')
        meta['has_measure'] = True
    return '\n'.join(lines) + '\n', meta


def check_program(ck: Checker, M: Model, text: str, meta, key, compare_qiskit=True):
    ctx, I = ck.ctx, ck.I
    case = dict(kind='program', text=text)
    circ, err, tr = decode_traced(I, text)
    check_trace(ck, M, text, tr, case)
    ctx.case(key, nontrivial=True)
    if err is not None:
        # the generator only emits supported constructs: a failure is a finding unless it is one of the known classes
        msg = type(err).__name__ + ': ' + str(err)[:100]
        if any(isinstance(r, Exception) and exc_class(I, r) == 'ERRCRASH' for _, _, r in tr.conv):
            return       # reported through the conversion record (idlist crash)
        bad_eval = [e for _, _, e in tr.evals if isinstance(e, Exception)]
        m = re.search(r'\b(exp|sqrt)\(', text)
        if (bad_eval or 'Unexpected token' in str(err)) and m:
            fn = m.group(1)
            ctx.violation(dict(call='eval_exp', symptom='function-unavailable', fn=fn), case, 'program decodes', msg,
                          f'expression function {fn}() of OpenQASM 2 cannot be used (grammar terminal / eval_locals)')
            return
        if 'Unrecognized gate: barrier' in str(err) and re.search(r'\{\s*barrier\b', text):
            ctx.violation(dict(call='decode', symptom='barrier-first-in-gate-body'), case, 'program decodes', msg,
                          'a barrier as the first statement of a gate body is rejected by the grammar')
            return
        if _paren_matters(ck, text, need_qiskit=False):
            ctx.violation(dict(call='eval_exp', symptom='parentheses-dropped'), case, 'program decodes', msg,
                          'a parameter expression raises because its parentheses were dropped by the flattening')
            return
        if 'rejects' not in ck.shrunk:
            ck.shrunk.add('rejects')

            def rejected(t):
                try:
                    I.L.decode(t)
                    return False
                except Exception as e2:  # noqa
                    ok_q = True
                    try:
                        qiskit_unitary(I, t)
                    except Exception:  # noqa
                        ok_q = False
                    return ok_q and type(e2) is type(err) and not _paren_matters(ck, t, need_qiskit=False)
            small = shrink_lines(text, rejected)
            case = dict(kind='program', text=small, shrunk_from=text) if small != text else case
        ctx.violation(dict(call='decode', symptom='rejects-valid-program'), case, 'program decodes', msg,
                      'decoder raises on a program of the supported subset')
        return
    if not compare_qiskit or meta.get('has_reset'):
        return
    try:
        W = qiskit_unitary(I, text)
    except LargeAngle:
        ctx.count('qiskit_skipped_angle_above_1e4')
        return
    except Exception as e:  # noqa
        ctx.count('qiskit_rejected')
        ctx.cov.setdefault('qiskit_rejected_samples', [])
        if len(ctx.cov['qiskit_rejected_samples']) < 3:
            ctx.cov['qiskit_rejected_samples'].append(dict(text=text, error=str(e)[:200]))
        return
    try:
        U = unitary_of(I, circ)
        d = phase_dist(I.np, U, W)
    except Exception as e:  # noqa   (e.g. a non-finite parameter produced by a mis-evaluated expression)
        d = float('inf')
    ctx.count('qiskit_compared')
    if d > 1e-7:
        # classify with the model: is this the parenthesis defect?
        sig = dict(call='eval_exp', symptom='parentheses-dropped') if _paren_matters(ck, text) else \
            dict(call='decode', symptom='unitary-differs-from-qiskit')
        if vf.canon(sig) not in ck.shrunk:
            ck.shrunk.add(vf.canon(sig))

            def differs(t):
                c = I.L.decode(t)
                return phase_dist(I.np, unitary_of(I, c), qiskit_unitary(I, t)) > 1e-7 and \
                    (_paren_matters(ck, t) == (sig['symptom'] == 'parentheses-dropped'))
            small = shrink_lines(text, differs)
            if small != text:
                case = dict(kind='program', text=small, shrunk_from=text)
                try:
                    d = phase_dist(I.np, unitary_of(I, I.L.decode(small)), qiskit_unitary(I, small))
                except Exception:  # noqa
                    pass
        ctx.violation(sig, case, 'unitary equal to qiskit.qasm2.loads up to bit order and global phase',
                      f'max entry difference {d:.3e}', 'decoded circuit implements a different unitary than Qiskit assigns to the text')


def _paren_matters(ck: Checker, text: str, need_qiskit=True) -> bool:
    """Diagnosis of a disagreement with Qiskit: decode again with the flattening replaced (monkeypatch, in this
    process only) by a reference one that keeps parentheses and parenthesises substituted actuals.  If that
    agrees with Qiskit the disagreement is the parenthesis defect (D5)."""
    I = ck.I
    V, lark = I.V, I.lark

    def ref(t) -> str:
        if isinstance(t, lark.Token):
            s = str(t)
            return '(' + s + ')' if t.type == 'REAL' and not re.fullmatch(NUM_RE, s) else s
        d, ch = t.data, t.children
        if d in ('exp', 'mulexp'):
            return ' '.join(ref(c) for c in ch)
        if d == 'primaryexp':
            return ref(ch[0])
        if d == 'parenexp':
            return '(' + ref(ch[0]) + ')'
        if d == 'usub':
            return '-' + ref(ch[0])
        if d == 'pow':
            return ref(ch[0]) + '**' + ref(ch[1])
        if d == 'unaryexp':
            return str(ch[0].children[0]) + '(' + ref(ch[1]) + ')'
        raise BadTree(d)
    saved = V.eval_exp_recurse
    V.eval_exp_recurse = ref
    try:
        c2 = I.L.decode(text)
        if not need_qiskit:
            return True
        W = qiskit_unitary(I, text)
        return phase_dist(I.np, unitary_of(I, c2), W) < 1e-7
    except Exception:  # noqa
        return False
    finally:
        V.eval_exp_recurse = saved


# =============================================================================
# (i) encode -> decode round trip
# =============================================================================
def rt_gate_pool(I: Impl, T):
    """(gate object, class label, spelling) for library gates with a spelling, from the translator's collection"""
    pool = []
    for g in T['lib']:
        if g['spelling'] is None or g['spelling'] == 'reset':
            continue
        pool.append((T['gates'][g['gate']], g['cls'], g['spelling']))
    return pool


def ops_per_qubit(circ):
    n = circ.num_qudits
    seqs = [[] for _ in range(n)]
    for op in circ:
        for q in op.location:
            seqs[q].append(op)
    return seqs


def check_roundtrip(ck: Checker, circ, key, label=None, shrinking=False):
    ctx, I = ck.ctx, ck.I
    np = I.np
    if not shrinking:
        ctx.case(key, nontrivial=circ.num_operations > 0)
        # dry run on a scratch context to learn whether (and how) this circuit fails; then shrink it
        sig = rt_failure(I, circ)
        if sig is not None and circ.num_operations > 1 and ('rt', sig) not in ck.shrunk:
            ck.shrunk.add(('rt', sig))
            ops = list(circ)
            changed = True
            while changed and len(ops) > 1:
                changed = False
                for i in range(len(ops)):
                    c2 = I.Circuit(circ.num_qudits)
                    for o in ops[:i] + ops[i + 1:]:
                        c2.append(o)
                    if rt_failure(I, c2) == sig:
                        ops = ops[:i] + ops[i + 1:]
                        changed = True
                        break
            c2 = I.Circuit(circ.num_qudits)
            for o in ops:
                c2.append(o)
            circ = c2
    try:
        text = I.L.encode(circ)
    except Exception as e:  # noqa
        ctx.violation(dict(call='encode', symptom='raises', gate=label), dict(kind='roundtrip', ops=_ops_repr(circ)),
                      'qasm text', repr(e)[:200], 'encoder raises on a circuit over gates that have a QASM spelling')
        return None
    case = dict(kind='roundtrip', text=text, ops=_ops_repr(circ), n=circ.num_qudits)
    try:
        back = I.L.decode(text)
    except Exception as e:  # noqa
        m = re.search(r'Unrecognized gate: (\w+)|for gate (\w+)', str(e))
        gname = (m.group(1) or m.group(2)) if m else label
        ctx.violation(dict(call='roundtrip', symptom='spelling-rejected', gate=gname), case, 'decodes to the same circuit',
                      type(e).__name__ + ': ' + str(e)[:120], f"the decoder rejects the library's own QASM spelling `{gname}`")
        return text
    U, W = np.array(circ.get_unitary().numpy), np.array(back.get_unitary().numpy)
    d = float(np.max(np.abs(U - W))) if U.shape == W.shape else float('inf')
    if d > 1e-9:
        ctx.violation(dict(call='roundtrip', symptom='unitary-changed', gate=label), case, 'same unitary', f'max entry difference {d:.3e}',
                      'decode(encode(circuit)) implements a different unitary')
        return text
    views = [('as encoded', ops_per_qubit(circ), ops_per_qubit(back))]
    if circuit_gates_of(circ):
        try:
            from bqskit.ir.gates import IdentityGate
            ua = unfolded_ops(I, circ)
            if not any(isinstance(o.gate, IdentityGate) for sq in ua for o in sq):   # identityN decodes to a CircuitGate of U(0,0,0)
                views.append(('after unfolding', ua, unfolded_ops(I, back)))
                ctx.count('rt_unfolded_compared')
        except Exception:  # noqa
            ctx.count('rt_unfold_failed')
    for vname, a, b in views:
        bad = first_order_difference(ck, a, b)
        if bad is not None:
            q, sa, sb = bad
            ctx.violation(dict(call='roundtrip', symptom='per-qubit-order-changed', gate=label), dict(case, qubit=q, view=vname),
                          [repr(o)[:60] for o in sa], [repr(o)[:60] for o in sb],
                          'decode(encode(circuit)) has a different (gate, parameters) sequence on a qubit (' + vname + ')')
            break
    return text


def first_order_difference(ck: Checker, a, b):
    """first qubit whose operation sequences differ (same location, and same gate + parameters, or - for alias
    spellings that decode to another gate object - the same operation unitary)"""
    np = ck.I.np
    for q, (sa, sb) in enumerate(zip(a, b)):
        if len(sa) != len(sb):
            return q, sa, sb
        for x, y in zip(sa, sb):
            if tuple(x.location) != tuple(y.location):
                return q, sa, sb
            same = (x.gate == y.gate and len(x.params) == len(y.params) and all(p == r for p, r in zip(x.params, y.params)))
            if not same:
                if float(np.max(np.abs(np.array(x.get_unitary().numpy) - np.array(y.get_unitary().numpy)))) > 1e-9:
                    return q, sa, sb
                ck.ctx.count('rt_alias_ops')
    return None


def rt_failure(I: Impl, circ):
    """coarse classification of a round-trip failure (None = passes), used for shrinking"""
    np = I.np
    try:
        text = I.L.encode(circ)
    except Exception as e:  # noqa
        return 'encode:' + type(e).__name__
    try:
        back = I.L.decode(text)
    except Exception as e:  # noqa
        return 'decode:' + type(e).__name__ + ':' + str(e)[:30]
    try:
        U, W = np.array(circ.get_unitary().numpy), np.array(back.get_unitary().numpy)
    except Exception:  # noqa
        return None
    if U.shape != W.shape or float(np.max(np.abs(U - W))) > 1e-9:
        return 'unitary'
    a, b = ops_per_qubit(circ), ops_per_qubit(back)
    for sa, sb in zip(a, b):
        if len(sa) != len(sb) or any(tuple(x.location) != tuple(y.location) for x, y in zip(sa, sb)):
            return 'order'
    return None


def _spelling(g):
    try:
        return g.qasm_name
    except Exception:  # noqa
        return None


def _ops_repr(circ):
    from bqskit.ir.gates import CircuitGate
    out = []
    for op in circ:
        d = dict(gate=repr(op.gate)[:50], loc=list(op.location), params=[float(p) for p in op.params])
        if isinstance(op.gate, CircuitGate):
            # nested definition, so that a stored case can be rebuilt exactly
            d['circuit'] = dict(n=op.gate._circuit.num_qudits, ops=_ops_repr(op.gate._circuit))
        else:
            d['qasm'] = _spelling(op.gate)
        out.append(d)
    return out


_T_CACHE = []


def tables():
    if not _T_CACHE:
        import gen_qasm_table as G
        _T_CACHE.append(G.collect())
    return _T_CACHE[0]


def rebuild(I: Impl, case):
    """circuit of a stored round-trip / translator case: gates are looked up by their QASM spelling among the
    library gates (None if an operation is not a plain library gate, e.g. a CircuitGate)"""
    T = tables()
    by = {}
    for g in T['lib']:
        if g['spelling'] is not None:
            by.setdefault(g['spelling'], T['gates'][g['gate']])
    from bqskit.ir.gates import CircuitGate
    n = case.get('n') or (1 + max(max(o['loc']) for o in case['ops']))
    c = I.Circuit(n)
    for o in case['ops']:
        if 'circuit' in o:
            inner = rebuild(I, o['circuit'])
            if inner is None or inner.num_params != len(o['params']):
                return None
            c.append_gate(CircuitGate(inner), o['loc'], o['params'])
            continue
        g = by.get(o.get('qasm'))
        if g is None or g.num_params != len(o['params']):
            return None
        c.append_gate(g, o['loc'], o['params'])
    return c


def gen_rt_circuit(I: Impl, rng, pool, n, nops):
    c = I.Circuit(n)
    for _ in range(nops):
        g, _, _ = rng.choice(pool)
        if g.num_qudits > n:
            continue
        loc = rng.sample(range(n), g.num_qudits)
        ps = [rng.choice([rng.uniform(-7, 7), rng.uniform(-1e-4, 1e-4), rng.choice([0.0, math.pi, -math.pi / 2, 1e-7, 123456.789])])
              for _ in range(g.num_params)]
        c.append_gate(g, loc, ps)
    return c



# =============================================================================
# program-level encoder / decoder model (coq/qasm/QProg.v): abstraction of real circuits,
# token-wise comparison of Circuit.to('qasm') with QProg.toks_prog (encode_with ...),
# comparison of the visitor's op_list with QProg.decode_prog, and the round-trip oracle
# for circuits with barriers / measurements / resets
# =============================================================================
PAREN_SPELLINGS = {'rxx(pi/2)': 'rxx__pi_2', 'ryy(pi/2)': 'ryy__pi_2', 'rzz(pi/2)': 'rzz__pi_2'}
NO_DECODE_MODEL = {'rxx(pi/2)', 'ryy(pi/2)', 'rzz(pi/2)', 'identity1'}   # alias spellings: decode to another gate object
PROG_HEADER = 'OPENQASM 2.0;\ninclude "qelib1.inc";\n'


class Unsupported(Exception):
    pass


def _sl(items) -> str:
    return '[' + ' '.join(items) + ']'


class ProgAbs:
    """abstraction of a real Circuit into the input of the extracted QProg model.  A CircuitGate operation is
    represented by its body with the slices of the OPERATION's parameters; circuitgate_<hash> names are numbered by
    the gate's shape (a hash shared by two shapes = the injectivity assumption of the theorems is violated)"""

    def __init__(self, I: Impl, T):
        self.I, self.T = I, T
        self.lits, self.cregs, self.shapes = Interner(), Interner(), Interner()
        self.names: dict[int, str] = {}
        self.hash_shape: dict[str, int] = {}
        self.collision = False
        self.spellings: set = set()
        self.libdefs: set = set()
        self.circ_gates = 0
        self.sp_of_gid: dict[int, str] = {}

    def gid(self, g) -> int:
        for i, h in enumerate(self.T['gates']):
            if type(h) is type(g) and h == g:
                return i
        raise Unsupported('gate not among the interned library gates: %r' % (g,))

    def lit(self, x) -> str:
        s = str(x)
        if not re.fullmatch(r'-?' + NUM_RE, s):
            raise Unsupported('parameter prints as %s' % s)
        return '[neg %d]' % self.lits(s[1:]) if s.startswith('-') else str(self.lits(s))

    def uop(self, gate, loc, params, top=True):
        from bqskit.ir.gates import CircuitGate, FrozenParameterGate
        if isinstance(gate, CircuitGate):
            self.circ_gates += 1
            body, keys, idx = [], [], 0
            for bop in gate._circuit:
                k = bop.num_params
                a, key = self.uop(bop.gate, bop.location, list(params[idx:idx + k]), top=False)
                body.append(a)
                keys.append(key)
                idx += k
            if idx != len(params):
                raise Unsupported('operation has %d parameters, its CircuitGate %d' % (len(params), idx))
            nv = gate.num_qudits
            key = 'C%d%s' % (nv, _sl(keys))
            sid = self.shapes(key) + 1
            self.names.setdefault(sid, '[%d %d %s]' % (sid, nv, _sl(body)))
            hname = 'circuitgate_%d' % abs(hash(gate))
            if self.hash_shape.setdefault(hname, sid) != sid:
                self.collision = True
            return '[circ %d %s %s]' % (nv, _sl(body), fmt_ints(loc)), key + '@' + fmt_ints(loc)
        if isinstance(gate, FrozenParameterGate):
            if not top:
                raise Unsupported('FrozenParameterGate inside a CircuitGate (finding C17-frozen-in-circuitgate)')
            params = gate.get_full_params(params)
            gate = gate.gate
        if type(gate).__name__ in ('BarrierPlaceholder', 'MeasurementPlaceholder', 'Reset'):
            raise Unsupported('placeholder inside a CircuitGate')
        g = self.gid(gate)
        sp = _spelling(gate)
        if sp is None:
            raise Unsupported('gate without a spelling')
        self.spellings.add(sp)
        self.sp_of_gid[g] = sp
        d = gate.get_qasm_gate_def()
        if d:
            self.libdefs.add(d)
        return '[lib %d %s %s]' % (g, fmt_ints(loc), _sl(self.lit(x) for x in params)), 'L%d@%s#%d' % (g, fmt_ints(loc), len(params))

    def cop(self, op) -> str:
        g, kind = op.gate, type(op.gate).__name__
        if kind == 'BarrierPlaceholder':
            return '[barrier %s]' % fmt_ints(op.location)
        if kind == 'Reset':
            return '[reset %s]' % fmt_ints(op.location)
        if kind == 'MeasurementPlaceholder':
            cr = _sl('[%d %d]' % (self.cregs(str(n)), int(sz)) for n, sz in g.classical_regs)
            ms = _sl('[%d %d %d]' % (int(k), self.cregs(str(v[0])), int(v[1])) for k, v in g.measurements.items())
            return '[meas %s %s %s]' % (cr, ms, fmt_ints(op.location))
        return '[u %s]' % self.uop(g, op.location, list(op.params))[0]

    # ---- decoded side ----
    def iop(self, g, loc, params) -> str:
        from bqskit.ir.gates import CircuitGate
        if isinstance(g, CircuitGate):
            return '[circ %d %s %s]' % (g.num_qudits, _sl(self.iop(b.gate, b.location, list(b.params)) for b in g._circuit), fmt_ints(loc))
        return '[prim %d %s %s]' % (self.gid(g), fmt_ints(loc), _sl(self.symlit(x) for x in params))

    def symlit(self, x) -> str:
        s = str(x)
        if not re.fullmatch(r'-?' + NUM_RE, s):
            raise Unsupported('decoded parameter prints as %s' % s)
        return '[neg [num %d]]' % self.lits(s[1:]) if s.startswith('-') else '[num %d]' % self.lits(s)

    def decoded(self, vis) -> str:
        out = []
        for op in vis.op_list:
            g, kind = op.gate, type(op.gate).__name__
            if kind == 'BarrierPlaceholder':
                out.append('[barrier %s]' % fmt_ints(op.location))
            elif kind == 'Reset':
                out.append('[reset %s]' % fmt_ints(op.location))
            elif kind == 'MeasurementPlaceholder':
                items = list(g.measurements.items())
                if len(items) != 1:
                    raise Unsupported('decoded measurement with %d entries' % len(items))
                k, (cn, ci) = items[0]
                out.append('[meas %d %d %d %s]' % (int(k), self.cregs(str(cn)), int(ci), fmt_ints(op.location)))
            else:
                out.append('[u %s]' % self.iop(g, op.location, list(op.params)))
        cr = _sl('[%d %d]' % (self.cregs(str(r.name)), int(r.size)) for r in vis.classical_regs)
        return '[%s %s]' % (cr, _sl(out))


PTOK = re.compile(r'\s*(?:(?P<cg>circuitgate_\d+)|(?P<arrow>->)|(?P<num>' + NUM_RE + r')|(?P<id>[A-Za-z_]\w*)|(?P<sym>[-()\[\]{},;]))')
PKEYWORDS = {'qreg', 'creg', 'gate', 'barrier', 'measure', 'reset'}


def real_prog_tokens(pa: ProgAbs, text: str):
    """tokens of the encoder's output in the vocabulary of QProg.ptok (after the fixed header; the fixed definition
    texts of library gates - ecr, iswap, identityN - are removed: the decoder model ignores them)"""
    if not text.startswith(PROG_HEADER):
        return ['BADHEADER']
    text = text[len(PROG_HEADER):]
    for d in sorted(pa.libdefs, key=len, reverse=True):
        text = text.replace(d, '\n')
    for k, v in PAREN_SPELLINGS.items():
        text = text.replace(k, v)
    back = {v: k for k, v in PAREN_SPELLINGS.items()}
    out, pos, depth, minus, prev = [], 0, 0, False, ''
    while pos < len(text):
        m = PTOK.match(text, pos)
        if not m:
            if text[pos:].strip() == '':
                break
            out.append('BAD:' + text[pos:pos + 10].strip())
            break
        pos = m.end()
        if m.group('cg'):
            tok = 'c%d' % pa.hash_shape.get(m.group('cg'), 0)
        elif m.group('arrow'):
            tok = '->'
        elif m.group('num'):
            t = m.group('num')
            if depth > 0:
                tok = ('-n' if minus else 'n') + str(pa.lits(t))
                minus = False
            else:
                tok = '#' + t
        elif m.group('id'):
            t = m.group('id')
            if t in PKEYWORDS or t == 'q' or re.fullmatch(r'[qp]\d+', t):
                tok = t
            elif prev in ('creg', '->'):
                tok = 'r%d' % pa.cregs(t)
            else:
                tok = 's:' + back.get(t, t)
        else:
            t = m.group('sym')
            if t == '-':
                if depth == 0 or minus:
                    out.append('BAD:-')
                minus = True
                continue
            depth += (t == '(') - (t == ')')
            tok = {'[': '<', ']': '>'}.get(t, t)
        out.append(tok)
        prev = tok
    return out


def split_prog_tokens(toks):
    """(qreg statement, definition blocks, creg statements, operation tokens)"""
    head, rest = toks[:6], toks[6:]
    blocks, cregs = [], []
    i = 0
    while i < len(rest):
        if rest[i] == 'gate' and '}' in rest[i:]:
            j = rest.index('}', i)
            blocks.append(' '.join(rest[i:j + 1]))
            i = j + 1
        elif rest[i] == 'creg' and ';' in rest[i:]:
            j = rest.index(';', i)
            cregs.append(' '.join(rest[i:j + 1]))
            i = j + 1
        else:
            break
    return ' '.join(head), blocks, cregs, ' '.join(rest[i:])


def defs_before_use(blocks, ops) -> str | None:
    """every circuitgate used in a definition body / an operation line is defined by an EARLIER block"""
    seen = set()
    for b in blocks:
        t = b.split(' ')
        body = t[t.index('{') + 1:] if '{' in t else []
        for x in body:
            if re.fullmatch(r'c\d+', x) and x not in seen:
                return '%s used in the body of %s before its definition' % (x, t[1])
        seen.add(t[1])
    for x in ops.split(' '):
        if re.fullmatch(r'c\d+', x) and x not in seen:
            return '%s used by an operation but never defined' % x
    return None


def check_prog_model(ck: Checker, M: Model, circ, text, case):
    """queue the QProg correspondence for one real circuit and its encoder output"""
    ctx, I = ck.ctx, ck.I
    T = tables()
    from bqskit.ir.gates import CircuitGate
    pa = ProgAbs(I, T)
    try:
        ops = list(circ)
        cops = [pa.cop(op) for op in ops]
        gs = []
        for g in circ.gate_set:
            if isinstance(g, CircuitGate) or type(g).__name__ == 'MeasurementPlaceholder':
                rep = next((k for k, op in enumerate(ops) if op.gate is g), None)
                if rep is None:
                    rep = next((k for k, op in enumerate(ops) if hash(op.gate) == hash(g) and op.gate == g), None)
                if rep is None:
                    raise Unsupported('gate of gate_set not found among the operations')
                gs.append(cops[rep])
    except Unsupported as e:
        ctx.count('prog_model_unsupported')
        ctx.cov.setdefault('prog_model_unsupported_reasons', {})
        r = str(e)[:40]
        ctx.cov['prog_model_unsupported_reasons'][r] = ctx.cov['prog_model_unsupported_reasons'].get(r, 0) + 1
        return
    if pa.collision:
        ctx.count('prog_model_hash_collision')          # assumption nm injective violated: not comparable
        return
    names = _sl(pa.names[k] for k in sorted(pa.names))
    n = circ.num_qudits
    real = real_prog_tokens(pa, text)
    has_meas = any(c.startswith('[meas ') for c in cops)
    d = dict(case=case, pa=pa, real=real, n=n,
             qt=M.q('ptoks %s %d %s %s' % (names, n, _sl(gs), _sl(cops))),
             qok=M.q('pok %s %d %s %s' % (names, n, _sl(gs), _sl(cops))))
    if has_meas:
        # the encoder after fixes/C17-creg.patch (creg declared once); which one the implementation is, is decided per run
        d['qt_fixed'] = M.q('ptoksv 1 %s %d %s %s' % (names, n, _sl(gs), _sl(cops)))
    ctx.count('prog_model_tokens')
    if pa.circ_gates:
        ctx.count('prog_model_with_circuitgates')
    if not (pa.spellings & NO_DECODE_MODEL):
        try:
            vis = I.V.OPENQASMVisitor()
            vis.visit_topdown(I.P.parse(text))
            d['dec'] = pa.decoded(vis)
        except Unsupported:
            d['dec'] = None
        except Exception as e:  # noqa
            d['dec'] = exc_class(I, e)
            d['dec_err'] = type(e).__name__ + ': ' + str(e)[:100]
        if d['dec'] is not None:
            d['qr'] = M.q('prt %s 1 %s %d %s %s' % (names, _sl(I.bound), n, _sl(gs), _sl(cops)))
            if has_meas:
                d['qr_fixed'] = M.q('prtv 1 %s 1 %s %d %s %s' % (names, _sl(I.bound), n, _sl(gs), _sl(cops)))
            d['qe'] = M.q('pexpect %s' % _sl(cops))
            ctx.count('prog_model_decode')
    ck.pending.append(('prog', d))


def _model_prog_tokens(pa: ProgAbs, out: str):
    mt = []
    for t in out.split('_'):
        if re.fullmatch(r's\d+', t):
            t = 's:' + pa.sp_of_gid.get(int(t[1:]), '?')
        mt.append(t)
    return split_prog_tokens(mt)


def _prog_token_diff(real, model):
    rh, rb, rc, ro = real
    mh, mb, mc, mo = model
    if rh != mh:
        return ('register declaration', mh, rh)
    if set(rb) != set(mb):
        return ('gate definition blocks', sorted(set(mb) - set(rb))[:2], sorted(set(rb) - set(mb))[:2])
    if rc != mc:
        return ('creg declarations', mc, rc)
    if ro != mo:
        return ('operation statements', mo[:600], ro[:600])
    return None


def finish_prog(ck: Checker, M: Model, d):
    ctx, pa = ck.ctx, d['pa']
    real = split_prog_tokens(d['real'])
    bad = _prog_token_diff(real, _model_prog_tokens(pa, M.a(d['qt'])))
    variant = 'current'
    if 'qt_fixed' in d:
        bad_fixed = _prog_token_diff(real, _model_prog_tokens(pa, M.a(d['qt_fixed'])))
        if bad is None and bad_fixed is None:
            variant = 'both'
        elif bad is not None and bad_fixed is None:
            variant, bad = 'fixed', None
        ck.creg_votes[variant] += 1
    if bad:
        ctx.violation(dict(call='encode', kind='model-mismatch', part=bad[0]), d['case'], bad[1], bad[2],
                      'the text printed by Circuit.to(\'qasm\') differs token-wise from QProg.toks_prog (encode_with ...): ' + bad[0],
                      kind='correspondence', corr='coq/qasm/QProg.v encode_with/toks_prog vs qasm2.encode, get_qasm, get_qasm_gate_def')
    else:
        order = defs_before_use(real[1], real[3])
        if order:
            ctx.violation(dict(call='encode', symptom='definition-order'), d['case'], 'every circuitgate defined before it is used', order,
                          'the encoder prints a gate definition after its first use')
    ok = M.a(d['qok']) == 'T'
    ctx.count('prog_model_theorem_applies' if ok else 'prog_model_outside_theorem')
    if 'qr' in d:
        m = M.a(d['qr_fixed']) if (variant == 'fixed' and 'qr_fixed' in d) else M.a(d['qr'])
        if m != d['dec']:
            ctx.violation(dict(call='decode', kind='model-mismatch', part='program'), d['case'], m[:800], (d['dec'] or '')[:800] + ' ' + d.get('dec_err', ''),
                          'QProg.decode_prog on the printed statements and the visitor\'s op_list disagree',
                          kind='correspondence', corr='coq/qasm/QProg.v decode_prog vs OPENQASMVisitor (creg, gatedecl/gatep/rbracket, gate, barrier, measure, reset)')
        if ok and variant != 'fixed':
            # C17_program_roundtrip instantiated: the model's own decode equals `expect`
            if not m.endswith(' ' + M.a(d['qe']) + ']'):
                ctx.broken_obligation('C17_program_roundtrip: extracted decode_prog (encode_with gs c) differs from expect although circ_okb holds',
                                      (m[:300], M.a(d['qe'])[:300]))


def placeholder_timeline(circ_ops, n):
    """per qubit: what happens to it, in order (independent of the model)"""
    seqs = [[] for _ in range(n)]
    for op in circ_ops:
        g, kind = op.gate, type(op.gate).__name__
        for q in op.location:
            if kind == 'MeasurementPlaceholder':
                seqs[q].append(('measure', tuple(g.measurements.get(q, ('?', -1)))))
            elif kind == 'BarrierPlaceholder':
                seqs[q].append(('barrier', tuple(op.location)))
            elif kind == 'Reset':
                seqs[q].append(('reset',))
            else:
                seqs[q].append(('gate', g, tuple(op.location), tuple(float(x) for x in op.params)))
    return seqs


def check_placeholder_roundtrip(ck: Checker, M: Model, circ, key, label):
    """property oracle on the implementation: decode(encode(c)) succeeds and every qubit sees the same operations
    (gates with equal parameters, barriers, resets, measurements into the same classical bit) in the same order"""
    ctx, I = ck.ctx, ck.I
    ctx.case(key, nontrivial=circ.num_operations > 0)
    try:
        text = I.L.encode(circ)
    except Exception as e:  # noqa
        ctx.violation(dict(call='encode', symptom='raises', gate=label), dict(kind='placeholder-roundtrip', label=label), 'qasm text', repr(e)[:200],
                      'encoder raises on a circuit with barriers / measurements / resets')
        return
    case = dict(kind='placeholder-roundtrip', text=text[:3000], label=label)
    check_prog_model(ck, M, circ, text, case)
    try:
        back = I.L.decode(text)
    except Exception as e:  # noqa
        if 'Classical register redeclared' in str(e):
            ctx.violation(dict(call='roundtrip', symptom='creg-redeclared'), case, 'decodes', type(e).__name__ + ': ' + str(e)[:100],
                          'a circuit with two different MeasurementPlaceholders is printed with its classical register declared '
                          'twice; the decoder rejects the text')
        else:
            ctx.violation(dict(call='roundtrip', symptom='placeholder-rejected', gate=label), case, 'decodes', type(e).__name__ + ': ' + str(e)[:100],
                          'the decoder rejects the encoder\'s own output')
        return
    a, b = placeholder_timeline(list(circ), circ.num_qudits), placeholder_timeline(list(back), back.num_qudits)
    if back.num_qudits != circ.num_qudits:
        ctx.violation(dict(call='roundtrip', symptom='width-changed'), case, circ.num_qudits, back.num_qudits, 'number of qubits changed')
        return
    for q, (sa, sb) in enumerate(zip(a, b)):
        same = len(sa) == len(sb) and all(
            x[0] == y[0] and (x == y if x[0] != 'gate' else (x[2] == y[2] and ((x[1] == y[1] and x[3] == y[3]) or _same_unitary(I, x, y))))
            for x, y in zip(sa, sb))
        if not same:
            ctx.violation(dict(call='roundtrip', symptom='per-qubit-order-changed', gate=label), dict(case, qubit=q),
                          [repr(x)[:70] for x in sa], [repr(x)[:70] for x in sb],
                          'decode(encode(circuit)) changes what happens to a qubit (placeholders included)')
            return


def _same_unitary(I, x, y) -> bool:
    np = I.np
    try:
        return float(np.max(np.abs(np.array(x[1].get_unitary(list(x[3])).numpy) - np.array(y[1].get_unitary(list(y[3])).numpy)))) < 1e-9
    except Exception:  # noqa
        return False


def gen_placeholder_circuit(I: Impl, rng, pool, nest_pool):
    """random circuit over spelled library gates + small CircuitGates with barriers, resets and measurements;
    returns (circuit, label).  ~10 % have two different measurement gates (finding C17-creg)"""
    from bqskit.ir.gates import BarrierPlaceholder, MeasurementPlaceholder, Reset, CircuitGate
    from bqskit.ir.operation import Operation
    n = rng.randint(1, 4)
    c = I.Circuit(n)
    label = 'one-measure'
    for _ in range(rng.randint(1, 9)):
        r = rng.random()
        if r < 0.2:
            k = rng.randint(1, n)
            c.append(Operation(BarrierPlaceholder(k), rng.sample(range(n), k)))
        elif r < 0.32:
            c.append(Operation(Reset(), [rng.randrange(n)]))
        elif r < 0.45 and n >= 2:
            w = rng.randint(1, min(3, n))
            body = gen_nested_body(I, rng, nest_pool, w, rng.choice([0, 1, 1, 2]))
            c.append_gate(CircuitGate(body), rng.sample(range(n), w), body.params)
        else:
            g = rng.choice(pool)[0]
            if g.num_qudits <= n:
                c.append_gate(g, rng.sample(range(n), g.num_qudits), [round(rng.uniform(-4, 4), rng.choice([2, 6, 15])) for _ in range(g.num_params)])
    r = rng.random()
    if r < 0.75:
        qs = sorted(rng.sample(range(n), rng.randint(1, n)))
        cregs = [('c', n)] + ([('m', 2)] if rng.random() < 0.3 else [])
        if r < 0.10 and len(qs) >= 2:
            label = 'two-measures'
            for j, q in enumerate(qs[:2]):
                c.append(Operation(MeasurementPlaceholder(list(cregs), {q: ('c', j)}), [q]))
        else:
            ms = {q: (('m', j) if (len(cregs) == 2 and j < 2 and rng.random() < 0.3) else ('c', j)) for j, q in enumerate(qs)}
            c.append(Operation(MeasurementPlaceholder(list(cregs), ms), qs))
            if rng.random() < 0.15:
                label = 'same-measure-twice'
                c.append(Operation(MeasurementPlaceholder(list(cregs), dict(ms)), qs))
    else:
        label = 'no-measure'
    return c, label


def directed_placeholder(I: Impl):
    from bqskit.ir.gates import BarrierPlaceholder, MeasurementPlaceholder, Reset, HGate, CNOTGate, RZGate
    from bqskit.ir.operation import Operation
    out = []
    c = I.Circuit(3)
    c.append_gate(HGate(), 0); c.append_gate(CNOTGate(), (0, 2)); c.append(Operation(BarrierPlaceholder(3), [2, 0, 1]))
    c.append(Operation(Reset(), [1])); c.append_gate(RZGate(), 1, [-0.25])
    c.append(Operation(MeasurementPlaceholder([('c', 3)], {0: ('c', 0), 2: ('c', 1)}), [0, 2]))
    out.append((c, 'one-measure'))
    # what the decoder itself builds for `measure q[0] -> c[0]; measure q[1] -> c[1];`
    try:
        d = I.L.decode('OPENQASM 2.0;\ninclude "qelib1.inc";\nqreg q[2];\ncreg c[2];\nh q[0];\nmeasure q[0] -> c[0];\nmeasure q[1] -> c[1];\n')
        out.append((d, 'two-measures'))
        d = I.L.decode('OPENQASM 2.0;\ninclude "qelib1.inc";\nqreg q[2];\ncreg c[2];\nbarrier q[0], q[1];\nreset q[1];\nmeasure q -> c;\n')
        out.append((d, 'one-measure'))
    except Exception:  # noqa
        pass
    return out


# =============================================================================
# bqskit.ext translators: structural check (python ast, fail-closed) that each of the six
# functions is exactly  foreign object -> its own QASM dump -> OPENQASM2Language().decode
# resp.  OPENQASM2Language().encode -> the foreign QASM loader, with nothing else done
# to the circuit - so they inherit the encoder/decoder guarantees (the foreign
# dump/load functions themselves are exercised by the translator oracle, not modelled)
# =============================================================================
EXT_TRANSLATORS = {
    # module -> (to_bqskit fn, allowed dump calls, from_bqskit fn, allowed load calls)
    'qiskit': ('qiskit_to_bqskit', {'qasm2.dumps'}, 'bqskit_to_qiskit', {'QuantumCircuit.from_qasm_str'}),
    'cirq': ('cirq_to_bqskit', {'cirq.qasm'}, 'bqskit_to_cirq', {'circuit_from_qasm'}),
    'pytket': ('pytket_to_bqskit', {'circuit_to_qasm_str'}, 'bqskit_to_pytket', {'circuit_from_qasm_str'}),
}


def _dotted(n) -> str | None:
    if isinstance(n, ast.Name):
        return n.id
    if isinstance(n, ast.Attribute):
        b = _dotted(n.value)
        return None if b is None else b + '.' + n.attr
    return None


def _is_lang_call(n, method: str):
    """OPENQASM2Language().<method>(<one positional argument>) -> that argument, else None"""
    if (isinstance(n, ast.Call) and isinstance(n.func, ast.Attribute) and n.func.attr == method and not n.keywords
            and len(n.args) == 1 and isinstance(n.func.value, ast.Call) and _dotted(n.func.value.func) == 'OPENQASM2Language'
            and not n.func.value.args and not n.func.value.keywords):
        return n.args[0]
    return None


def _plain_statements(fn: ast.FunctionDef):
    """body without docstring and without `try: <imports> except ImportError: raise ImportError(...)`; None if a
    try block does anything else"""
    out = []
    for k, st in enumerate(fn.body):
        if k == 0 and isinstance(st, ast.Expr) and isinstance(st.value, ast.Constant) and isinstance(st.value.value, str):
            continue
        if isinstance(st, ast.Try):
            ok = (all(isinstance(x, (ast.Import, ast.ImportFrom)) for x in st.body) and not st.orelse and not st.finalbody
                  and all(_dotted(h.type) == 'ImportError' and len(h.body) == 1 and isinstance(h.body[0], ast.Raise) for h in st.handlers))
            if not ok:
                return None
            continue
        out.append(st)
    return out


def ext_translator_shape(src: str, to_fn: str, dumps: set, from_fn: str, loads: set) -> str | None:
    """None if both functions are pure QASM paths, else a description of the first deviation"""
    tree = ast.parse(src)
    fns = {n.name: n for n in tree.body if isinstance(n, ast.FunctionDef)}
    for name in (to_fn, from_fn):
        if name not in fns:
            return f'function {name} not found'
        if len(fns[name].args.args) != 1 or fns[name].args.vararg or fns[name].args.kwarg or fns[name].args.kwonlyargs or fns[name].decorator_list:
            return f'{name}: unexpected signature / decorators'
    imp = [n for n in tree.body if isinstance(n, ast.ImportFrom) and n.module == 'bqskit.ir.lang.qasm2'
           and any(a.name == 'OPENQASM2Language' and a.asname is None for a in n.names)]
    if not imp:
        return 'OPENQASM2Language is not imported from bqskit.ir.lang.qasm2'
    if any(isinstance(n, (ast.Assign, ast.AugAssign, ast.AnnAssign)) and 'OPENQASM2Language' in ast.dump(n) for n in tree.body):
        return 'OPENQASM2Language is rebound at module level'
    # foreign -> bqskit
    f = fns[to_fn]
    arg = f.args.args[0].arg
    body = _plain_statements(f)
    if body is None:
        return f'{to_fn}: a try block does more than importing'
    if len(body) == 2 and isinstance(body[0], ast.Assign) and len(body[0].targets) == 1 and isinstance(body[0].targets[0], ast.Name) \
            and isinstance(body[1], ast.Return) and isinstance(body[1].value, ast.Name) and body[1].value.id == body[0].targets[0].id:
        val = body[0].value
    elif len(body) == 1 and isinstance(body[0], ast.Return):
        val = body[0].value
    else:
        return f'{to_fn}: body is not `circuit = OPENQASM2Language().decode(...)`; `return circuit` ({len(body)} statements)'
    inner = _is_lang_call(val, 'decode')
    if inner is None:
        return f'{to_fn}: the result is not OPENQASM2Language().decode(...)'
    if not (isinstance(inner, ast.Call) and _dotted(inner.func) in dumps and not inner.keywords and len(inner.args) == 1
            and isinstance(inner.args[0], ast.Name) and inner.args[0].id == arg):
        return f'{to_fn}: the decoded text is not {sorted(dumps)}({arg})'
    # bqskit -> foreign
    f = fns[from_fn]
    arg = f.args.args[0].arg
    body = _plain_statements(f)
    if body is None:
        return f'{from_fn}: a try block does more than importing'
    if not (len(body) == 1 and isinstance(body[0], ast.Return)):
        return f'{from_fn}: body is not a single return ({len(body)} statements)'
    val = body[0].value
    if not (isinstance(val, ast.Call) and _dotted(val.func) in loads and not val.keywords and len(val.args) == 1):
        return f'{from_fn}: the result is not {sorted(loads)}(...)'
    inner = _is_lang_call(val.args[0], 'encode')
    if not (isinstance(inner, ast.Name) and inner.id == arg):
        return f'{from_fn}: the loaded text is not OPENQASM2Language().encode({arg})'
    return None


def check_ext_translators_ast(ctx: vf.Ctx, I: Impl):
    import bqskit
    root = Path(bqskit.__file__).resolve().parent / 'ext'
    res = {}
    for mod, (to_fn, dumps, from_fn, loads) in EXT_TRANSLATORS.items():
        f = root / mod / 'translate.py'
        try:
            why = ext_translator_shape(f.read_text(), to_fn, dumps, from_fn, loads)
        except Exception as e:  # noqa
            why = 'cannot be analysed: ' + repr(e)[:100]
        res[mod] = 'qasm-path-only' if why is None else why
        if why is not None:
            ctx.broken_obligation(f'bqskit/ext/{mod}/translate.py is no longer a pure OpenQASM path (the translators then do not '
                                  'inherit the C17 guarantees; extend the translator oracle)', why)
    ctx.cov['ext_translators_structure'] = res

# =============================================================================
# run
# =============================================================================
def gen_nested_body(I: Impl, rng, pool, width: int, depth: int):
    """a circuit (to be wrapped as a CircuitGate): parameterised gates with distinct random values BEFORE and
    AFTER nested CircuitGates (nesting to `depth`), a nested gate possibly used twice with different values"""
    from bqskit.ir.gates import CircuitGate
    par = [p for p in pool if p[0].num_qudits <= width and p[0].num_params > 0]
    anyg = [p for p in pool if p[0].num_qudits <= width]
    c = I.Circuit(width)

    def plain(k):
        for _ in range(k):
            g = rng.choice(par if (par and rng.random() < 0.7) else anyg)[0]
            c.append_gate(g, rng.sample(range(width), g.num_qudits), [round(rng.uniform(-3, 3), 3) for _ in range(g.num_params)])
    plain(rng.randint(1, 2))
    if depth > 0:
        for _ in range(rng.randint(1, 2)):
            w = rng.randint(1, width)
            inner = gen_nested_body(I, rng, pool, w, depth - 1)
            cg = CircuitGate(inner)
            c.append_gate(cg, rng.sample(range(width), w), inner.params)
            if rng.random() < 0.5:
                plain(1)
            if cg.num_params > 0 and rng.random() < 0.5:
                # the same CircuitGate again, other location, other parameter values
                c.append_gate(cg, rng.sample(range(width), w), [round(rng.uniform(-3, 3), 3) for _ in range(cg.num_params)])
    plain(rng.randint(1, 2))
    return c


def circuit_gates_of(circ, acc=None):
    """every CircuitGate occurring in circ, at any depth"""
    from bqskit.ir.gates import CircuitGate
    acc = [] if acc is None else acc
    for op in circ:
        if isinstance(op.gate, CircuitGate):
            if not any(op.gate is g for g in acc):
                acc.append(op.gate)
                circuit_gates_of(op.gate._circuit, acc)
    return acc


def check_gate_defs(ck: Checker, M2: Model, circ, text: str, case):
    """correspondence for CircuitGate.get_qasm_gate_def: the formal parameters printed on every body line of
    every `gate circuitgate_<id> (...) ... { ... }` block vs QEnc.body_formals"""
    from bqskit.ir.gates import CircuitGate
    ctx = ck.ctx
    for cg in circuit_gates_of(circ):
        name = 'circuitgate_%d' % abs(hash(cg))
        m = re.search(r'gate ' + name + r' (?:\(([^)]*)\) )?q[^{]*\{\n((?:\t[^\n]*\n)*)\}', text)
        if not m:
            ctx.broken_obligation('definition block of a CircuitGate not found in the encoder output', name)
            continue
        header = [int(x.strip()[1:]) for x in m.group(1).split(',')] if m.group(1) else []
        lines = [ln for ln in m.group(2).split('\n') if ln.strip()]
        printed = []
        for ln in lines:
            mm = re.match(r'\t[\w()/.]+?(?:\(([^)]*)\))? q', ln)
            args = mm.group(1) if mm else None
            printed.append([int(x.strip()[1:]) for x in args.split(',')] if args and re.fullmatch(r'\s*p\d+(\s*,\s*p\d+)*\s*', args) else [])
        ops = [(isinstance(op.gate, CircuitGate), op.num_params) for op in cg._circuit]
        q = 'formals [' + ' '.join('[%d %d]' % (1 if b else 0, n) for b, n in ops) + ']'
        ck.pending.append(('formals', dict(case=case, qi=M2.q(q), name=name,
                                           impl='[' + ' '.join(fmt_ints(x) for x in printed) + ']',
                                           header=header, nparams=cg.num_params)))
        ctx.count('gate_def_blocks')


def unfolded_ops(I: Impl, circ):
    c = circ.copy()
    c.unfold_all()
    return ops_per_qubit(c)


def enum_sem(depth: int, leaves, binops, unops):
    """all semantic trees of the given depth bound over a small alphabet"""
    if depth == 0:
        return list(leaves)
    sub = enum_sem(depth - 1, leaves, binops, unops)
    out = list(sub)
    for a in sub:
        for u in unops:
            out.append((u, a) if u in ('neg', 'paren') else ('fn', u, a))
        for b in sub:
            for o in binops:
                out.append((o, a, b))
    seen, res = set(), []
    for t in out:
        if t not in seen:
            seen.add(t)
            res.append(t)
    return res


def directed_nested(I: Impl):
    """round-trip circuits with parameterised CircuitGates nested inside CircuitGates, followed in the same body by
    parameterised operations with other values (the parameter-offset bookkeeping of get_qasm_gate_def)"""
    from bqskit.ir.gates import U3Gate, CNOTGate, RZGate, RXGate, CircuitGate
    C = I.Circuit
    i1 = C(2); i1.append_gate(U3Gate(), 0, [0.11, 0.22, 0.33]); i1.append_gate(CNOTGate(), (0, 1)); i1.append_gate(RZGate(), 1, [0.44])
    i2 = C(2); i2.append_gate(U3Gate(), 1, [1.5, -0.7, 2.9]); i2.append_gate(CNOTGate(), (1, 0)); i2.append_gate(RZGate(), 0, [-1.3])
    mid = C(3); mid.append_gate(RXGate(), 1, [0.05]); mid.append_circuit(i1, (0, 1), True); mid.append_circuit(i2, (1, 2), True)
    mid.append_gate(U3Gate(), 2, [0.9, 1.9, 2.8])
    a = C(3); a.append_gate(U3Gate(), 0, [0.5, 0.6, 0.7]); a.append_circuit(mid, (0, 1, 2), True); a.append_gate(CNOTGate(), (0, 2))
    # depth 3, the same CircuitGate twice with different parameter values
    top = C(3); top.append_gate(RZGate(), 0, [2.2]); top.append_circuit(mid, (2, 0, 1), True); top.append_gate(RXGate(), 2, [-0.6])
    b = C(3)
    g = CircuitGate(top)
    b.append_gate(g, (0, 1, 2), top.params)
    b.append_gate(g, (1, 2, 0), [0.1 * (k + 1) for k in range(g.num_params)])
    return [a, b]


def directed_expressions():
    """semantic trees for the witnesses of the theorems / design findings"""
    n = lambda s: ('num', s)  # noqa
    return [
        ('mul', ('add', n('1'), n('2')), n('3')),                      # (1+2)*3
        ('neg', ('add', n('1'), n('2'))),                              # -(1+2)
        ('mul', n('2'), ('pow', ('add', n('3'), n('4')), n('2'))),     # 2*(3+4)^2
        ('sub', n('1'), ('sub', n('2'), n('3'))),                      # 1-(2-3)
        ('div', n('2'), ('mul', n('3'), n('4'))),                      # 2/(3*4)
        ('pow', ('neg', n('8')), n('2')),                              # (-8)^2
        ('add', ('neg', n('1')), n('2')),                              # -1+2   (greedy usub)
        ('add', ('mul', n('2'), ('neg', n('3'))), n('4')),             # 2*-3+4
        ('add', ('mul', ('pow', n('2'), ('neg', n('3'))), n('5')), n('4')),   # 2^-3*5+4
        ('neg', ('pow', n('2'), n('2'))),                              # -2^2
        ('pow', n('2'), ('pow', n('3'), n('2'))),                      # 2^3^2
        ('neg', ('neg', n('1'))),
        ('fn', 'sqrt', n('2')), ('fn', 'exp', n('1')), ('fn', 'ln', n('2')),
        ('add', ('fn', 'sin', ('div', ('pi',), n('2'))), ('mul', ('fn', 'cos', n('2')), ('fn', 'tan', n('0.5')))),
        ('div', ('div', n('1'), n('3')), n('4')),
        ('div', ('neg', ('pi',)), n('2')),
        ('num', '1e-2'), ('num', '.5'), ('num', '3.'), ('num', '6.02e2'),
    ]


DIRECTED_PROGRAMS = [
    # (label, text)  - register walks with the defects of the design notes; all are valid OpenQASM 2
    ('idlist2', 'OPENQASM 2.0;\ninclude "qelib1.inc";\nqreg q[2];\nqreg r[3];\nh q[0];\nbarrier q, r;\ncx q[1], r[2];\n'),
    ('idlist3', 'OPENQASM 2.0;\ninclude "qelib1.inc";\nqreg q[1];\nqreg r[1];\nqreg s[2];\nbarrier r, s, q;\nx s[1];\n'),
    ('reset-second', 'OPENQASM 2.0;\ninclude "qelib1.inc";\nqreg q[2];\nqreg r[3];\nh r[0];\nreset r;\n'),
    ('reset-first', 'OPENQASM 2.0;\ninclude "qelib1.inc";\nqreg q[2];\nqreg r[3];\nh r[0];\nreset q;\nreset r[2];\n'),
    ('measure-second', 'OPENQASM 2.0;\ninclude "qelib1.inc";\nqreg q[2];\nqreg r[3];\ncreg c[3];\nh r[1];\nmeasure r[1] -> c[0];\n'),
    ('measure-all', 'OPENQASM 2.0;\ninclude "qelib1.inc";\nqreg q[2];\nqreg r[3];\ncreg c[3];\nh r[1];\nmeasure r -> c;\nmeasure q[1] -> c[2];\n'),
    ('neg-actual-pow', 'OPENQASM 2.0;\ninclude "qelib1.inc";\nqreg q[1];\ngate g(a) x { rx(a^2) x; }\ng(-0.5) q[0];\n'),
    ('nested-gates', 'OPENQASM 2.0;\ninclude "qelib1.inc";\nqreg q[2];\nqreg r[1];\n'
                     'gate g(a,b) x,y { rx(a) x; ry(b*2) y; CX x,y; U(a,b,a+b) y; }\n'
                     'gate k(t) v,w { g(t/2, -t) w, v; rz(t) v; }\nk(1.5) r[0], q[1];\nk(-pi/3) q[0], q[1];\n'),
    ('nested-same-arity', 'OPENQASM 2.0;\ninclude "qelib1.inc";\nqreg q[2];\ngate g(a) x { rx(a) x; }\n'
                          'gate k(t) y { g(2*t+1) y; }\ngate m(s) y, z { k(-s) z; g(s/3) y; cx y, z; }\nm(0.4) q[1], q[0];\n'),
    ('dup-formal-index', 'OPENQASM 2.0;\ninclude "qelib1.inc";\nqreg q[1];\ngate g(a,b,c) x { u3(c,a,b) x; rz(b-a) x; }\ng(0.1,0.2,0.3) q[0];\n'),
]


def run(ctx: vf.Ctx):
    ctx.uses_translators = BUILD['translators']
    ctx.build(**BUILD)
    I = Impl()
    try:
        T = tables()
    except Exception as e:  # noqa
        ctx.broken_obligation('translator gen_qasm_table cannot collect the live tables', repr(e))
        T = None
    ck = Checker(ctx, I)
    rng = ctx.rng
    ctx.rule = ('expressions: random semantic trees (depth<=4: + - * / unary minus ^ pi literals incl. scientific notation, '
                'sin cos tan exp ln sqrt, redundant parentheses) printed with minimal parentheses and random blanks, parsed by '
                'the real Lark parser; programs: 1-3 qregs (+creg), 0-3 nested user gates with formals in expressions, '
                'qelib1 gates on random qubits of all registers, U/CX, barriers (all list forms), final measurements, resets; '
                'round trips: random circuits over every library gate with a QASM spelling.  non-trivial = expression with '
                'unary minus / power / function / value-changing parentheses, program with >=1 operation; distinct by text')
    ctx.assumptions += [
        'arithmetic exceptions of python floats (division by zero, overflow, complex powers) are not modelled; the generator rejects such expressions',
        'str(float) of a finite float is an optional "-" followed by a literal the grammar/REAL accepts, and reads back as the same float',
        'Lark LALR resolves the usub/binary-operator conflict by shifting (lark_ok is checked on every real tree)',
        'character-level lexing of program text is Lark\'s; the model starts from parse trees / statement records',
        'Qiskit qasm2.loads (with LEGACY_CUSTOM_INSTRUCTIONS = Qiskit\'s extended qelib1.inc) is the reference semantics; global phase and bit order are quotiented',
    ]
    ctx.trusted = ['Coq 8.16.1 kernel + vm_compute', 'ExtrOcamlBasic extraction, OCaml 4.13.1, coq/extract/qasm_driver.ml',
                   'harness/props/c17.py (tree encoders, generator/printer of expressions, float oracle)',
                   'python ast.parse as the definition of python\'s expression grammar', 'qiskit 2.5 qasm2 loader + Operator',
                   'numpy']
    ctx.cov['unsupported_constructs_skipped'] = UNSUPPORTED
    ctx.cov['impl_bound_functions'] = I.bound
    ctx.cov['impl_function_terminals'] = I.fn_text
    if T is not None:
        ctx.cov['library_gates'] = len(T['lib'])
        ctx.cov['not_default_constructible'] = T['not_constructible']

    import time as _t
    phase = {}
    t0 = _t.time()

    def lap(name):
        nonlocal t0
        phase[name] = round(_t.time() - t0, 1)
        t0 = _t.time()
    ctx.cov['phase_s'] = phase
    M = Model()
    # ---- corpus ---------------------------------------------------------------
    cdir = vf.ROOT / 'corpus' / 'C17'
    corpus = []
    if cdir.exists():
        import json
        for f in sorted(cdir.glob('*.json')):
            corpus.append(json.loads(f.read_text()))
    for c in corpus:
        ctx.count('corpus')
        run_case(ck, M, c, ('corpus', c.get('name', '')))

    # ---- expressions ------------------------------------------------------------
    for sem in directed_expressions():
        try:
            v = fval(sem)
        except Reject:
            continue
        text = pr(sem, 1, rng, sp=False)
        ck.expression(M, text, sem, v, ('expr', text))
        ctx.count('expr_directed')
    # exhaustive: every tree of depth <= 2 over a small alphabet (quick: 2 leaves, 4 binary operators)
    if ctx.quick():
        small = enum_sem(2, [('num', '2'), ('pi',)], ['add', 'sub', 'mul', 'pow'], ['neg'])
    else:
        small = enum_sem(2, [('num', '2'), ('num', '0.5'), ('pi',)], ['add', 'sub', 'mul', 'div', 'pow'], ['neg', 'paren', 'sin'])
    seen = set()
    import random as _r
    for sem in small:
        try:
            v = fval(sem)
        except (Reject, OverflowError, ValueError, ZeroDivisionError):
            continue
        if isinstance(v, complex):
            continue
        text = pr(sem, 1, _r.Random(0), sp=False)
        if text in seen:
            continue
        seen.add(text)
        ck.expression(M, text, sem, v, ('expr', text))
        ctx.count('expr_exhaustive_depth2')
    ctx.cov['exhaustive_alphabet'] = 'depth<=2; quick: leaves {2, pi}, + - * ^, unary minus; thorough: leaves {2, 0.5, pi}, + - * / ^, unary minus, redundant parentheses, sin'
    nexp = ctx.n(3000, 60000) + len(seen)
    i = -1
    while len(seen) < nexp:
        i += 1
        sem, v = draw_exp(rng, rng.choice([2, 2, 3, 3, 4, 4]))
        text = pr(sem, 1, rng)
        if text in seen:
            ctx.count('expr_duplicate')
            continue
        seen.add(text)
        ck.expression(M, text, sem, v, ('expr', text))
        ctx.count('expr_depth<=%d' % min(4, _depth(sem)))
        if i < 3:
            ctx.sample(dict(expression=text, value=v))
    lap('expressions')
    # ---- programs -----------------------------------------------------------------
    for label, text in DIRECTED_PROGRAMS:
        check_program(ck, M, text, dict(has_reset='reset' in text), ('prog', text))
        ctx.count('program_directed')
    nprog = ctx.n(300, 8000)
    # functions the implementation can evaluate; the others (D5: exp, sqrt before the repair) make the whole
    # program fail to decode, so they are used in 8 % of the programs only
    usable = [f for f in FN_STD if f in I.bound and I.fn_text[f] == f]
    ctx.cov['usable_functions'] = usable
    for i in range(nprog):
        with_reset = rng.random() < 0.12
        text, meta = gen_program(rng, FN_STD if rng.random() < 0.08 else usable, with_reset=with_reset)
        check_program(ck, M, text, meta, ('prog', text))
        ctx.count('program_random')
        if i < 2:
            ctx.sample(dict(program=text))
    # parenthesis-free programs: must agree with Qiskit even on the unrepaired tree (C17_exp_faithful_current_partial)
    for i in range(ctx.n(60, 1500)):
        text, meta = gen_program(rng, usable, paren_free=True)
        check_program(ck, M, text, meta, ('prog', text))
        ctx.count('program_paren_free')

    lap('programs')
    # ---- model answers ----------------------------------------------------------------
    try:
        M.run()
        finish_pending(ck, M)
    except Exception as e:  # noqa
        import traceback
        ctx.broken_obligation('correspondence run of the extracted model failed', traceback.format_exc())
    ctx.cov['model_queries'] = len(M.lines)
    ctx.cov['flatten_version_votes'] = ck.version_votes
    v = ck.version_votes
    impl_version = 'fixed' if v['fixed'] and not v['current'] else 'current' if v['current'] and not v['fixed'] else \
        'undetermined' if not v['fixed'] and not v['current'] else 'inconsistent'
    ctx.cov['implementation_flatten_version'] = impl_version
    if impl_version == 'inconsistent':
        ctx.broken_obligation('the implementation matches QExp.flatten on some trees and QExp.flatten_fixed on others', str(v))
    ctx.cov['regs_version_votes'] = ck.regs_votes
    ctx.cov['implementation_regs_version'] = {}
    for site, rv in ck.regs_votes.items():
        ver = 'inconsistent' if (rv['current'] and rv['repaired']) else 'repaired' if rv['repaired'] else 'current' if rv['current'] else 'undetermined'
        ctx.cov['implementation_regs_version'][site] = ver
        if ver == 'inconsistent':
            ctx.broken_obligation(f'register walk `{site}`: the implementation follows the QRegs model of the current code on some '
                                  'inputs and the specification on others', str(rv))

    lap('model')
    # ---- (i) round trips ------------------------------------------------------------------
    if T is not None:
        pool = rt_gate_pool(I, T)
        # every library gate alone (this is where D13 shows)
        for g, cls, sp in pool:
            c = I.Circuit(max(g.num_qudits, 1) + (1 if g.num_qudits < 5 else 0))
            loc = list(range(g.num_qudits))
            if g.num_qudits >= 2:
                loc = loc[1:] + loc[:1]
            c.append_gate(g, loc, [0.37 * (k + 1) for k in range(g.num_params)])
            check_roundtrip(ck, c, ('rt1', cls), label=sp)
            ctx.count('roundtrip_single_gate')
        from bqskit.ir.gates import IdentityGate, CircuitGate, U1qPiGate, U1qPi2Gate
        d13 = {'diag', 'st', 'pxz'}
        good = [p for p in pool if p[2] not in d13] + [(U1qPiGate, 'U1qPiGate', 'U1q'), (U1qPi2Gate, 'U1qPi2Gate', 'U1q'),
                                                       (IdentityGate(2), 'IdentityGate(2)', 'identity2')]
        nest_pool = [p for p in good if p[0].num_qudits <= 3 and not p[1].startswith(('U1qPi', 'Identity'))
                     and p[2] not in ('rxx(pi/2)', 'ryy(pi/2)', 'rzz(pi/2)')]
        M2 = Model()
        # directed: the shape of seeded/C17-A (nested parameterised CircuitGates followed by parameterised gates)
        for c in directed_nested(I):
            t = check_roundtrip(ck, c, ('rt-nested', repr(_ops_repr(c))))
            if t:
                check_gate_defs(ck, M2, c, t, dict(kind='roundtrip', text=t[:3000], ops=_ops_repr(c), n=c.num_qudits))
                check_prog_model(ck, M2, c, t, dict(kind='roundtrip', text=t[:3000], ops=_ops_repr(c), n=c.num_qudits))
            ctx.count('roundtrip_nested_directed')
        for i in range(ctx.n(250, 6000)):
            n = rng.randint(1, 5)
            c = gen_rt_circuit(I, rng, good, n, rng.randint(1, 12))
            if rng.random() < 0.15 and c.num_operations >= 2 and n >= 2:
                # wrap a sub-circuit as a (possibly nested) CircuitGate
                inner = gen_rt_circuit(I, rng, [p for p in good if p[0].num_qudits <= 2 and not p[1].startswith('U1qPi')], 2, rng.randint(1, 4))
                if rng.random() < 0.4:
                    outer = I.Circuit(2)
                    outer.append_gate(CircuitGate(inner), [1, 0], inner.params)
                    outer.append_gate(good[0][0], [0, 1][:good[0][0].num_qudits]) if good[0][0].num_qudits <= 2 and good[0][0].num_params == 0 else None
                    inner = outer
                c.append_gate(CircuitGate(inner), rng.sample(range(n), 2), inner.params)
            if rng.random() < 0.30 and n >= 2:
                # CircuitGates nested to depth 2-3, parameterised gates before and after the nested blocks
                w = rng.randint(1, min(3, n))
                body = gen_nested_body(I, rng, nest_pool, w, rng.choice([2, 2, 3]))
                c.append_gate(CircuitGate(body), rng.sample(range(n), w), body.params)
                if rng.random() < 0.5:
                    c.append_gate(CircuitGate(body), rng.sample(range(n), w), [round(rng.uniform(-3, 3), 3) for _ in body.params])
                ctx.count('roundtrip_nested_depth>=2')
            t = check_roundtrip(ck, c, ('rt', i, repr(_ops_repr(c))))
            if t and circuit_gates_of(c):
                check_gate_defs(ck, M2, c, t, dict(kind='roundtrip', text=t[:3000], ops=_ops_repr(c), n=c.num_qudits))
            if t:
                check_prog_model(ck, M2, c, t, dict(kind='roundtrip', text=t[:3000], ops=_ops_repr(c), n=c.num_qudits))
            ctx.count('roundtrip_random')
            if i == 0 and t:
                ctx.sample(dict(roundtrip_text=t[:400]))

        inner = I.Circuit(1)
        inner.append_gate(U1qPiGate, 0, [0.3])
        c = I.Circuit(1)
        c.append_gate(CircuitGate(inner), 0, [0.3])
        check_roundtrip(ck, c, ('rt-frozen-in-circuitgate',), label='U1q')

        # circuits with barriers / resets / measurements: implementation oracle + QProg correspondence
        for k, (c, label) in enumerate(directed_placeholder(I)):
            check_placeholder_roundtrip(ck, M2, c, ('rt-ph-directed', k), label)
            ctx.count('placeholder_directed')
        for i in range(ctx.n(110, 4000)):
            c, label = gen_placeholder_circuit(I, rng, [p for p in good if not p[1].startswith(('U1qPi', 'Identity'))], nest_pool)
            check_placeholder_roundtrip(ck, M2, c, ('rt-ph', i, c.num_qudits, c.num_operations, label), label)
            ctx.count('placeholder_' + label)

        try:
            M2.run()
            finish_pending(ck, M2)
        except Exception:  # noqa
            import traceback
            ctx.broken_obligation('correspondence run of the extracted model failed (gate definitions)', traceback.format_exc())
        cv = ck.creg_votes
        ctx.cov['encoder_creg_votes'] = cv
        ctx.cov['implementation_encoder_creg_version'] = 'inconsistent' if (cv['current'] and cv['fixed']) else \
            'fixed' if cv['fixed'] else 'current' if cv['current'] else 'undetermined'
        if cv['current'] and cv['fixed']:
            ctx.broken_obligation('the encoder matches QProg.encode_with on some circuits and encode_with_fixed on others', str(cv))
    lap('roundtrips')
    # ---- directed: u0 ------------------------------------------------------------------------
    u0 = 'OPENQASM 2.0;\ninclude "qelib1.inc";\nqreg q[1];\nu0(1) q[0];\n'
    try:
        I.L.decode(u0)
    except Exception as e:  # noqa
        ctx.violation(dict(call='decode', symptom='qelib1-arity', gate='u0'), dict(kind='program', text=u0), 'decodes (qelib1.inc: gate u0(gamma) q)',
                      type(e).__name__ + ': ' + str(e)[:100], 'qelib1 gate u0 takes one parameter; the table registers it with none')
    ctx.case(('prog', u0))

    # ---- (iii) translators ---------------------------------------------------------------------
    check_ext_translators_ast(ctx, I)
    check_translators(ck, ctx.n(25, 600))
    lap('translators')


def _depth(n) -> int:
    return 1 + max([_depth(c) for c in n[1:] if isinstance(c, tuple)] or [0])


def check_translators(ck: Checker, count: int):
    ctx, I = ck.ctx, ck.I
    np = I.np
    import bqskit.ir.gates as G
    rng = ctx.rng
    basic = [G.HGate(), G.XGate(), G.YGate(), G.ZGate(), G.SGate(), G.SdgGate(), G.TGate(), G.TdgGate(), G.RXGate(), G.RYGate(),
             G.RZGate(), G.CNOTGate(), G.CZGate(), G.SwapGate(), G.U3Gate(), G.U2Gate(), G.U1Gate(), G.CCXGate(), G.CHGate(),
             G.CYGate(), G.CRZGate()]
    pool = [(g, type(g).__name__, g.qasm_name) for g in basic]
    # Cirq prints angles with 10 decimals and KAK-decomposes gates it has no QASM name for; near-identity
    # gates then lose ~sqrt(1e-10) accuracy inside Cirq.  Its pool is restricted to gates it prints natively.
    native = {'h', 'x', 'y', 'z', 's', 'sdg', 't', 'tdg', 'rx', 'ry', 'rz', 'cx', 'cz', 'swap', 'ccx'}
    cirq_pool = [p for p in pool if p[2] in native]
    try:
        from bqskit.ext import bqskit_to_qiskit, qiskit_to_bqskit, bqskit_to_cirq, cirq_to_bqskit, bqskit_to_pytket, pytket_to_bqskit
        from qiskit.quantum_info import Operator
        import cirq  # noqa
        import pytket  # noqa
    except Exception as e:  # noqa
        ctx.cov['translators'] = 'not importable: ' + repr(e)[:100]
        return
    ctx.cov['translator_gate_set'] = sorted(p[2] for p in pool)
    for i in range(count):
        n = rng.randint(1, 4)
        for name, fwd, back, uni, tol in translator_table(np, n):
            c = I.Circuit(n)
            for _ in range(rng.randint(1, 8)):
                g = rng.choice(cirq_pool if name == 'cirq' else pool)[0]
                if g.num_qudits <= n:
                    c.append_gate(g, rng.sample(range(n), g.num_qudits), [rng.uniform(-3, 3) for _ in range(g.num_params)])
            if c.num_operations == 0:
                continue
            U = np.array(c.get_unitary().numpy)
            case = dict(kind='translator', ops=_ops_repr(c), n=n)
            ctx.case(('tr', name, i, repr(case)), nontrivial=True)
            compare_translator(ck, name, fwd, back, uni, tol, c, U, case, n)


def translator_table(np, n):
    from bqskit.ext import bqskit_to_qiskit, qiskit_to_bqskit, bqskit_to_cirq, cirq_to_bqskit, bqskit_to_pytket, pytket_to_bqskit
    from qiskit.quantum_info import Operator
    return (
        ('qiskit', bqskit_to_qiskit, qiskit_to_bqskit, lambda x: np.array(Operator(x.reverse_bits()).data), 1e-9),
        ('cirq', bqskit_to_cirq, cirq_to_bqskit, lambda x: x.unitary(qubit_order=sorted(x.all_qubits())) if len(x.all_qubits()) == n else None, 1e-7),
        ('pytket', bqskit_to_pytket, pytket_to_bqskit, lambda x: np.array(x.get_unitary()), 1e-9),
    )


def compare_translator(ck, name, fwd, back, uni, tol, c, U, case, n):
    ctx, np = ck.ctx, ck.I.np
    try:
        ext = fwd(c)
        W = uni(ext)
        c2 = back(ext)
    except Exception as e:  # noqa
        ctx.violation(dict(call='ext.' + name, symptom='raises'), case, 'translates', repr(e)[:200],
                      f'bqskit.ext {name} translator raises on a small circuit over standard gates')
        return
    ctx.count('translator_' + name)
    if W is not None:
        d = phase_dist(np, U, W)
        if d > tol:
            ctx.violation(dict(call='ext.' + name, symptom='unitary-differs'), case, 'same unitary up to phase', f'{d:.3e}',
                          f'bqskit_to_{name} changes the unitary')
    if c2.num_qudits == n:
        d = phase_dist(np, U, np.array(c2.get_unitary().numpy))
        if d > max(tol, 1e-7):
            ctx.violation(dict(call='ext.' + name, symptom='roundtrip-differs'), case, 'same unitary up to phase', f'{d:.3e}',
                          f'{name}_to_bqskit(bqskit_to_{name}(c)) changes the unitary')
    else:
        ctx.count('translator_%s_dropped_idle_qubits' % name)


def replay_translators(ck: Checker, circ, case):
    np = ck.I.np
    n = circ.num_qudits
    U = np.array(circ.get_unitary().numpy)
    ck.ctx.case(('replay-tr', repr(case)))
    for name, fwd, back, uni, tol in translator_table(np, n):
        compare_translator(ck, name, fwd, back, uni, tol, circ, U, dict(case, translator=name), n)


def run_case(ck: Checker, M: Model, c: dict, key):
    """re-run one stored case (corpus / replay)"""
    kind = c.get('kind')
    if kind == 'expr':
        sem = tuple_of(c['sem']) if 'sem' in c else None
        if sem is None:
            # no semantic tree stored: use Qiskit as the reference value
            from qiskit import qasm2
            qc = qasm2.loads('OPENQASM 2.0;\ninclude "qelib1.inc";\nqreg q[1];\nrz(%s) q[0];' % c['text'])
            v = float(qc.data[0].operation.params[0])
            sem = sem_of_text_via_model_unavailable = None  # noqa
            ck.ctx.case(key)
            try:
                got = float(ck.I.V.eval_exp(ck.I.parse_exp(c['text'])))
                obs = got
            except Exception as e:  # noqa
                got, obs = None, 'raised ' + type(e).__name__
            if got is None or not close(got, v):
                m = re.search(r'\b(exp|sqrt)\(', c['text'])
                if m and isinstance(obs, str):
                    ck.ctx.violation(dict(call='eval_exp', symptom='function-unavailable', fn=m.group(1)), c, v, obs,
                                     f'expression function {m.group(1)}() cannot be used')
                else:
                    ck.ctx.violation(dict(call='eval_exp', symptom='parentheses-dropped' if '(' in c['text'] else 'wrong-value'), c, v, obs,
                                     'parameter expression evaluates to a different value than Qiskit assigns to the text')
            return
        ck.expression(M, c['text'], sem, fval(sem), key)
    elif kind == 'program':
        check_program(ck, M, c['text'], dict(has_reset='reset' in c['text']), key)
    elif kind == 'placeholder-roundtrip':
        ck.ctx.case(key)
        try:
            circ = ck.I.L.decode(c['text'])
        except Exception as e:  # noqa
            sym = 'creg-redeclared' if 'Classical register redeclared' in str(e) else 'placeholder-rejected'
            ck.ctx.violation(dict(call='roundtrip', symptom=sym), c, 'decodes', type(e).__name__ + ': ' + str(e)[:100],
                             'the decoder rejects the encoder\'s own output' + (' (classical register declared once per measurement gate)' if sym == 'creg-redeclared' else ''))
            return
        check_placeholder_roundtrip(ck, M, circ, ('replay-ph', c.get('label', '')), c.get('label'))
    elif kind == 'translator':
        circ = rebuild(ck.I, c)
        if circ is not None:
            replay_translators(ck, circ, c)
    elif kind == 'roundtrip' and 'ops' in c and rebuild(ck.I, c) is not None:
        check_roundtrip(ck, rebuild(ck.I, c), key)
    elif kind == 'roundtrip' and 'text' in c:
        # the circuit is rebuilt by decoding the stored text with the implementation (table gates only)
        try:
            circ = ck.I.L.decode(c['text'])
        except Exception as e:  # noqa
            m = re.search(r'Unrecognized gate: (\w+)|for gate (\w+)', str(e))
            gname = (m.group(1) or m.group(2)) if m else None
            ck.ctx.violation(dict(call='roundtrip', symptom='spelling-rejected', gate=gname), c, 'decodes', repr(e)[:160],
                             f"the decoder rejects the library's own QASM spelling `{gname}`")
            ck.ctx.case(key)
            return
        check_roundtrip(ck, circ, key)


def tuple_of(x):
    return tuple(tuple_of(y) if isinstance(y, list) else y for y in x) if isinstance(x, list) else x


def replay(ctx: vf.Ctx, data):
    I = Impl()
    ck = Checker(ctx, I)
    M = Model()
    case = data.get('case')
    if isinstance(case, dict):
        run_case(ck, M, case, ('replay', vf.canon(case)))
    M.run()
    finish_pending(ck, M)
