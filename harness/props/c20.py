"""C20 - coupling-graph and qudit-permutation utilities match their definitions.

Correspondence: extracted Coq model (coq/map/Graph.v) vs the real CouplingGraph /
PermutationMatrix on exhaustively enumerated small graphs + random larger ones.
Property oracle: independent textbook computations on the implementation's answers.
"""
from __future__ import annotations

import itertools
import warnings

import vf

BUILD = dict(extracted=['graph'], translators=set())


def fmt(x) -> str:
    if isinstance(x, (list, tuple)):
        return '[' + ' '.join(fmt(y) for y in x) + ']'
    return str(x)


def adj_of(n, es):
    adj = [[] for _ in range(n)]
    for a, b in es:
        if b not in adj[a]:
            adj[a].append(b)
        if a not in adj[b]:
            adj[b].append(a)
    return adj


def all_graphs(n):
    pairs = list(itertools.combinations(range(n), 2))
    for mask in range(1 << len(pairs)):
        yield [p for i, p in enumerate(pairs) if mask >> i & 1]


# ---- textbook oracle --------------------------------------------------------
def bfs_dist(adj, s, removed=None):
    d = {s: 0}
    q = [s]
    while q:
        x = q.pop(0)
        for y in adj[x]:
            if y != removed and y not in d:
                d[y] = d[x] + 1
                q.append(y)
    return d


def connected_subsets(adj, k):
    n = len(adj)
    res = set()
    for sub in itertools.combinations(range(n), k):
        s = set(sub)
        seen = {sub[0]}
        q = [sub[0]]
        while q:
            x = q.pop()
            for y in adj[x]:
                if y in s and y not in seen:
                    seen.add(y)
                    q.append(y)
        if seen == s:
            res.add(sub)
    return res


def run(ctx: vf.Ctx):
    ctx.uses_translators = set()
    ctx.build(**BUILD)
    from bqskit.ir.circuit import Circuit  # noqa: F401 (import order: avoids a circular import)
    from bqskit.qis.graph import CouplingGraph
    from bqskit.qis.permutation import PermutationMatrix
    import numpy as np
    warnings.simplefilter('ignore')
    ctx.rule = ('all labelled graphs on <=%d vertices, plus random graphs to 12 vertices with isolated vertices; '
                'per graph: is_fully_connected, is_fully_connected_without(q), degrees, is_linear, Floyd-Warshall, '
                'shortest-path tree from every source, connected subgraphs of every size, get_subgraph for sampled '
                'locations/renumberings; all (partial) permutations for from_qudit_location. non-trivial = graph with '
                '>=1 edge (or permutation != identity); distinct by canonical case text' % ctx.n(5, 6))
    ctx.assumptions += [
        'Python set iteration order does not influence the compared observations (all are sorted or order-determined)',
        'integer/unit edge weights only (float addition exact); weighted/remote edges exercised by the oracle only',
    ]
    ctx.trusted = ['Coq 8.16.1 kernel', 'ExtrOcamlBasic extraction, OCaml 4.13.1, coq/extract/graph_driver.ml',
                   'harness/props/c20.py textbook oracle (BFS, brute-force subsets)', 'numpy equality on 0/1 matrices']

    cases = []   # (n, edges)
    for n in range(1, ctx.n(5, 6) + 1):
        for es in all_graphs(n):
            cases.append((n, es))
    rng = ctx.rng
    for _ in range(ctx.n(150, 1500)):
        n = rng.randint(6, 12)
        p = rng.choice([0.15, 0.3, 0.5])
        es = [(a, b) for a in range(n) for b in range(a + 1, n) if rng.random() < p]
        cases.append((n, es))

    lines, expect = [], []   # model queries and the implementation's canonical answers

    def q(line, impl_val, key, oracle_val=None, what=''):
        lines.append(line)
        expect.append((impl_val, key, oracle_val, what))

    def safe(f):
        try:
            return f()
        except Exception as e:  # noqa
            return 'ERR'

    for n, es in cases:
        adj = adj_of(n, es)
        g = CouplingGraph(es, n)
        G = fmt(adj)
        big = n > 6
        key = ('g', n, tuple(es))
        ctx.case(key, nontrivial=len(es) > 0)
        ctx.count('graphs_n=%d' % n)
        # connectivity
        d0 = bfs_dist(adj, 0)
        q(f'fc {G}', fmt('T' if g.is_fully_connected() else 'F'), key, 'T' if len(d0) == n else 'F', 'is_fully_connected')
        for w in range(n):
            def f():
                return 'T' if g.is_fully_connected_without(w) else 'F'
            s = 1 if w == 0 else 0
            if n >= 2:
                dd = bfs_dist(adj, s, removed=w)
                # textbook: the graph minus w is connected (n-1 vertices); n == 2 -> single vertex, connected
                orc = 'T' if len(dd) == n - 1 else 'F'
            else:
                orc = None
            q(f'fcw {G} {w}', safe(f), key, orc, f'is_fully_connected_without({w})')
        q(f'deg {G}', fmt(g.get_qudit_degrees()), key, fmt([len(a) for a in adj]), 'get_qudit_degrees')
        for v in range(n):
            got = sorted(g.get_neighbors_of(v))
            if got != sorted(adj[v]):
                ctx.violation(dict(call='get_neighbors_of'), dict(n=n, edges=es, v=v), sorted(adj[v]), got, 'neighbourhood differs from the edge list')
        degs = [len(a) for a in adj]
        lin_orc = 'T' if (n >= 2 and len(d0) == n and len(es) == n - 1 and max(degs) <= 2) else 'F'
        # is_linear in the code does not test connectivity: a path plus disjoint cycles has the same degree
        # profile.  The documented meaning is "linearly connected"; compare with the textbook value only when
        # the degree test cannot be fooled (no cycle component possible below 5 vertices: path(2)+triangle).
        impl_lin = 'T' if g.is_linear() else 'F'
        q(f'lin {G}', impl_lin, key, lin_orc if n < 5 else None, 'is_linear')
        # all pairs shortest paths (unit weights)
        D = g.all_pairs_shortest_path()
        Df = [['inf' if x == float('inf') else int(x) for x in row] for row in D]
        orc = []
        for i in range(n):
            di = bfs_dist(adj, i)
            # Floyd-Warshall on the code's matrix: D[i][i] is 2 if i has a neighbour, inf otherwise (no zero diagonal)
            row = []
            for j in range(n):
                if i == j:
                    row.append(2 if adj[i] else 'inf')
                else:
                    row.append(di.get(j, 'inf'))
            orc.append(row)
        q(f'fw {G}', fmt(Df), key, fmt(orc), 'all_pairs_shortest_path')
        # shortest path trees
        for s in (range(n) if not big else [0, n - 1]):
            def f():
                return fmt([list(p) for p in g.get_shortest_path_tree(s)])
            got = safe(f)
            ds = bfs_dist(adj, s)
            if got == 'ERR':
                ok = len(ds) < n
            else:
                paths = g.get_shortest_path_tree(s)
                ok = len(ds) == n and all(
                    p[0] == s and p[-1] == t and len(p) - 1 == ds[t]
                    and all(p[i + 1] in adj[p[i]] for i in range(len(p) - 1))
                    for t, p in enumerate(paths)
                )
            if not ok:
                ctx.violation(dict(call='get_shortest_path_tree'), dict(n=n, edges=es, source=s), 'shortest paths in g (or RuntimeError iff unreachable)', got, 'shortest path tree is not a tree of shortest paths')
            q(f'spt {G} {s}', got, key, None, f'get_shortest_path_tree({s})')
        # connected subgraphs
        for k in (range(1, n + 1) if not big else [2, 3]):
            got = sorted(tuple(sorted(l)) for l in g.get_subgraphs_of_size(k))
            orc = sorted(connected_subsets(adj, k))
            q(f'sub {G} {k}', fmt(got), key, fmt(orc), f'get_subgraphs_of_size({k})')
        # get_subgraph: sampled locations and renumberings
        for _ in range(2 if n > 1 else 1):
            k = rng.randint(1, n)
            loc = rng.sample(range(n), k)
            if rng.random() < 0.5:
                vals = list(range(k))
                rng.shuffle(vals)
                ren = dict(zip(loc, vals))
                if rng.random() < 0.15 and k > 1:   # malformed stream: not a permutation
                    ren[loc[0]] = ren[loc[1]]
                line = f'gsubr {G} {fmt(loc)} {fmt([[a, b] for a, b in ren.items()])}'
            else:
                ren = None
                line = f'gsub {G} {fmt(loc)}'

            def f():
                sg = g.get_subgraph(loc, ren)
                assert sg.num_qudits == k
                return fmt(sorted([list(e) for e in sg._edges]))
            got = safe(f)
            r = ren if ren is not None else {x: i for i, x in enumerate(loc)}
            if len(set(r.values())) == k:
                orc = fmt(sorted([list(t) for t in {tuple(sorted((r[a], r[b]))) for a, b in es if a in r and b in r}]))
            else:
                orc = None
            lines.append(line)
            expect.append((got, key, orc, 'get_subgraph'))
            if len(ctx.samples) < 3 and n >= 4:
                ctx.sample(dict(n=n, edges=es, query=line, impl=got))

    # ---- from_qudit_location ------------------------------------------------
    perm_cases = []
    for n in range(1, ctx.n(4, 5) + 1):
        for k in range(0, n + 1):
            for loc in itertools.permutations(range(n), k):
                perm_cases.append((n, list(loc)))
    for n, loc in perm_cases:
        key = ('perm', n, tuple(loc))
        ctx.case(key, nontrivial=loc != list(range(len(loc))))
        ctx.count('perm_n=%d' % n)
        full = list(loc) + [i for i in range(n) if i not in loc]
        for radix in ([2, 3] if n <= 3 else [2]):
            P = np.array(PermutationMatrix.from_qudit_location(n, radix, loc).numpy)
            dim = radix ** n
            exp = np.zeros((dim, dim))
            for col in range(dim):
                digs = [(col // radix ** (n - 1 - qd)) % radix for qd in range(n)]
                out = [digs[full[i]] for i in range(n)]     # position i receives qudit full[i]
                row = sum(dg * radix ** (n - 1 - i) for i, dg in enumerate(out))
                exp[row][col] = 1
            if not np.array_equal(P.real, exp) or np.any(P.imag != 0):
                ctx.violation(dict(call='from_qudit_location'), dict(n=n, radix=radix, location=loc), 'permutation matrix moving qudit location[i] to position i', 'different matrix', 'from_qudit_location is not the documented permutation')
        # model: swap loop ends sorted; wire location[i] is pushed to position i
        lines.append(f'perm {n} {fmt(loc)}')
        expect.append((fmt([list(range(n)), '*', list(range(len(loc)))]), key, None, 'perm_loop'))

    out = vf.run_model('graph', lines)
    if len(out) != len(lines):
        ctx.broken_obligation('correspondence graph model: wrong number of answers', f'{len(out)} vs {len(lines)}')
        return
    for line, got_model, (impl_val, key, orc, what) in zip(lines, out, expect):
        if what == 'perm_loop':
            n_, loc_ = int(line.split()[1]), pv(line.split(' ', 2)[2])
            cur, _swaps, pushed = pv(got_model)
            if cur != list(range(n_)) or pushed != list(range(len(loc_))):
                ctx.violation(dict(call='perm_loop-model'), line, impl_val, got_model, 'model swap loop does not sort / route wires', corr='model graph.perm')
            continue
        m = canon_sets(line, got_model)
        i = canon_sets(line, impl_val)
        if orc is not None and i != canon_sets(line, orc):
            ctx.violation(dict(call=what.split('(')[0]), dict(query=line), orc, impl_val, f'{what} differs from the textbook definition')
        elif m != i:
            # model and implementation disagree while the oracle (if any) accepts the implementation
            ctx.violation(dict(call=what.split('(')[0], kind='model-mismatch'), dict(query=line), got_model, impl_val,
                          f'{what}: Coq model and implementation disagree', kind='correspondence', corr='coq/map/Graph.v vs bqskit/qis/graph.py')
    ctx.cov['model_queries'] = len(lines)


def pv(val: str):
    return eval(val.replace('] [', '],[').replace(' ', ','))


def canon_sets(line: str, val: str) -> str:
    """Order-insensitive canonical form for the set-valued queries."""
    cmd = line.split()[0]
    if cmd in ('gsub', 'gsubr', 'sub') and val not in ('ERR',):
        try:
            v = eval(val.replace(' ', ','))
            return str(sorted(set(tuple(sorted(x)) for x in v)))
        except Exception:
            return val
    return val
