"""C20 - coupling-graph and qudit-permutation utilities match their definitions.

Every case is a *query* (one text line).  For each query three things are computed:
  impl     the real CouplingGraph / PermutationMatrix / UnitaryMatrix / UnitaryBuilder /
           MachineModel answer (canonicalised: sorted sets, exceptions -> small enum),
  model    the answer of the extracted Coq model (coq/map/Graph*.v, Kron.v) - correspondence,
  oracle   an independent textbook computation in this file - the property itself.
impl != oracle  -> VIOLATION (concrete failing input, replayable from the query alone);
impl != model   -> correspondence VIOLATION (the theorems no longer talk about the code).
Queries starting with `py:` have no model part (oracle only).  `mmloc` (MachineModel.get_locations) and `qpu`
(get_qpu_to_qudit_map / get_qudit_to_qpu_map / get_qpu_connectivity) are model-backed (coq/map/GraphQpu.v).
"""
from __future__ import annotations

import heapq
import itertools
import warnings

import vf

BUILD = dict(extracted=['graph'], translators=set())

INF = 'inf'


# ---- tiny value syntax shared with coq/extract/common.ml ---------------------------
def fmt(x) -> str:
    if isinstance(x, (list, tuple)):
        return '[' + ' '.join(fmt(y) for y in x) + ']'
    if isinstance(x, bool):
        return 'T' if x else 'F'
    return str(x)


def parse(s: str):
    toks = s.replace('[', ' [ ').replace(']', ' ] ').replace(',', ' ').split()
    pos = 0

    def items():
        nonlocal pos
        out = []
        while pos < len(toks):
            t = toks[pos]
            pos += 1
            if t == ']':
                return out
            if t == '[':
                out.append(items())
            else:
                try:
                    out.append(int(t))
                except ValueError:
                    out.append(t)
        return out
    return items()


def adj_of(n, es):
    adj = [[] for _ in range(n)]
    for a, b in es:
        if b not in adj[a]:
            adj[a].append(b)
        if a not in adj[b]:
            adj[b].append(a)
    return adj


def edges_of_adj(adj):
    return [(a, b) for a in range(len(adj)) for b in sorted(adj[a]) if a < b]


def all_graphs(n):
    pairs = list(itertools.combinations(range(n), 2))
    for mask in range(1 << len(pairs)):
        yield [p for i, p in enumerate(pairs) if mask >> i & 1]


# ---- textbook oracle ------------------------------------------------------------------
def bfs_dist(adj, s, removed=None):
    d = {s: 0}
    q = [s]
    while q:
        x = q.pop(0)
        for y in adj[x]:
            if y != removed and y not in d:
                d[y] = d[x] + 1
                q.append(y)
    return d


def is_connected_subset(adj, sub):
    s = set(sub)
    first = next(iter(s))
    seen = {first}
    q = [first]
    while q:
        x = q.pop()
        for y in adj[x]:
            if y in s and y not in seen:
                seen.add(y)
                q.append(y)
    return seen == s


def connected_subsets(adj, k):
    return {sub for sub in itertools.combinations(range(len(adj)), k) if is_connected_subset(adj, sub)}


def weight_table(n, es, remote, dw, rw, ov):
    """documented meaning of the constructor arguments: default weight on every edge,
    remote weight on remote edges, per-edge overrides last"""
    W = {}
    for a, b in es:
        W[(a, b)] = W[(b, a)] = dw
    for a, b in remote:
        W[(a, b)] = W[(b, a)] = rw
    for a, b, x in ov:
        W[(a, b)] = W[(b, a)] = x
    return W


def min_walks_ge1(n, W):
    """least weight of a walk with at least one edge from i to j (Dijkstra, then one
    forced first step): the code's convention - there is no zero diagonal"""
    nb = {i: [] for i in range(n)}
    for (a, b), x in W.items():
        nb[a].append((b, x))
    d0 = []
    for s in range(n):
        dist = {s: 0}
        heap = [(0, s)]
        while heap:
            d, x = heapq.heappop(heap)
            if d > dist.get(x, float('inf')):
                continue
            for y, wt in nb[x]:
                if d + wt < dist.get(y, float('inf')):
                    dist[y] = d + wt
                    heapq.heappush(heap, (d + wt, y))
        d0.append(dist)
    out = []
    for i in range(n):
        row = []
        for j in range(n):
            best = None
            for v, wt in nb[i]:
                if j in d0[v]:
                    c = wt + d0[v][j]
                    best = c if best is None or c < best else best
            row.append(INF if best is None else best)
        out.append(row)
    return out


def embeds(adj_g, adj_h):
    """exists an injective edge-preserving map V(g) -> V(h) (brute force)"""
    ng, nh = len(adj_g), len(adj_h)
    eg = edges_of_adj(adj_g)
    for img in itertools.permutations(range(nh), ng):
        if all(img[b] in adj_h[img[a]] for a, b in eg):
            return True
    return False


def topo_edges(name, args):
    """textbook edge sets (vertex count, set of pairs a < b)"""
    if name == 'grid':
        r, c = args
        es = set()
        for i in range(r):
            for j in range(c):
                if j + 1 < c:
                    es.add((i * c + j, i * c + j + 1))
                if i + 1 < r:
                    es.add((i * c + j, (i + 1) * c + j))
        return r * c, es
    n, = args
    if name == 'all_to_all':
        return n, {(a, b) for a in range(n) for b in range(a + 1, n)}
    if name == 'linear':
        return n, {(a, a + 1) for a in range(n - 1)}
    if name == 'ring':
        return n, {tuple(sorted((a, (a + 1) % n))) for a in range(n) if n >= 2}
    if name == 'star':
        return n, {(0, b) for b in range(1, n)}
    raise KeyError(name)


def embed_operator(radixes, loc, U):
    """explicit operator: U on the qudits `loc` (in that order), identity elsewhere"""
    import numpy as np
    n = len(radixes)
    dim = 1
    for r in radixes:
        dim *= r

    def digs(idx):
        out = []
        for q in range(n):
            rest = 1
            for r in radixes[q + 1:]:
                rest *= r
            out.append((idx // rest) % radixes[q])
        return out

    def sub(d):
        v = 0
        for q in loc:
            v = v * radixes[q] + d[q]
        return v
    E = np.zeros((dim, dim), dtype=np.int64)
    for row in range(dim):
        dr = digs(row)
        for col in range(dim):
            dc = digs(col)
            if all(dr[q] == dc[q] for q in range(n) if q not in loc):
                E[row][col] = U[sub(dr)][sub(dc)]
    return E


def exact(M):
    """numpy complex matrix -> list of int rows, or None when not an exact integer matrix"""
    import numpy as np
    M = np.array(M)
    if np.any(M.imag != 0) or np.any(M.real != np.round(M.real)):
        return None
    return [[int(x) for x in row] for row in M.real]


# ---- the implementation under test (imported lazily, after ctx.build) ------------------
class Impl:
    pass


def load_impl():
    from bqskit.ir.circuit import Circuit  # noqa: F401 (import order: avoids a circular import)
    from bqskit.qis.graph import CouplingGraph
    from bqskit.qis.permutation import PermutationMatrix
    from bqskit.qis.unitary.unitarymatrix import UnitaryMatrix
    from bqskit.qis.unitary.unitarybuilder import UnitaryBuilder
    from bqskit.compiler.machine import MachineModel
    from bqskit.ir.gates import CNOTGate
    from bqskit.ir.location import CircuitLocation
    Impl.CL = CircuitLocation
    import numpy as np
    Impl.Circuit, Impl.G, Impl.PM, Impl.UM, Impl.UB, Impl.MM, Impl.CNOT, Impl.np = (
        Circuit, CouplingGraph, PermutationMatrix, UnitaryMatrix, UnitaryBuilder, MachineModel, CNOTGate, np)
    warnings.simplefilter('ignore')


def err(e: Exception) -> str:
    n = type(e).__name__
    return n if n in ('TypeError', 'ValueError', 'KeyError', 'IndexError', 'RuntimeError') else 'ERR:' + n


def safe(f):
    try:
        return f()
    except RecursionError:
        return 'ERR:RecursionError'
    except Exception as e:  # noqa
        return err(e)


def graph_of(adj):
    return Impl.G(edges_of_adj(adj), len(adj))


def vadj(g):
    return fmt([g.num_qudits, [sorted(a) for a in g._adj]])


def canon_edges(v):
    return fmt(sorted(set(tuple(sorted(e)) for e in v)))


# A handler returns a dict:
#   model   model query line or None           canon   function canonicalising the model's answer
#   impl    canonical implementation answer     oracle  expected canonical answer or None
#   sig     signature dict for the violation    what    text
# and may add `extra` = list of (sig, expected, observed, what) oracle failures found on the side.
ERRS = ('TypeError', 'ValueError', 'KeyError', 'IndexError', 'RuntimeError')


def merr(x):
    """the model conflates the raising paths of one call into ERR (None)"""
    return 'ERR' if x in ERRS else x


def h_fc(a):
    adj, = a
    g = graph_of(adj)
    d0 = bfs_dist(adj, 0)
    return dict(model=f'fc {fmt(adj)}', impl=safe(lambda: fmt(bool(g.is_fully_connected()))),
                oracle=fmt(len(d0) == len(adj)), what='is_fully_connected')


def h_fcw(a):
    adj, q = a
    g, n = graph_of(adj), len(adj)
    orc = None
    if n >= 2 and q < n:
        s = 1 if q == 0 else 0
        orc = fmt(len(bfs_dist(adj, s, removed=q)) == n - 1)     # g - q is connected
    return dict(model=f'fcw {fmt(adj)} {q}', impl=merr(safe(lambda: fmt(bool(g.is_fully_connected_without(q))))),
                oracle=orc, what='is_fully_connected_without')


def h_deg(a):
    adj, = a
    g = graph_of(adj)
    extra = []
    for v in range(len(adj)):
        got = sorted(g.get_neighbors_of(v))
        if got != sorted(adj[v]):
            extra.append((dict(call='get_neighbors_of'), sorted(adj[v]), got, 'neighbourhood differs from the edge list'))
    return dict(model=f'deg {fmt(adj)}', impl=fmt(g.get_qudit_degrees()), oracle=fmt([len(x) for x in adj]),
                what='get_qudit_degrees', extra=extra)


def h_lin(a):
    adj, = a
    g, n = graph_of(adj), len(adj)
    degs = [len(x) for x in adj]
    m = sum(degs) // 2
    orc = n >= 2 and len(bfs_dist(adj, 0)) == n and m == n - 1 and max(degs) <= 2     # a path on all vertices
    impl = fmt(bool(g.is_linear()))
    sig = dict(call='is_linear')
    if impl == 'T' and not orc and len(bfs_dist(adj, 0)) < n:
        sig['symptom'] = 'disconnected_accepted'
    return dict(model=f'lin {fmt(adj)}', impl=impl, oracle=fmt(orc), what='is_linear', sig=sig)


def cmat(D):
    return fmt([[INF if x == float('inf') else int(x) for x in row] for row in D])


def h_fw(a):
    adj, = a
    g, n = graph_of(adj), len(adj)
    W = weight_table(n, edges_of_adj(adj), [], 1, 1, [])
    return dict(model=f'fw {fmt(adj)}', impl=cmat(g.all_pairs_shortest_path()), oracle=fmt(min_walks_ge1(n, W)),
                what='all_pairs_shortest_path')


def h_fww(a):
    n, es, remote, dw, rw, ov = a
    es, remote = [tuple(e) for e in es], [tuple(e) for e in remote]

    def f():
        g = Impl.G(es, n, remote_edges=remote, default_weight=dw, default_remote_weight=rw,
                   edge_weights_overrides={(x, y): z for x, y, z in ov})
        return cmat(g.all_pairs_shortest_path())
    W = weight_table(n, es, remote, dw, rw, ov)
    return dict(model='fww ' + ' '.join(fmt(x) for x in a), impl=safe(f), oracle=fmt(min_walks_ge1(n, W)),
                what='all_pairs_shortest_path', sig=dict(call='all_pairs_shortest_path', weights='weighted'))


def h_spt(a):
    adj, s = a
    g, n = graph_of(adj), len(adj)
    got = safe(lambda: [list(p) for p in g.get_shortest_path_tree(s)])
    ds = bfs_dist(adj, s) if s < n else {}
    if isinstance(got, str):
        ok = (len(ds) < n and got == 'RuntimeError') or (s >= n and got == 'IndexError')
        impl = 'ERR'
    else:
        ok = len(ds) == n and len(got) == n and all(
            len(p) >= 1 and p[0] == s and p[-1] == t and len(p) - 1 == ds[t]
            and all(p[i + 1] in adj[p[i]] for i in range(len(p) - 1)) for t, p in enumerate(got))
        impl = fmt(got)
    return dict(model=f'spt {fmt(adj)} {s}', impl=impl, oracle=None if ok else
                'paths of g from the source with BFS-distance hops; RuntimeError iff a vertex is unreachable',
                what='get_shortest_path_tree')


def h_sub(a):
    adj, k = a
    g = graph_of(adj)
    got = safe(lambda: [tuple(l) for l in g.get_subgraphs_of_size(k)])
    n = len(adj)
    if isinstance(got, str):
        return dict(model=f'sub {fmt(adj)} {k}', impl=merr(got), oracle='ERR' if (k <= 0 or k > n) else 'no error',
                    what='get_subgraphs_of_size')
    extra = []
    as_sets = [tuple(sorted(l)) for l in got]
    if len(set(as_sets)) != len(as_sets) or any(list(l) != sorted(l) for l in got):
        extra.append((dict(call='get_subgraphs_of_size', symptom='duplicate_location'), 'each connected subset once, sorted',
                      fmt(got), 'a vertex set is returned more than once / unsorted (CPython set order of colliding labels)'))
    return dict(model=f'sub {fmt(adj)} {k}', impl=fmt(sorted(set(as_sets))), oracle=fmt(sorted(connected_subsets(adj, k))),
                canon=lambda v: v if v == 'ERR' else fmt(sorted(set(tuple(sorted(x)) for x in parse(v)[0]))),
                what='get_subgraphs_of_size', extra=extra)


def h_gsub(a):
    adj, loc, ren = a
    g, n, k = graph_of(adj), len(adj), len(loc)
    rd = None if ren == 'NONE' else {x: y for x, y in ren}

    def f():
        sg = g.get_subgraph(loc, rd)
        assert sg.num_qudits == k
        return canon_edges(sg._edges)
    got = merr(safe(f))
    es = edges_of_adj(adj)
    r = rd if rd is not None else {x: i for i, x in enumerate(loc)}
    valid_loc = len(set(loc)) == k and all(0 <= x < n for x in loc) and k > 0
    sig = dict(call='get_subgraph')
    if not valid_loc or set(r) != set(loc) or (ren != 'NONE' and len(ren) != len(r)):
        orc = 'ERR'
    elif sorted(r.values()) != list(range(k)):
        orc = 'ERR'      # "the renumbering must be a permutation of [0, len(location))"
        if got != 'ERR':
            sig['symptom'] = 'non_injective_renumbering_accepted'
    else:
        orc = canon_edges({(r[x], r[y]) for x, y in es if x in r and y in r})
    line = f'gsub {fmt(adj)} {fmt(loc)}' if ren == 'NONE' else f'gsubr {fmt(adj)} {fmt(loc)} {fmt(ren)}'
    return dict(model=line, impl=got, oracle=orc, sig=sig, what='get_subgraph',
                canon=lambda v: v if v == 'ERR' else canon_edges(parse(v)[0]))


def perm_matrix_expected(n, radix, loc):
    np = Impl.np
    full = list(loc) + [i for i in range(n) if i not in loc]
    dim = radix ** n
    exp = np.zeros((dim, dim), dtype=np.int64)
    for col in range(dim):
        digs = [(col // radix ** (n - 1 - qd)) % radix for qd in range(n)]
        out = [digs[full[i]] for i in range(n)]       # position i receives qudit full[i]
        row = sum(dg * radix ** (n - 1 - i) for i, dg in enumerate(out))
        exp[row][col] = 1
    return [[int(x) for x in r] for r in exp]


def h_fql(a):
    n, radix, loc = a
    P = safe(lambda: exact(Impl.PM.from_qudit_location(n, radix, loc).numpy))
    exp = perm_matrix_expected(n, radix, loc)
    return dict(model=f'fql {n} {radix} {fmt(loc)}', impl=fmt([P, True]) if not isinstance(P, str) else P,
                oracle=fmt([exp, True]), what='from_qudit_location', sig=dict(call='from_qudit_location'))


def h_perm(a):
    n, loc = a          # model only: the loop sorts and routes (also a theorem); the matrices are checked by fql
    exp = [list(range(n)), list(range(len(loc)))]
    return dict(model=f'perm {n} {fmt(loc)}', impl=fmt(exp), oracle=None, what='perm_loop',
                canon=lambda v: fmt([parse(v)[0][0], parse(v)[0][2]]), sig=dict(call='perm_loop-model'))


def h_emb(a):
    ag, ah = a
    g, h = graph_of(ag), graph_of(ah)
    return dict(model=f'emb {fmt(ag)} {fmt(ah)}', impl=safe(lambda: fmt(bool(g.is_embedded_in(h)))),
                oracle=fmt(embeds(ag, ah)), what='is_embedded_in')


def h_topo(a):
    name, args = a[0], a[1:]
    impl = safe(lambda: vadj(getattr(Impl.G, name)(*args)))
    n, es = topo_edges(name, args)
    orc = None
    if name == 'ring' and n == 1:
        orc = None       # C_1: the code raises TypeError (self-loop (0,0)); no textbook simple graph to compare with
    elif n >= 1:
        orc = fmt([n, [sorted(x) for x in adj_of(n, sorted(es))]])
    else:
        orc = fmt([1, [[]]])     # size is inferred from the largest label: the empty edge list is ONE vertex
    return dict(model='topo ' + ' '.join(str(x) for x in a), impl=impl, oracle=orc, what=f'CouplingGraph.{name}',
                sig=dict(call=name))


def h_mkg(a):
    es, on = a
    es = [tuple(e) for e in es]
    impl = safe(lambda: vadj(Impl.G(es, None if on == 'NONE' else on)))
    if any(x == y for x, y in es):
        orc = 'TypeError'
    else:
        c = 1 + max([max(e) for e in es], default=0)
        if on != 'NONE' and on < c:
            orc = 'ValueError'
        else:
            n = c if on == 'NONE' else on
            orc = fmt([n, [sorted(x) for x in adj_of(n, es)]])
    return dict(model=f'mkg {fmt(es)} {on}', impl=impl, oracle=orc, what='CouplingGraph.__init__', sig=dict(call='__init__'))


def h_ind(a):
    adj, loc = a
    g = graph_of(adj)
    impl = safe(lambda: fmt([list(e) for e in g.get_induced_subgraph(loc)]))
    if len(set(loc)) != len(loc) or len(loc) < 2:
        orc = 'ValueError'
    else:
        orc = fmt([[min(x, y), max(x, y)] for x, y in itertools.combinations(loc, 2) if y in adj[x]])
    return dict(model=f'ind {fmt(adj)} {fmt(loc)}', impl=impl, oracle=orc, what='get_induced_subgraph')


def h_relab(a):
    es, ren = a
    es = [tuple(e) for e in es]
    rd = None if ren == 'NONE' else {x: y for x, y in ren}
    impl = safe(lambda: vadj(Impl.G.relabel_subgraph(es, rd)))
    sig = dict(call='relabel_subgraph')
    if rd is None:
        vs = sorted({x for e in es for x in e})
        r = {v: i for i, v in enumerate(vs)}      # "least to greatest order" (docstring)
    else:
        r = rd
    if any(x not in r or y not in r for x, y in es):
        orc = 'KeyError'
    else:
        new = [tuple(sorted((r[x], r[y]))) for x, y in es]
        if any(x == y for x, y in new):
            orc = 'TypeError'
        else:
            n = 1 + max([max(e) for e in new], default=0)
            orc = fmt([n, [sorted(x) for x in adj_of(n, new)]])
    if rd is None and impl != orc:
        sig['symptom'] = 'set_order'
    return dict(model=f'relab {fmt(es)} {fmt(ren) if ren != "NONE" else "NONE"}', impl=impl, oracle=orc,
                what='relabel_subgraph', sig=sig)


def h_match(a):
    adj, ign = a
    g = graph_of(adj)
    ign = [tuple(e) for e in ign]
    order = [list(e) for e in g._edges]          # trace replay: the order the implementation iterates in
    got = [tuple(e) for e in g.maximal_matching(ign)]
    es = set(edges_of_adj(adj))
    adm = {e for e in es if e not in ign and (e[1], e[0]) not in ign}
    used = [v for e in got for v in e]
    ok = (all(e in adm for e in got) and len(used) == len(set(used))
          and all(x in used or y in used for x, y in adm))
    return dict(model=f'match {fmt(order)} {fmt(ign)}', impl=canon_edges(got),
                oracle=None if ok else 'a maximal matching of the admissible edges',
                canon=lambda v: canon_edges(parse(v)[0]), what='maximal_matching')


def h_kron(a):
    A, B = a
    UM = Impl.UM
    impl = safe(lambda: fmt(exact(UM(A).otimes(UM(B)).numpy)))
    return dict(model=f'kron {fmt(A)} {fmt(B)}', impl=impl, oracle=fmt(exact(Impl.np.kron(Impl.np.array(A), Impl.np.array(B)))),
                what='UnitaryMatrix.otimes', sig=dict(call='otimes'))


def h_otimes(a):
    A, Bs = a
    UM, np = Impl.UM, Impl.np
    impl = safe(lambda: fmt(exact(UM(A).otimes(*[UM(B) for B in Bs]).numpy)))
    acc = np.array(A)
    for B in Bs:        # explicit block formula, not np.kron: entry (i*p+k, j*q+l) = A[i][j] * B[k][l]
        Bn = np.array(B)
        m, n_ = acc.shape
        p, q = Bn.shape
        out = np.zeros((m * p, n_ * q), dtype=np.int64)
        for i in range(m):
            for j in range(n_):
                for k in range(p):
                    for l in range(q):
                        out[i * p + k][j * q + l] = acc[i][j] * Bn[k][l]
        acc = out
    return dict(model=f'otimes {fmt(A)} {fmt(Bs)}', impl=impl, oracle=fmt(exact(acc)), what='UnitaryMatrix.otimes',
                sig=dict(call='otimes'))


def h_ipow(a):
    A, p = a
    np = Impl.np
    impl = safe(lambda: fmt(exact(Impl.UM(A).ipower(p).numpy)))
    M = np.array(A, dtype=np.int64)
    base = M.T if p < 0 else M
    acc = np.eye(len(A), dtype=np.int64)
    for _ in range(abs(p)):
        acc = acc @ base
    return dict(model=f'ipow {fmt(A)} {p}', impl=impl, oracle=fmt(exact(acc)), what='UnitaryMatrix.ipower', sig=dict(call='ipower'))


def h_apply(side):
    def h(a):
        rx, T, U, loc, inv = a
        np = Impl.np

        def f():
            b = Impl.UB(len(rx), rx)
            b.tensor = np.array(T, dtype=np.complex128).reshape(tuple(rx) * 2)
            um = Impl.UM(U, [rx[q] for q in loc])
            # eval_apply_* must give the same matrix without touching the builder
            Mn = np.array(um.dagger.numpy if inv else um.numpy)
            ev = (b.eval_apply_right if side == 'r' else b.eval_apply_left)(Mn, Impl.CL(loc))
            (b.apply_right if side == 'r' else b.apply_left)(um, loc, inverse=bool(inv))
            out = exact(b.get_unitary().numpy)
            if exact(ev) != out:
                return 'EVAL_APPLY_DIFFERS ' + fmt(exact(ev))
            return fmt(out)
        Ue = np.array(U, dtype=np.int64).T if inv else np.array(U, dtype=np.int64)
        E = embed_operator(rx, loc, Ue)
        Tn = np.array(T, dtype=np.int64)
        exp = E @ Tn if side == 'r' else Tn @ E
        Um = [list(r) for r in Ue]
        return dict(model=f'apply{side} {fmt(rx)} {fmt(T)} {fmt(Um)} {fmt(loc)}', impl=safe(f), oracle=fmt(exact(exp)),
                    what=f'UnitaryBuilder.apply_{"right" if side == "r" else "left"}', sig=dict(call=f'apply_{side}'))
    return h


# ---- oracle-only queries (no model part) -------------------------------------------------
def h_mm_locations(a):
    n, es, k = a
    es = [tuple(e) for e in es]
    adj = adj_of(n, es)
    nq = safe(lambda: Impl.MM(n, es).coupling_graph.num_qudits)
    got = safe(lambda: sorted({tuple(sorted(l)) for l in Impl.MM(n, es).get_locations(k)}))
    exp = (n, sorted(connected_subsets(adj, k)))
    sig = dict(call='MachineModel.get_locations')
    if nq != n:
        sig = dict(call='MachineModel.__init__', symptom='isolated_qudits_dropped')
    return dict(model=None, impl=fmt((nq, got)), oracle=fmt(exp), sig=sig,
                what='MachineModel(num_qudits, edges).get_locations: all connected blocks of the num_qudits-qudit machine')


def h_mm_compat(a):
    n, es, cn, ces, placement = a
    es, ces = [tuple(e) for e in es], [tuple(e) for e in ces]

    def f():
        m = Impl.MM(n, es)
        c = Impl.Circuit(cn)
        for x, y in ces:
            c.append_gate(Impl.CNOT(), (x, y))
        return fmt(bool(m.is_compatible(c, None if placement == 'NONE' else placement)))
    pl = list(range(cn)) if placement == 'NONE' else placement
    eset = {tuple(sorted(e)) for e in es}
    exp = cn <= n and all(tuple(sorted((pl[x], pl[y]))) in eset for x, y in ces)
    impl = safe(f)
    sig = dict(call='MachineModel.is_compatible')
    if impl == 'F' and exp and any((pl[x], pl[y]) not in eset for x, y in {tuple(sorted(e)) for e in ces}):
        sig['symptom'] = 'reversed_edge'
    return dict(model=None, impl=impl, oracle=fmt(exp), sig=sig,
                what='MachineModel.is_compatible: every circuit interaction lies on an (undirected) edge under the placement')


def h_span(a):
    adj, root = a
    g, n = graph_of(adj), len(adj)
    got = safe(lambda: [tuple(e) for e in g.get_rooted_minimum_span(root)])
    reach = bfs_dist(adj, root)
    if isinstance(got, str):
        ok = False
    else:
        have = {root}
        ok = True
        for p, c in got:          # every edge hangs a NEW vertex below an already connected one
            if p not in have or c in have or c not in adj[p]:
                ok = False
            have.add(c)
        ok = ok and have == set(reach) and all(reach[c] == reach[p] + 1 for p, c in got)
    return dict(model=None, impl=fmt(got) if not isinstance(got, str) else got,
                oracle=None if ok else 'a breadth-first spanning tree of the component of root, parents before children',
                what='get_rooted_minimum_span')


def h_qpu(a):
    n, es, remote = a
    es, remote = [tuple(e) for e in es], [tuple(e) for e in remote]

    def f():
        g = Impl.G(es, n, remote_edges=remote)
        comps = sorted(sorted(c) for c in g.get_qpu_to_qudit_map())
        q2q = g.get_qudit_to_qpu_map()
        sizes = sorted(sg.num_qudits for sg in g.get_individual_qpu_graphs())
        return fmt([comps, len(q2q), g.qpu_count(), bool(g.is_distributed()), sizes])
    local = [e for e in es if e not in remote and (e[1], e[0]) not in remote]
    adj = adj_of(n, local)
    comps, seen = [], set()
    for v in range(n):
        if v not in seen:
            c = sorted(bfs_dist(adj, v))
            seen.update(c)
            comps.append(c)
    sizes = sorted(len(c) for c in comps) if remote else [n]
    exp = fmt([sorted(comps), n, len(comps), bool(remote), sizes])
    return dict(model=None, impl=safe(f), oracle=exp, what='get_qpu_to_qudit_map & co.: components after deleting remote edges')


# ---- MachineModel.get_locations and the QPU maps: model-backed (coq/map/GraphQpu.v) -----------
def h_mmloc(a):
    n, es, k = a
    es = [tuple(e) for e in es]

    def f():
        m = Impl.MM(n, es)
        return fmt([m.coupling_graph.num_qudits, sorted({tuple(sorted(l)) for l in m.get_locations(k)})])
    if n <= 0:
        orc = 'ValueError'
    elif any(x >= n or y >= n or x == y for x, y in es):
        orc = 'TypeError'
    elif k <= 0 or k > n:
        orc = 'ValueError'
    else:
        orc = fmt([n, sorted(connected_subsets(adj_of(n, es), k))])
    sig = dict(call='MachineModel.get_locations')

    def canon(m):
        v = parse(m)[0]
        return fmt([v[0], sorted(tuple(l) for l in v[1])]) if isinstance(v, list) else m
    return dict(model=f'mmloc {n} {fmt(es)} {k}', canon=canon, impl=safe(f), oracle=orc, sig=sig,
                what='MachineModel(num_qudits, edges).get_locations: all connected blocks of the num_qudits-qudit machine')


def f8_fixed() -> bool:
    """the model of get_qudit_to_qpu_map follows the CURRENT code: the insertion-order version while finding C20-F8 is
    open, the repaired one (fixes/C20-F8.patch) once known_findings.d/C20.json marks it fixed"""
    import json
    try:
        ents = json.loads((vf.ROOT / 'known_findings.d' / 'C20.json').read_text())
    except Exception:  # noqa
        return False
    return any(e.get('id') == 'C20-F8' and e.get('status') == 'fixed' for e in ents)


def qpu_oracle(n, es, remote):
    """textbook: components of the graph without its remote edges, in order of their least qudit; qudit -> component
    index; QPU adjacency induced by the remote edges"""
    rset = {tuple(sorted(e)) for e in remote}
    local = [e for e in es if tuple(sorted(e)) not in rset]
    adj = adj_of(n, local)
    comps, seen = [], set()
    for v in range(n):
        if v not in seen:
            c = sorted(bfs_dist(adj, v))
            seen.update(c)
            comps.append(c)
    q2q = [next(i for i, c in enumerate(comps) if v in c) for v in range(n)]
    conn = [set() for _ in comps]
    for x, y in rset:
        conn[q2q[x]].add(q2q[y])
        conn[q2q[y]].add(q2q[x])
    return comps, q2q, [sorted(s) for s in conn]


def h_qpumap(a):
    n, es, remote = a
    es, remote = [tuple(e) for e in es], [tuple(e) for e in remote]
    comps, q2q, conn = qpu_oracle(n, es, remote)
    extra = []
    try:
        g = Impl.G(es, n, remote_edges=remote)
        got_c = [sorted(c) for c in g.get_qpu_to_qudit_map()]
        got_q = list(g.get_qudit_to_qpu_map())
        got_a = [sorted(s) for s in g.get_qpu_connectivity()]
        impl = fmt([got_c, got_q, got_a])
        if got_c != comps:
            extra.append((dict(call='get_qpu_to_qudit_map'), fmt(comps), fmt(got_c),
                          'get_qpu_to_qudit_map: QPUs are not the connected components of the graph without its remote edges'))
        else:
            if got_q != q2q:
                extra.append((dict(call='get_qudit_to_qpu_map', symptom='insertion_order'), fmt(q2q), fmt(got_q),
                              'get_qudit_to_qpu_map: entry q is not the index of the QPU that contains qudit q'))
            if got_a != conn:
                s2 = dict(call='get_qpu_connectivity')
                if got_q != q2q:
                    s2 = dict(call='get_qudit_to_qpu_map', symptom='insertion_order')     # same root cause
                extra.append((s2, fmt(conn), fmt(got_a), 'get_qpu_connectivity: not the QPU adjacency induced by the remote edges'))
    except Exception as e:  # noqa
        impl = err(e)
        extra.append((dict(call='get_qpu_to_qudit_map'), fmt([comps, q2q, conn]), impl, 'QPU maps raise on a valid graph'))
    fixed = f8_fixed()

    def canon(m):
        v = parse(m)[0]
        if not isinstance(v, list) or len(v) != 5:
            return m
        return fmt([v[0], v[3], v[4]] if fixed else [v[0], v[1], v[2]])
    return dict(model=f'qpu {n} {fmt(es)} {fmt(remote)}', canon=canon, impl=impl, oracle=None, extra=extra,
                sig=dict(call='get_qpu_to_qudit_map'), what='get_qpu_to_qudit_map / get_qudit_to_qpu_map / get_qpu_connectivity')


def h_hasheq(a):
    """equal graphs (same size, same edge set, any edge order / orientation, pickled copy) are == and hash equally;
    graphs differing in an edge or in size are != """
    import pickle
    n, es, perm, flips = a
    es = [tuple(e) for e in es]
    es2 = [es[i] for i in perm]
    es2 = [(y, x) if f else (x, y) for (x, y), f in zip(es2, flips)]

    def f():
        g1, g2 = Impl.G(es, n), Impl.G(es2, n)
        g3 = pickle.loads(pickle.dumps(g1))
        g4 = Impl.G(g1)
        bigger = Impl.G(es, n + 1)
        fewer = Impl.G(es[1:], n) if es else None
        return fmt([g1 == g2, hash(g1) == hash(g2), g1 == g3, hash(g1) == hash(g3), g1 == g4, hash(g1) == hash(g4),
                    len({g1, g2, g3, g4}) == 1, g1 != bigger, (g1 != fewer) if es else True,
                    sorted(g3._edges) == sorted(g1._edges) and g3.num_qudits == n])
    return dict(model=None, impl=safe(f), oracle=fmt([True] * 10), sig=dict(call='CouplingGraph.__hash__/__eq__'),
                what='CouplingGraph equality/hash: equal graphs (reordered / flipped edge lists, pickled and copied) are equal '
                     'and hash equally; different graphs are unequal')


HANDLERS = {
    'fc': h_fc, 'fcw': h_fcw, 'deg': h_deg, 'lin': h_lin, 'fw': h_fw, 'fww': h_fww, 'spt': h_spt, 'sub': h_sub,
    'gsub': h_gsub, 'fql': h_fql, 'perm': h_perm, 'emb': h_emb, 'topo': h_topo, 'mkg': h_mkg, 'ind': h_ind,
    'relab': h_relab, 'match': h_match, 'kron': h_kron, 'otimes': h_otimes, 'ipow': h_ipow,
    'applyr': h_apply('r'), 'applyl': h_apply('l'), 'mmloc': h_mmloc, 'qpu': h_qpumap,
    'py:mm_locations': h_mm_locations, 'py:mm_compat': h_mm_compat, 'py:span': h_span, 'py:qpu': h_qpu, 'py:hasheq': h_hasheq,
}
# functions whose model has a Coq theorem (props/C20.v) vs correspondence/oracle only
THEOREM_BACKED = ['fc', 'fcw', 'deg', 'lin', 'fw', 'fww', 'spt', 'sub', 'gsub', 'perm', 'fql', 'emb', 'topo', 'mkg',
                  'ind', 'match', 'kron', 'otimes', 'ipow', 'applyr', 'applyl', 'mmloc', 'qpu']
CORRESPONDENCE_ONLY = ['relab']
ORACLE_ONLY = ['py:mm_compat', 'py:span', 'py:qpu (individual QPU graphs, qpu_count, is_distributed)', 'py:hasheq', 'get_neighbors_of']


def evaluate(ctx: vf.Ctx, queries: list[str]) -> int:
    """impl + oracle + model for every query; reports violations; returns the number of failing queries"""
    res = []
    for qline in queries:
        a = parse(qline)
        try:
            r = HANDLERS[a[0]](a[1:])
        except Exception as e:  # noqa  (the harness itself must not die on one case)
            r = dict(model=None, impl='HARNESS:' + repr(e)[:200], oracle='no harness exception', what='harness', sig=dict(call='harness'))
        r['query'] = qline
        r.setdefault('sig', dict(call=r['what'].split('(')[0]))
        res.append(r)
    mlines = [r['model'] for r in res if r['model']]
    out = vf.run_model('graph', mlines) if mlines else []
    if len(out) != len(mlines):
        ctx.broken_obligation('correspondence graph model: wrong number of answers', f'{len(out)} vs {len(mlines)}')
        return 1
    it = iter(out)
    bad = 0
    for r in res:
        m = next(it) if r['model'] else None
        case = dict(query=r['query'])
        failed = False
        for sig, exp, obs, what in r.get('extra', []):
            failed |= bool(ctx.violation(sig, case, exp, obs, what))
        if r['oracle'] is not None and r['impl'] != r['oracle']:
            failed |= bool(ctx.violation(r['sig'], case, r['oracle'], r['impl'], f"{r['what']} differs from the textbook definition"))
        elif m is not None:
            mc = m
            if 'canon' in r and not m.startswith('EXN'):
                try:
                    mc = r['canon'](m)
                except Exception:  # noqa
                    mc = m
            if mc != r['impl'] and merr(r['impl']) != mc:
                sig = dict(r['sig'], kind='model-mismatch')
                failed |= bool(ctx.violation(sig, dict(case, model_query=r['model']), mc, r['impl'],
                                             f"{r['what']}: Coq model and implementation disagree", kind='correspondence',
                                             corr='coq/map (extracted) vs /repo'))
        bad += failed
    return bad


def signed_perm(rng, d):
    p = list(range(d))
    rng.shuffle(p)
    return [[(rng.choice([1, -1]) if p[i] == j else 0) for j in range(d)] for i in range(d)]


def generate(ctx: vf.Ctx) -> list[str]:
    rng = ctx.rng
    Q: list[str] = []
    nmax = ctx.n(5, 6)

    def add(line, key, nontrivial, kind):
        Q.append(line)
        ctx.case(key, nontrivial=nontrivial)
        ctx.count(kind)

    # ---- all labelled graphs on <= nmax vertices, random graphs to 12 vertices ----------
    cases = []
    for n in range(1, nmax + 1):
        for es in all_graphs(n):
            cases.append((n, es))
    for _ in range(ctx.n(150, 1500)):
        n = rng.randint(6, 12)
        p = rng.choice([0.15, 0.3, 0.5])
        cases.append((n, [(a, b) for a in range(n) for b in range(a + 1, n) if rng.random() < p]))
    for n, es in cases:
        adj = adj_of(n, es)
        G = fmt(adj)
        big = n > 6
        nt = len(es) > 0
        key = ('g', n, tuple(es))
        ctx.case(key, nontrivial=nt)
        ctx.count('graphs_n=%d' % n)
        Q.append(f'fc {G}')
        for q in list(range(n)) + ([n + rng.randint(0, 2)] if rng.random() < 0.1 else []):      # malformed: qudit out of range
            Q.append(f'fcw {G} {q}')
        Q += [f'deg {G}', f'lin {G}', f'fw {G}']
        # weighted / remote edges: integer weights, so float addition in the code is exact
        if es:
            remote = [e for e in es if rng.random() < 0.25]
            ov = [[a, b, rng.randint(0, 9)] if rng.random() < 0.5 else [b, a, rng.randint(0, 9)]
                  for a, b in es if rng.random() < 0.3]
            # overrides must be given exactly as in the edge list (documented contract); the reversed ones are
            # the malformed stream (ValueError expected from both sides)
            ov_ok = [o for o in ov if (o[0], o[1]) in es]
            use = ov if rng.random() < 0.1 else ov_ok
            if use is ov and use != ov_ok:
                ctx.count('fww_malformed')
            else:
                Q.append(f'fww {n} {fmt(es)} {fmt(remote)} {rng.randint(1, 4)} {rng.randint(5, 20)} {fmt(use)}')
        for s in (list(range(n)) if not big else [0, n - 1]) + ([n] if rng.random() < 0.05 else []):
            Q.append(f'spt {G} {s}')
        for k in (list(range(0, n + 2)) if n <= 4 else list(range(1, n + 1)) if not big else [2, 3]):
            Q.append(f'sub {G} {k}')
        for _ in range(2 if n > 1 else 1):
            k = rng.randint(1, n)
            loc = rng.sample(range(n), k)
            r = rng.random()
            if r < 0.5:
                vals = list(range(k))
                rng.shuffle(vals)       # renumberings that are NOT order preserving
                ren = [[x, y] for x, y in zip(loc, vals)]
                if rng.random() < 0.15 and k > 1:   # malformed stream: not a permutation
                    ren[0][1] = ren[1][1]
                    ctx.count('gsub_malformed')
                Q.append(f'gsub {G} {fmt(loc)} {fmt(ren)}')
            else:
                if rng.random() < 0.08:
                    loc = loc + [loc[0]] if rng.random() < 0.5 else loc + [n]      # duplicate / out of range
                    ctx.count('gsub_malformed')
                Q.append(f'gsub {G} {fmt(loc)} NONE')
        if n >= 2:
            loc = rng.sample(range(n), rng.randint(1, min(n, 4)))
            Q.append(f'ind {G} {fmt(loc)}')
            ign = [list(e) if rng.random() < 0.5 else [e[1], e[0]] for e in es if rng.random() < 0.2]
            Q.append(f'match {G} {fmt(ign)}')
            root = rng.randrange(n)
            if adj[root]:        # an isolated root (disconnected graph) is out of contract: nothing to connect
                Q.append(f'py:span {G} {root}')
        if n <= 4 or rng.random() < 0.3:
            perm = list(range(len(es)))
            rng.shuffle(perm)
            Q.append(f'py:hasheq {n} {fmt(es)} {fmt(perm)} {fmt([int(rng.random() < 0.5) for _ in es])}')
        if es and (n <= 4 or rng.random() < 0.2):
            remote = [e for e in es if rng.random() < 0.3]
            Q.append(f'py:qpu {n} {fmt(es)} {fmt(remote)}')
            Q.append(f'qpu {n} {fmt(es)} {fmt(remote)}')     # remote edges exactly as in the edge list (a reversed pair is rejected: contract)
            ctx.count('qpu_maps')
        if n <= 4 or rng.random() < 0.1:
            for k in range(0 if n <= 3 else 1, min(n, 3) + (2 if n <= 3 else 1)):     # k = 0 and k = n + 1: ValueError
                Q.append(f'mmloc {n} {fmt(es)} {k}')
            ctx.count('machine_locations')
        if es and (n <= 4 or rng.random() < 0.1):
            cn = rng.randint(2, n)
            ces = [[x, y] for x, y in itertools.combinations(range(cn), 2) if rng.random() < 0.4]
            pl = rng.sample(range(n), cn)
            Q.append(f'py:mm_compat {n} {fmt(es)} {cn} {fmt(ces)} {fmt(pl) if rng.random() < 0.8 else "NONE"}')
        if len(ctx.samples) < 3 and n >= 4 and nt:
            ctx.sample(dict(n=n, edges=es, queries=Q[-6:]))

    # ---- MachineModel: trailing isolated qudits, malformed (num_qudits 0, label out of range, self-loop) --------
    for _ in range(ctx.n(60, 600)):
        n = rng.randint(1, 6)
        es = [tuple(sorted(rng.sample(range(n), 2))) for _ in range(rng.randint(0, 5))] if n >= 2 else []
        m = n + rng.randint(0, 3)            # more qudits than the edges mention
        r = rng.random()
        if r < 0.08:
            m = 0
        elif r < 0.16:
            es = es + [(rng.randrange(m), m + rng.randint(0, 1))]
        elif r < 0.22:
            x = rng.randrange(m)
            es = es + [(x, x)]
        if r < 0.22:
            ctx.count('machine_malformed')
        add(f'mmloc {m} {fmt(es)} {rng.randint(1, 3)}', ('mmloc', m, tuple(es)), bool(es), 'machine_locations')
    # ---- QPU maps: QPUs whose labels interleave (the order of discovery is not the label order) -----------------
    for _ in range(ctx.n(80, 800)):
        nq = rng.randint(2, 3)
        n = rng.randint(nq, 7)
        owner = [rng.randrange(nq) for _ in range(n)]
        es, remote = [], []
        for x in range(n):
            for y in range(x + 1, n):
                if owner[x] == owner[y] and rng.random() < 0.6:
                    es.append((x, y))
                elif owner[x] != owner[y] and rng.random() < 0.25:
                    es.append((x, y))
                    if rng.random() < 0.85:          # a few inter-block edges stay local: blocks merge
                        remote.append((x, y))
        if es:
            add(f'qpu {n} {fmt(es)} {fmt(remote)}', ('qpu', n, tuple(es), tuple(remote)), bool(remote), 'qpu_maps')

    # ---- labels that collide in CPython's set hashing (0 and 8, 1 and 9 ...) ------------
    for es in ([(0, 8)], [(0, 8), (8, 16), (0, 16)], [(1, 8), (8, 3)]):
        n = 1 + max(max(e) for e in es)
        add(f'sub {fmt(adj_of(n, es))} 2', ('collide', tuple(es)), True, 'colliding_labels')
        add(f'relab {fmt([list(e) for e in es])} NONE', ('collide-relab', tuple(es)), True, 'colliding_labels')

    # ---- is_embedded_in: all pairs of labelled graphs on <= 4 vertices -------------------
    small = [(n, es) for n in range(1, 5) for es in all_graphs(n)]
    pairs = [(x, y) for x in small for y in small]
    if ctx.quick():
        pairs = [p for p in pairs if p[0][0] <= 3 or p[1][0] <= 3] + rng.sample(pairs, 800)
    for (n1, e1), (n2, e2) in pairs:
        add(f'emb {fmt(adj_of(n1, e1))} {fmt(adj_of(n2, e2))}', ('emb', n1, tuple(e1), n2, tuple(e2)), bool(e1), 'is_embedded_in')
    for _ in range(ctx.n(60, 600)):
        n1, n2 = rng.randint(3, 5), rng.randint(4, 6)
        e1 = [(a, b) for a in range(n1) for b in range(a + 1, n1) if rng.random() < 0.4]
        e2 = [(a, b) for a in range(n2) for b in range(a + 1, n2) if rng.random() < 0.6]
        add(f'emb {fmt(adj_of(n1, e1))} {fmt(adj_of(n2, e2))}', ('emb', n1, tuple(e1), n2, tuple(e2)), bool(e1), 'is_embedded_in')

    # ---- constructor and topology constructors ---------------------------------------------
    for n in range(0, ctx.n(9, 14)):
        for name in ('all_to_all', 'linear', 'ring', 'star'):
            if name == 'ring' and n == 0:
                continue        # Python builds the label -1 (outside the model's naturals); out of contract
            add(f'topo {name} {n}', ('topo', name, n), n >= 2, 'topology')
    for r in range(0, ctx.n(5, 6)):
        for c in range(0, ctx.n(5, 6)):
            add(f'topo grid {r} {c}', ('grid', r, c), r * c >= 2, 'topology')
    for _ in range(ctx.n(200, 2000)):
        n = rng.randint(1, 6)
        es = [[rng.randrange(n), rng.randrange(n)] for _ in range(rng.randint(0, 6))]
        if rng.random() < 0.85:
            es = [e for e in es if e[0] != e[1]]
        on = rng.choice(['NONE', n, n, n + 1, max(0, n - 1)])
        add(f'mkg {fmt(es)} {on}', ('mkg', tuple(map(tuple, es)), on), bool(es), 'constructor')
        if es and rng.random() < 0.5:
            vs = sorted({x for e in es for x in e})
            if rng.random() < 0.5:
                img = list(range(len(vs)))
                rng.shuffle(img)
                ren = [[v, i] for v, i in zip(vs, img)]
                if rng.random() < 0.1:
                    ren = ren[:-1]
                add(f'relab {fmt(es)} {fmt(ren)}', ('relab', tuple(map(tuple, es)), tuple(map(tuple, ren))), True, 'relabel')
            else:
                add(f'relab {fmt(es)} NONE', ('relab', tuple(map(tuple, es))), True, 'relabel')

    # ---- from_qudit_location: all (partial) permutations ----------------------------------------
    for n in range(1, ctx.n(4, 5) + 1):
        for k in range(0, n + 1):
            for loc in itertools.permutations(range(n), k):
                loc = list(loc)
                nt = loc != list(range(len(loc)))
                add(f'perm {n} {fmt(loc)}', ('perm', n, tuple(loc)), nt, 'perm_n=%d' % n)
                for radix in ([2, 3, 4] if n <= 2 else [2, 3] if n <= 3 else [2]):
                    add(f'fql {n} {radix} {fmt(loc)}', ('fql', n, radix, tuple(loc)), nt, 'from_qudit_location')

    # ---- tensor / power / apply on exact signed permutation matrices ----------------------------
    for _ in range(ctx.n(150, 1500)):
        dims = [rng.choice([2, 3, 4]) for _ in range(rng.randint(2, 3))]
        ms = [signed_perm(rng, d) for d in dims]
        if len(ms) == 2:
            add(f'kron {fmt(ms[0])} {fmt(ms[1])}', ('kron', fmt(ms)), True, 'otimes')
        else:
            add(f'otimes {fmt(ms[0])} {fmt(ms[1:])}', ('otimes', fmt(ms)), True, 'otimes')
        A = signed_perm(rng, rng.choice([2, 3, 4, 8, 9]))
        p = rng.randint(-4, 5)
        add(f'ipow {fmt(A)} {p}', ('ipow', fmt(A), p), p not in (0, 1), 'ipower')
    for _ in range(ctx.n(150, 1500)):
        n = rng.randint(1, 3)
        rx = [rng.choice([2, 2, 3]) for _ in range(n)]
        if rng.random() < 0.3:
            rx = [rng.choice([2, 3])] * n
        d = 1
        for r in rx:
            d *= r
        T = signed_perm(rng, d)
        loc = rng.sample(range(n), rng.randint(1, n))     # not necessarily ascending
        du = 1
        for q in loc:
            du *= rx[q]
        U = signed_perm(rng, du)
        side = rng.choice('rl')
        inv = int(rng.random() < 0.3)
        add(f'apply{side} {fmt(rx)} {fmt(T)} {fmt(U)} {fmt(loc)} {inv}', ('apply', side, fmt(rx), fmt(T), fmt(U), fmt(loc), inv),
            True, 'apply_' + side)
    return Q


def run(ctx: vf.Ctx):
    ctx.uses_translators = set()
    ctx.build(**BUILD)
    load_impl()
    ctx.rule = (
        'all labelled graphs on <=%d vertices + random graphs to 12 vertices (isolated vertices, disconnected); per graph: '
        'is_fully_connected, is_fully_connected_without(every q, some out of range), degrees, neighbours, is_linear, '
        'Floyd-Warshall (unit weights and random integer weights with remote edges / overrides), shortest-path tree from every '
        'source, connected subgraphs of every size (incl. 0 and n+1), get_subgraph for sampled locations and non-monotone '
        'renumberings (15%% malformed), induced subgraph, maximal matching (order replayed), rooted span, QPU maps, hash/eq of '
        'reordered, flipped, pickled and copied graphs, MachineModel '
        'locations / compatibility; is_embedded_in on all pairs of graphs <=4 vertices; constructor on random edge lists; '
        'topology constructors for n < %d and grids < %dx%d; from_qudit_location for all partial permutations of <=%d qudits, '
        'radix 2-4; otimes / ipower / apply_right / apply_left on random exact signed permutation matrices (mixed radix 2,3). '
        'one evaluation = one graph (with all its queries) / graph pair / constructor call / permutation / matrix tuple; non-trivial = graph with >= 1 edge / non-identity permutation / exponent not in {0,1}; distinct by canonical case key'
        % (ctx.n(5, 6), ctx.n(9, 14), ctx.n(5, 6), ctx.n(5, 6), ctx.n(4, 5)))
    ctx.assumptions += [
        'Python set iteration order does not influence the compared observations (all are sorted or order-determined); where it '
        'does (maximal_matching) the order used by the implementation is replayed into the model',
        'integer edge weights only (float addition exact); the Floyd-Warshall theorem is over natural weights',
        'tensor operations are compared on exact integer (0, 1, -1) matrices: dagger = transpose; complex entries not exercised',
        'numpy reshape/transpose/matmul/kron are kernels: modelled by index arithmetic, validated by correspondence only',
    ]
    ctx.trusted = ['Coq 8.16.1 kernel', 'ExtrOcamlBasic extraction, OCaml 4.13.1, coq/extract/graph_driver.ml',
                   'harness/props/c20.py textbook oracle (BFS, Dijkstra, brute-force subsets/injections, explicit index loops)',
                   'numpy equality on exact integer matrices']
    queries = []
    cdir = vf.ROOT / 'corpus' / 'C20'
    if cdir.exists():
        import json
        for f in sorted(cdir.glob('*.json')):
            for qline in json.loads(f.read_text()).get('queries', []):
                queries.append(qline)
                ctx.case(('corpus', qline))
                ctx.count('corpus')
    queries += generate(ctx)
    # evaluate in chunks so that one crash of the model binary is localised
    CH = 4000
    for i in range(0, len(queries), CH):
        evaluate(ctx, queries[i:i + CH])
    ctx.cov['queries'] = len(queries)
    ctx.cov['model_queries'] = sum(1 for q in queries if not q.startswith('py:'))
    ctx.cov['functions_with_theorems'] = THEOREM_BACKED
    ctx.cov['functions_correspondence_only'] = CORRESPONDENCE_ONLY
    ctx.cov['functions_oracle_only'] = ORACLE_ONLY
    ctx.cov['refuted_as_written'] = ['get_qudit_to_qpu_map (C20_qudit_to_qpu_refuted, finding C20-F8; model follows the %s code)'
                                     % ('repaired' if f8_fixed() else 'current')]
    ctx.cov['uncovered'] = ['maximal_matching(randomize=True) (theorem covers every order; not run)',
                            'UnitaryBuilder.calc_env_matrix', 'complex-valued unitaries in otimes/ipower']
    if not ctx.quick():
        # independent re-check of the whole .vo closure of props/C20.v with the stand-alone checker
        rc, out, e = vf.sh(['coqchk', '-silent', '-o', '-Q', '.', 'BQ', 'BQ.props.C20'], cwd=vf.COQ, timeout=3000)
        txt = out + e
        ok = rc == 0 and 'Axioms: <none>' in txt.replace('\n', ' ').replace('  ', ' ')
        ctx.cov['coqchk'] = 'ok: no axioms, no type-in-type, no unsafe fixpoints, no assumed positivity' if ok else txt[-600:]
        if not ok:
            ctx.broken_obligation('coqchk rejects the .vo closure of props/C20.v (or reports axioms)', txt[-2000:])
    if ctx.violations or ctx.broken:
        search_harder(ctx)


def search_harder(ctx: vf.Ctx):
    """something failed: look for more / smaller failing inputs with a fresh seed and directed small cases"""
    import random
    old = ctx.rng
    ctx.rng = random.Random(ctx.seed + 1)
    tier = ctx.tier
    ctx.tier = 'quick'
    try:
        qs = generate(ctx)
        evaluate(ctx, qs[: 20000])
    finally:
        ctx.rng, ctx.tier = old, tier
    # shrink: for every violation keep the shortest failing query of the same signature
    # (violations are de-duplicated by signature in vf.Ctx; the first one found is kept)


def replay(ctx: vf.Ctx, data):
    load_impl()
    case = data.get('case') or {}
    q = case.get('query') if isinstance(case, dict) else None
    if not q:
        ctx.broken_obligation('replay file has no query', str(data)[:300])
        return
    ctx.case(('replay', q))
    evaluate(ctx, [q])
