"""C07 - every awaited runtime future resolves exactly once with its own result.

Proof side: coq/rt/WorkerM.v (model), coq/rt/WorkerThm.v (proofs), coq/props/C07.v (statements).
Tie: co-simulation.  REAL Worker objects (both threads of each) under a REAL DetachedServer are
driven in-process by harness/rtsim.py; every thread switch and every message delivery is an event
chosen from ctx.rng; the same event list is executed by the extracted model and the canonical
worker tables / channels are compared after EVERY event.  `fine` runs park the main thread inside
Worker._process_await too (model with atomic=false), `coarse` runs do not (model with atomic=true).
Oracle (independent of the model): values seen by every await/next against the task tree, map
order, next() batches, each body ran once, every client got its own root result, no exception that
a body did not raise, no deadlock at quiescence.
"""
from __future__ import annotations

import json
import multiprocessing as mp
import os
import random
import time
import traceback

import vf

BUILD = dict(extracted=['worker', 'treenet'], translators={'gen_sched'})   # gen_sched: rt/TreeNet.v uses the generated routing arithmetic / manager methods

D7_SIG = {'call': '_process_await', 'symptom': 'double-wake'}


# ---------------------------------------------------------------------------
# scripts
# ---------------------------------------------------------------------------
def mfmt(s) -> str:
    out = []
    for c in s:
        if c[0] == 'sub':
            out.append('[sub %s]' % mfmt(c[1]))
        elif c[0] == 'map':
            out.append('[map [%s]]' % ' '.join(mfmt(x[0]) for x in c[1]))
        else:
            out.append('[%s %d]' % (c[0], c[1]))
    return '[' + ' '.join(out) + ']'


def tup(s):
    """json lists -> the tuples rtsim.body expects"""
    out = []
    for c in s:
        if c[0] == 'sub':
            out.append(('sub', tup(c[1]), c[2]))
        elif c[0] == 'map':
            out.append(('map', [(tup(x[0]), x[1]) for x in c[1]]))
        else:
            out.append((c[0], c[1]))
    return out


class Gen:
    def __init__(self, rng, max_depth=3, max_fan=4, budget=14):
        self.rng, self.max_depth, self.max_fan = rng, max_depth, max_fan
        self.nid = 0
        self.budget = budget

    def fresh(self):
        self.nid += 1
        return self.nid

    def node(self, depth):
        """-> (script, nid).  Well-formed: every future is awaited exactly once (possibly after
        next()/a next-loop) or drained by a next-loop; so no CANCEL is ever sent."""
        rng = self.rng
        nid = self.fresh()
        cmds = []
        nf = 0
        pending = []        # futures not yet closed: [index, state]  state in {'new','nexted'}
        ncreate = 0 if depth >= self.max_depth or self.budget <= 0 else rng.choice([1, 1, 2, 2, 3] if self.nid == 1 else [0, 1, 1, 2, 2, 3])
        created = 0
        while created < ncreate or pending:
            can_create = created < ncreate and self.budget > 0
            if can_create and (not pending or rng.random() < 0.55):
                if rng.random() < 0.5:
                    self.budget -= 1
                    cmds.append(['sub'] + self.node(depth + 1))
                else:
                    n = rng.randint(1, self.max_fan)
                    self.budget -= n
                    cmds.append(['map', [self.node(depth + 1) for _ in range(n)]])
                pending.append([nf, 'new'])
                nf += 1
                created += 1
            elif pending:
                p = rng.choice(pending)
                r = rng.random()
                if r < 0.55 or p[1] == 'drained':
                    cmds.append(['aw', p[0]])
                    pending.remove(p)
                elif r < 0.75 or p[1] == 'nexted':
                    # a single next(): the future must still be awaited afterwards
                    cmds.append(['nx', p[0]])
                    p[1] = 'nexted'
                else:
                    # next-loop counting from zero: only on a future no next() has touched yet
                    cmds.append(['na', p[0]])
                    if rng.random() < 0.5:
                        pending.remove(p)       # drained: the mailbox is ready at completion
                    else:
                        p[1] = 'drained'
            else:
                created = ncreate
        cmds.append(['ret', nid])
        return [cmds, nid]

    def malform(self, script):
        """one misuse of the API somewhere in the root body: the runtime must answer with an ERROR"""
        rng = self.rng
        s = [list(c) for c in script]
        kind = rng.choice(['double-await', 'next-after-await', 'bad-index', 'empty-map'])
        aws = [i for i, c in enumerate(s) if c[0] == 'aw']
        if kind in ('double-await', 'next-after-await') and not aws:
            kind = 'bad-index'
        if kind == 'double-await':
            i = rng.choice(aws)
            s.insert(i + 1, ['aw', s[i][1]])
        elif kind == 'next-after-await':
            i = rng.choice(aws)
            s.insert(i + 1, [rng.choice(['nx', 'na']), s[i][1]])
        elif kind == 'bad-index':
            s.insert(rng.randrange(len(s)), [rng.choice(['aw', 'nx', 'na']), 9])
        else:
            s.insert(rng.randrange(len(s)), ['map', []])
        return s, kind


def parse_v(text):
    """the bracket syntax of coq/extract/common.ml -> nested python lists (N -> None, T/F -> bool)"""
    toks = text.replace('[', ' [ ').replace(']', ' ] ').split()
    pos = 0

    def item():
        nonlocal pos
        t = toks[pos]
        pos += 1
        if t == '[':
            out = []
            while toks[pos] != ']':
                out.append(item())
            pos += 1
            return out
        if t == 'N':
            return None
        if t in ('T', 'F'):
            return t == 'T'
        try:
            return int(t)
        except ValueError:
            return t
    return item()


def _norm(x):
    if isinstance(x, dict):
        return [[k, _norm(v)] for k, v in sorted(x.items())]
    if isinstance(x, (list, tuple)):
        return [_norm(y) for y in x]
    return x


def zero_leaf(rng, script):
    """make one leaf body return 0 (falsy, not None) instead of its tag"""
    leaves = []

    def walk(sc):
        kids = [c for c in sc if c[0] in ('sub', 'map')]
        if not kids:
            leaves.append(sc)
        for c in kids:
            for ch in ([c[1]] if c[0] == 'sub' else [x[0] for x in c[1]]):
                walk(ch)
    for c in script:
        if c[0] == 'sub':
            walk(c[1])
        elif c[0] == 'map':
            for x in c[1]:
                walk(x[0])
    if leaves:
        sc = rng.choice(leaves)
        for c in sc:
            if c[0] == 'ret':
                c[1] = 0


def has_next(roots):
    def walk(sc):
        return any(c[0] in ('nx', 'na') or (c[0] == 'sub' and walk(c[1])) or (c[0] == 'map' and any(walk(x[0]) for x in c[1])) for c in sc)
    return any(walk(r['script']) for r in roots)


def tree_info(roots):
    """nid -> dict(script, futs=[[child nids]], ret)"""
    info = {}

    def walk(script, nid):
        futs = []
        ret = None
        seen_ret = False
        for c in script:
            if c[0] == 'sub':
                futs.append([c[2]])
                walk(c[1], c[2])
            elif c[0] == 'map':
                futs.append([x[1] for x in c[1]])
                for x in c[1]:
                    walk(x[0], x[1])
            elif c[0] == 'ret' and not seen_ret:
                ret, seen_ret = c[1], True
        info[nid] = dict(script=script, futs=futs, ret=ret)
    for r in roots:
        walk(r['script'], r['nid'])
    return info


# ---------------------------------------------------------------------------
# one co-simulated case (runs in a pool process)
# ---------------------------------------------------------------------------
def pick_event(rng, evs, weights, policy, sim):
    if policy == 'd7':
        # let everything else run while some main thread sits between `dest_addr = ...` and `if box.ready`
        parked = [r.wid for r in sim.workers if r.gate.label in ('aw1c', 'aw2')]
        others = [e for e in evs if not (e[0] == 'main' and e[1] in parked)]
        if parked and others:
            evs = others
    if policy == 'gnr':
        # hold results back so that several are pending when a next() consumer enters get_new_results
        late = [e for e in evs if not (e[0] == 'recv' and sim.down[e[1]][0][0].name == 'RESULT')]
        if late and rng.random() < 0.8:
            evs = late
    if policy == 'd7b':
        # park a receiving thread inside deposit_result while the main thread of the same worker sits before
        # `if box.ready`, then let that main thread run first
        mid = [r.wid for r in sim.workers if r.rgate.label == 'dep']
        if mid:
            mains = [e for e in evs if e[0] == 'main' and e[1] in mid]
            if mains:
                return mains[0]
            return next(e for e in evs if e[0] == 'recv2')
        parked = [r.wid for r in sim.workers if r.gate.label == 'aw2']
        for i in parked:
            if sim.down[i] and sim.down[i][0][0].name == 'RESULT' and ('recv', i) in evs:
                sim.arm_deposit_gate(i)
                return ('recv', i)
        others = [e for e in evs if not (e[0] in ('main', 'recv') and e[1] in parked)]
        if parked and others:
            evs = others
    ws = [weights.get(e[0], 1) for e in evs]
    return rng.choices(evs, ws)[0]


def run_case(case: dict) -> dict:
    """case: k, roots=[{script,nid,client,at}], seed, fine, weights, policy, malformed"""
    import rtsim
    res = dict(findings=[], events=0, stats={})
    k, fine = case['k'], case['fine']
    rng = random.Random(case['seed'])
    weights = case.get('weights', {})
    policy = case.get('policy')
    roots = case['roots']
    sim = rtsim.Sim(k, case['seed'], fine=fine)
    if policy == 'gnr':
        for i in range(k):
            sim.arm_gnr_gate(i)
    lines = ['init %d %d' % (k, 0 if fine else 1)]
    dumps = [sim.dump()]
    evlog = []
    d7_hits = 0
    split_handler = False
    gnr_calls = 0
    other_dw = []
    tainted = set()     # tasks whose wake-up count is already off by one because of a D7 double wake
    try:
        nclients = 1 + max(r['client'] for r in roots)
        for _ in range(nclients):
            sim.add_client()
        todo = sorted(range(len(roots)), key=lambda i: roots[i]['at'])
        rinfo = {}
        requested = {c: [] for c in range(nclients)}      # order in which each client asked
        waiting = {c: None for c in range(nclients)}
        answered = {c: 0 for c in range(nclients)}

        arrived = set()          # server mailbox ids whose RESULT the server has handled
        quiescent = [False]
        status_bad = []

        def req_ok(i):
            rq = roots[i].get('req', 'now')
            return rq == 'now' or quiescent[0] or (isinstance(rq, int) and nev >= rq)

        def client_turn():
            progress = False
            for c in range(nclients):
                got = sum(1 for m, p in sim.clients[c].inbox if m.name in ('RESULT',))
                if waiting[c] is not None and got > answered[c]:
                    answered[c] = got
                    waiting[c] = None
                if waiting[c] is None:
                    for i in sorted(rinfo):
                        if roots[i]['client'] == c and i not in requested[c] and req_ok(i):
                            if not sim.clients[c].closed and sim.server_dead is None:
                                st = sim.status(c, rinfo[i])
                                want = 'DONE' if rinfo[i]['box'] in arrived else 'RUNNING'
                                if st != want:
                                    status_bad.append(dict(root=roots[i]['nid'], expected=want, observed=st, falsy=roots[i].get('falsy')))
                            requested[c].append(i)
                            waiting[c] = i
                            sim.request(c, rinfo[i])
                            progress = True
                            break
                    # a request answered immediately
                    got = sum(1 for m, p in sim.clients[c].inbox if m.name in ('RESULT',))
                    if waiting[c] is not None and got > answered[c]:
                        answered[c] = got
                        waiting[c] = None
            return progress

        nev = 0
        window = {i: False for i in range(k)}     # a recv woke the task parked in _process_await
        while True:
            while todo and roots[todo[0]]['at'] <= nev:
                i = todo.pop(0)
                r = roots[i]
                rinfo[i] = sim.submit_root(r['client'], tup(r['script']), r['nid'], falsy=r.get('falsy'))
                lines.append('client %s %d' % (mfmt(r['script']), rinfo[i]['target']))
                dumps.append(sim.dump())
                evlog.append(['client', i])
                client_turn()
            evs = sim.enabled()
            if not evs:
                if todo:
                    roots[todo[0]]['at'] = nev
                    continue
                quiescent[0] = True          # clients that ask late ask now: RESULT was handled before REQUEST
                while client_turn():
                    pass
                break
            e = pick_event(rng, evs, weights, policy, sim)
            rig = sim.workers[e[1]]
            label_before = rig.gate.label
            parked_task = rig.gate.info[0] if label_before in ('aw1', 'aw1c', 'aw2') else None
            qbefore = [tuple(a) for a in rig.w._ready_task_ids.queue]
            if e[0] == 'server' and rig.up and rig.up[0][0].name == 'RESULT' and rig.up[0][1].return_address.worker_id == -1:
                arrived.add(rig.up[0][1].return_address.mailbox_index)
            info = sim.do(e)
            gnr_park = 0
            if e[0] == 'main' and rig.gate.label == 'gnr':
                tg = case.get('gnr_targets')
                gnr_target = tg[gnr_calls % len(tg)] if tg else rng.randrange(4)
                gnr_calls += 1
            while e[0] == 'main' and rig.gate.label == 'gnr' and not rig.mdead:
                # the main thread sits before a source line of get_new_results: before ONE of these lines (drawn per
                # call) the receiving thread deposits the pending results (a model atom is split: oracle-only run)
                dn = sim.down[e[1]]
                while gnr_park == gnr_target and dn and dn[0][0].name == 'RESULT' and rig.rdead is None and rng.random() < 0.85:
                    sim.do(('recv', e[1]))
                    split_handler = True
                gnr_park += 1
                rig.gate.advance()
            nev += 1
            if e[0] == 'server':
                lines.append('server %d %s' % (e[1], rtsim.fmt(info['asg'])))
            elif e[0] == 'recv2' or rig.rgate.label == 'dep':
                split_handler = True          # a handler was split: no model event corresponds
                lines.append('main 99')
            else:
                lines.append('%s %d' % e)
            evlog.append(list(e))
            dumps.append(sim.dump())
            # --- double wake detection (direct, on the real ready queue) ---------------
            qafter = [tuple(a) for a in rig.w._ready_task_ids.queue]
            if e[0] == 'recv' and label_before in ('aw1c', 'aw2') and parked_task is not None:
                if qafter.count(parked_task) > qbefore.count(parked_task):
                    window[e[1]] = True
            dup = [a for a in set(qafter) if qafter.count(a) > 1 and qafter.count(a) > qbefore.count(a)]
            if dup:
                if e[0] == 'main' and label_before == 'aw2' and window[e[1]] and dup == [parked_task]:
                    d7_hits += 1
                    tainted.add(parked_task)
                elif all(a in tainted for a in dup):
                    pass        # the stale second wake-up of a D7 double wake is still queued
                else:
                    other_dw.append(dict(event=list(e), at=nev, label=label_before, dup=[list(a) for a in dup]))
            if e[0] == 'main' and label_before == 'aw2':
                window[e[1]] = False
            client_turn()
            if nev > 4000:
                res['findings'].append(dict(sig={'call': 'schedule', 'symptom': 'no-quiescence'}, what='more than 4000 events', expected='quiescence', observed=nev))
                break
        res['events'] = nev
        # ---------------- correspondence ------------------------------------------------
        out = vf.run_model('worker', lines + ['ghost'])
        mism = next((i for i in range(len(dumps)) if i >= len(out) or dumps[i] != out[i]), None)
        if split_handler:
            mism, out = None, out[:len(dumps)]        # oracle-only run (the model's handlers are atoms)
        if mism is not None:
            res['findings'].append(dict(
                sig={'call': 'correspondence', 'symptom': 'tables-differ', 'event': (lines[mism].split() or ['?'])[0]},
                what='extracted model and real runtime disagree after event %d (%s)' % (mism, lines[mism]),
                expected=out[mism] if mism < len(out) else '<none>', observed=dumps[mism]))
        ghost = parse_v(out[len(dumps)]) if len(out) > len(dumps) else None
        if ghost is not None and mism is None and nev <= 4000:
            # the ghost logs of the model against what the real bodies / clients saw
            addr_of = {rec[1]: list(rec[2]) for rec in sim.log if rec[0] == 'start'}
            real_obs, model_obs = {}, {}
            for rec in sim.log:
                if rec[0] == 'obs':
                    v = rec[4]
                    if rec[3] == 'await':
                        v = [] if v is None else (v if isinstance(v, list) else [v])
                    else:
                        v = [] if v is None else v
                    real_obs.setdefault(rtsim.fmt(addr_of[rec[1]]), []).append([rec[3], rec[2], v])
            for wg in ghost[:-1]:
                for a, kind, f, payload in wg[0]:
                    model_obs.setdefault(rtsim.fmt(a), []).append([kind, f, payload])
            real_fin = sorted([addr_of[rec[1]], 0 if rec[2] is None else rec[2]] for rec in sim.log if rec[0] == 'ret')
            model_fin = sorted(x for wg in ghost[:-1] for x in wg[2])
            real_started = sorted(addr_of.values())
            model_started = sorted(x for wg in ghost[:-1] for x in wg[1])
            real_cl = sorted([ri['box'], p] for i, ri in rinfo.items() for c in [roots[i]['client']] if i in requested[c]
                             and requested[c].index(i) < len([1 for m, p in sim.clients[c].inbox if m.name == 'RESULT'])
                             for p in [rtsim._canon_val([p for m, p in sim.clients[c].inbox if m.name == 'RESULT'][requested[c].index(i)])])
            model_cl = sorted(x for x in ghost[-1][0] if any(x[0] == ri['box'] and i in requested[roots[i]['client']] for i, ri in rinfo.items()))
            real_nerr = sum(1 for c in sim.clients for m, p in c.inbox if m.name == 'ERROR')
            for name, mv, rv in (('observations', model_obs, real_obs), ('finished', model_fin, real_fin),
                                 ('started', model_started, real_started), ('client results', model_cl, real_cl),
                                 ('errors', len(ghost[-1][1]), real_nerr)):
                if rtsim.fmt(_norm(mv)) != rtsim.fmt(_norm(rv)):
                    res['findings'].append(dict(
                        sig={'call': 'correspondence', 'symptom': 'logs-differ', 'event': name},
                        what='extracted model and real runtime disagree on the %s at the end of the run' % name,
                        expected=rtsim.fmt(_norm(mv))[:1500], observed=rtsim.fmt(_norm(rv))[:1500]))
                    break
        # ---------------- oracle --------------------------------------------------------
        info = tree_info(roots)
        malformed = case.get('malformed')
        log = sim.log
        starts = {}
        rets = {}
        seen_slots = {}
        awaited = set()
        consequences = []        # findings that a D7 double wake explains
        errors = [(c, p) for c in range(nclients) for m, p in sim.clients[c].inbox if m.name == 'ERROR']

        def add(sig, what, expected, observed, consequence=False):
            f = dict(sig=sig, what=what, expected=expected, observed=observed)
            (consequences if consequence else res['findings']).append(f)

        for rec in log:
            if rec[0] == 'start':
                starts[rec[1]] = starts.get(rec[1], 0) + 1
            elif rec[0] == 'ret':
                rets[rec[1]] = rec[2]
            elif rec[0] == 'obs':
                _, nid, f, kind, value = rec
                if malformed and (nid, f) in awaited:
                    # API misuse (future awaited again after its mailbox was consumed): the runtime answered
                    # with an ERROR; a body that is stepped once more (stale D7 wake-up) sees send(None)
                    continue
                if kind == 'await':
                    awaited.add((nid, f))
                kids = info[nid]['futs'][f]
                exp = [info[c]['ret'] for c in kids]
                single = not any(c[0] == 'map' for c in [x for x in info[nid]['script'] if x[0] in ('sub', 'map')][f:f + 1])
                if kind == 'await':
                    want = exp[0] if single else exp
                    if value != want:
                        if split_handler and (value is None or (isinstance(value, list) and None in value)):
                            add({'call': 'deposit_result', 'symptom': 'value-read-before-stored'},
                                'await on future %d of task %d returned None: the main thread saw box.ready after the result was counted and before it was stored' % (f, nid), want, value)
                        else:
                            add({'call': 'await', 'symptom': 'wrong-value'}, 'await on future %d of task %d' % (f, nid), want, value)
                else:
                    ss = seen_slots.setdefault((nid, f), [])
                    if not isinstance(value, list):
                        add({'call': 'next', 'symptom': 'wrong-value'}, 'next() did not return a list', 'list', value)
                        continue
                    for item in value:
                        if not (isinstance(item, list) and len(item) == 2 and isinstance(item[0], int) and 0 <= item[0] < len(exp)):
                            add({'call': 'next', 'symptom': 'wrong-value'}, 'malformed next() item', '(slot, value)', item)
                            continue
                        if item[1] != exp[item[0]]:
                            add({'call': 'next', 'symptom': 'wrong-value'}, 'next() on future %d of task %d, slot %d' % (f, nid, item[0]), exp[item[0]], item[1])
                        if item[0] in ss:
                            add({'call': 'next', 'symptom': 'repeated-slot'}, 'next() on future %d of task %d repeats slot %d' % (f, nid, item[0]), 'each slot once', value)
                        ss.append(item[0])
        # a consumer that keeps getting empty batches: some deposited result is never handed out by next()
        empties = {}
        for rec in log:
            if rec[0] == 'obs' and rec[3] == 'next' and rec[4] == []:
                empties[(rec[1], rec[2])] = empties.get((rec[1], rec[2]), 0) + 1
        for (nid, f), n in empties.items():
            if n > 25:
                allslots = list(range(len(info[nid]['futs'][f])))
                add({'call': 'next', 'symptom': 'result-never-returned'},
                    'task %d spins on empty next() batches of future %d (%d in a row): a deposited result is in no batch' % (nid, f, n),
                    allslots, sorted(seen_slots.get((nid, f), [])))
        for nid, n in starts.items():
            if n > 1:
                add({'call': '_add_task', 'symptom': 'body-ran-twice'}, 'task %d started %d times' % (nid, n), 1, n)
        for nid, v in rets.items():
            # a finished body that used a next-loop saw every slot exactly once
            for f, kids in enumerate(info[nid]['futs']):
                if any(c[0] == 'na' and c[1] == f for c in info[nid]['script']) and sorted(seen_slots.get((nid, f), [])) != list(range(len(kids))):
                    add({'call': 'next', 'symptom': 'incomplete'}, 'next-loop on future %d of task %d ended without all slots' % (f, nid), list(range(len(kids))), seen_slots.get((nid, f)))
        d7b = any(f['sig'].get('symptom') == 'value-read-before-stored' for f in res['findings'])
        for where, text in sim.exceptions:
            if (d7b or (d7_hits and split_handler)) and where.startswith('recv') and 'KeyError' in text and '_handle_result' in text:
                # the awaiting task already finished when the half-done handler resumed: consequence of D7b, or
                # of a stale D7 wake-up that stepped the task while a result was half deposited
                consequences.append(dict(sig={'call': 'recv', 'symptom': 'handler-found-task-gone'}, what='KeyError in _handle_result',
                                         expected='none', observed=text[-300:]))
                continue
            add({'call': where.rstrip('0123456789'), 'symptom': 'internal-exception'}, 'exception outside any task body in %s' % where, 'none', text)
        for c, p in errors:
            text = p if isinstance(p, str) else repr(p)
            if malformed:
                continue
            if 'AssertionError' in text and '_get_desired_result' in text:
                # `assert box.ready` / `assert self.fresh_results is not None`: a wake-up without a result
                add({'call': '_get_desired_result', 'symptom': 'woken-without-result'}, 'AssertionError surfaced to the client', 'no error', text[-300:], consequence=True)
            else:
                add({'call': 'client', 'symptom': 'unexpected-error'}, 'ERROR sent to the client although no body raised', 'no error', text[-400:])
        for i, r in enumerate(roots):
            c = r['client']
            got = [p for m, p in sim.clients[c].inbox if m.name == 'RESULT']
            if i in requested[c]:
                pos = requested[c].index(i)
                if pos < len(got):
                    gv = got[pos]
                    if rtsim._canon_val(gv) != info[r['nid']]['ret']:
                        add({'call': 'result', 'symptom': 'wrong-root-result'}, 'client %d asked for root %d' % (c, r['nid']), info[r['nid']]['ret'], rtsim._canon_val(gv))
                    elif r.get('falsy') and (gv is None or bool(gv) or not hasattr(gv, 'c07_tag')):
                        add({'call': 'result', 'symptom': 'wrong-root-result'}, 'client %d: the falsy result object of root %d was replaced' % (c, r['nid']), 'falsy %s' % r['falsy'], repr(gv)[:80])
                    continue
            if malformed or errors:
                continue            # an ERROR was delivered instead (the body raised / D7)
            add({'call': 'result', 'symptom': 'no-result'}, 'root %d never answered at quiescence' % r['nid'], info[r['nid']]['ret'], None, consequence=bool(d7_hits))
        if not malformed and not errors and not res['findings']:
            for nid in info:
                if starts.get(nid, 0) != 1 or nid not in rets:
                    add({'call': '_loop', 'symptom': 'deadlock'}, 'task %d did not run to completion although the system is quiescent' % nid, 'ran once and returned', dict(starts=starts.get(nid, 0), returned=nid in rets), consequence=bool(d7_hits))
                    break
        for sb in status_bad:
            add({'call': 'status', 'symptom': 'wrong-status'}, 'status() of root %d just before its result() request' % sb['root'], sb['expected'], sb)
        if malformed and not errors and not sim.exceptions:
            add({'call': 'client', 'symptom': 'misuse-not-reported'}, 'API misuse (%s) produced no ERROR' % malformed, 'ERROR', 'none')
        for o in other_dw:
            add({'call': o['label'] or e[0], 'symptom': 'double-wake-other'}, 'a task address entered the ready queue twice outside the known window', 'at most one pending wake-up', o)
        if d7_hits:
            add(dict(D7_SIG), 'a RESULT handled between `box.dest_addr = ...` and `if box.ready` put the task into the ready queue twice',
                'one wake-up', dict(double_wakes=d7_hits, consequences=[c['sig']['symptom'] for c in consequences]))
        elif consequences:
            res['findings'] += consequences           # not explained by a D7 double wake: report
        if case.get('require_split') and not split_handler:
            add({'call': 'harness', 'symptom': 'deposit-gate-not-reached'},
                'the schedule never parked a receiving thread inside WorkerMailbox.deposit_result (its shape changed?)',
                'a RESULT handled in two halves around a main-thread step', 'handler ran in one piece')
        res['stats'] = dict(events=nev, tasks=len(info), d7=d7_hits, errors=len(errors), split_handler=int(split_handler),
                            started=sum(starts.values()), finished=len(rets),
                            obs=sum(1 for r in log if r[0] == 'obs'))
        res['sample'] = dict(k=k, fine=fine, tasks=len(info), events=nev, root=mfmt(roots[0]['script'])[:160],
                             first_events=lines[1:7])
    except Exception:
        res['findings'].append(dict(sig={'call': 'harness', 'symptom': 'machinery-raised'}, what='co-simulation raised',
                                    expected='a completed run', observed=traceback.format_exc()[-1500:]))
    finally:
        sim.close()
    return res


def _gate_timeout(res) -> bool:
    return any(f['sig'].get('symptom') == 'machinery-raised' and 'SimHang' in str(f.get('observed')) for f in res['findings'])


def _pool_run(case):
    try:
        return case, run_case(case)
    except Exception:
        return case, dict(findings=[dict(sig={'call': 'harness', 'symptom': 'machinery-raised'}, what='run_case raised', expected='', observed=traceback.format_exc()[-1500:])], events=0, stats={})


# ---------------------------------------------------------------------------
def make_cases(ctx, n):
    rng = ctx.rng
    cases = []
    for j in range(n):
        g = Gen(rng, max_depth=3, max_fan=4, budget=rng.choice([4, 8, 12, 16]))
        k = rng.randint(1, 4)
        nroots = 1 if rng.random() < 0.8 else 2
        roots = []
        for r in range(nroots):
            script, nid = g.node(rng.choice([0, 0, 1, 2]))
            client = 0 if (r == 0 or rng.random() < 0.5) else 1
            root = dict(script=script, nid=nid, client=client, at=0 if r == 0 else rng.randint(0, 60))
            if rng.random() < 0.35:
                root['falsy'] = rng.choice(['circuit', 'int', 'str', 'list', 'tuple'])
            root['req'] = rng.choice(['now', 'now', rng.randint(5, 120), 'end'])
            roots.append(root)
        if rng.random() < 0.15:
            zero_leaf(rng, roots[0]['script'])
        malformed = None
        if rng.random() < 0.12:
            roots[0]['script'], malformed = g.malform(roots[0]['script'])
        fine = rng.random() < 0.7
        weights = dict(main=rng.choice([1, 1, 3, 6]), recv=rng.choice([1, 3, 6]), server=rng.choice([1, 3, 6]))
        cases.append(dict(k=k, roots=roots, seed=rng.randrange(1 << 30), fine=fine, weights=weights,
                          policy=(lambda r: 'd7' if (fine and r < 0.1) else 'd7b' if (fine and k >= 2 and r < 0.17)
                                  else 'gnr' if (fine and r < 0.30 and has_next(roots)) else None)(rng.random()),
                          malformed=malformed))
    return cases


def report(ctx, case, res, source):
    st = res.get('stats', {})
    key = (case['k'], case['fine'], json.dumps(case['roots']), case['seed'])
    ctx.case(key, nontrivial=st.get('tasks', 0) > 1)
    ctx.count('k=%d' % case['k'])
    ctx.count('fine' if case['fine'] else 'coarse')
    ctx.count('malformed:%s' % case['malformed'] if case.get('malformed') else 'wellformed')
    ctx.count('events', res.get('events', 0))
    ctx.count('tasks', st.get('tasks', 0))
    ctx.count('awaits+nexts observed', st.get('obs', 0))
    if st.get('d7'):
        ctx.count('runs with a D7 double wake')
    if st.get('split_handler'):
        ctx.count('parked-thread runs (deposit_result or get_new_results split; oracle-only)')
    if st.get('retried_after_gate_timeout'):
        ctx.count('cases retried after a gate timeout')
    if 'sample' in res:
        ctx.sample(res['sample'])
    bad = False
    for f in res['findings']:
        corr = 'correspondence WorkerM.v <-> bqskit/runtime/worker.py' if f['sig'].get('call') == 'correspondence' else None
        if ctx.violation(f['sig'], dict(case, source=source), f['expected'], f['observed'], f['what'], kind='schedule', corr=corr):
            bad = True
    return bad


def run(ctx: vf.Ctx):
    _ph = {}
    _t = time.time()
    ctx.uses_translators = BUILD['translators']
    ctx.build(**BUILD)
    _ph['build (incl. waiting for the shared lock)'] = round(time.time() - _t, 1)
    ctx.rule = ('random task trees (depth<=3, fan-out<=4, submit/map mixed with await, next, next-loops in random '
                'order; ~12% with one API misuse), 1-4 real workers under the real DetachedServer, 1-2 roots / clients; '
                'every event (deliver one message to a receiving thread / run a main thread to its next gate / server '
                'handles one message) drawn from ctx.rng with per-run weights; 70% of the runs also park the main thread '
                'inside _process_await. distinct = (k, mode, task tree, schedule seed); non-trivial = more than one task')
    ctx.assumptions += [
        'handlers of the receiving thread (_add_task, _handle_result, the SUBMIT/SUBMIT_BATCH branches) are atoms of the '
        'model; the main thread is split at the gates listed in harness/rtsim.py (statement level inside _process_await)',
        'cancel-free runs only: a run in which a CANCEL is emitted is outside the theorems (flag w_oos)',
        'worker internals (threads, mailboxes, coroutines) are modelled for the flat topology; trees of managers are modelled at the '
        'routing level (rt/TreeNet.v: SUBMIT/SUBMIT_BATCH/RESULT between server, managers and worker connections; '
        'num_idle_workers and assign_tasks are oracles observed on the real nodes; UPDATE/WAITING counters are C15)',
        'coroutine mechanics, dill payloads, sockets, logging are not modelled (bodies are scripts)',
    ]
    ctx.trusted = ['Coq 8.16.1 kernel', 'ExtrOcamlBasic extraction, OCaml 4.13.1, coq/extract/worker_driver.ml, treenet_driver.ml',
                   'harness/rtsim.py (gates, fake connections) and the oracle in harness/props/c07.py; harness/c07_tree.py (fake links, stub workers, oracle)',
                   'CPython threading/queue semantics; sys.settrace line events']
    cases = []
    cdir = vf.ROOT / 'corpus' / 'C07'
    tree_corpus = []
    for f in sorted(cdir.glob('*.json')) if cdir.exists() else []:
        c = json.loads(f.read_text())
        if c.get('kind') == 'tree':          # manager-tree routing cases: harness/c07_tree.py
            tree_corpus.append(c)
            continue
        c['_source'] = 'corpus/' + f.name
        cases.append(c)
    ncorpus = len(cases)
    cases += make_cases(ctx, ctx.n(700, 12000))
    import rtsim  # noqa: F401  import bqskit once, before forking (no threads exist yet)
    t0 = time.time()
    budget = float(os.environ.get("C07_BUDGET", 0)) or ctx.n(60, 1500)
    min_cases = ncorpus + (int(os.environ.get("C07_MIN", 0)) or ctx.n(150, 1500))   # never fewer, however loaded the box is
    hard = ctx.n(900, 7200)
    bad = False
    done = 0
    retry = []
    with mp.get_context('fork').Pool(min(8, os.cpu_count() or 4)) as pool:
        it = pool.imap(_pool_run, cases, chunksize=1)
        while True:
            try:
                case, res = it.next(timeout=max(5.0, hard - (time.time() - t0)))
            except StopIteration:
                break
            except mp.TimeoutError:
                ctx.broken_obligation('co-simulation did not finish within the hard limit', 'cases done: %d' % done)
                pool.terminate()
                break
            src = case.pop('_source', 'generated')
            if _gate_timeout(res):
                retry.append((case, src))      # re-run outside the pool; reported only if it reproduces
                ctx.count('gate timeouts in the pool (re-run sequentially)')
                done += 1
                continue
            bad |= report(ctx, case, res, src)
            done += 1
            if time.time() - t0 > budget and done >= min_cases:
                pool.terminate()
                break
    for case, src in retry:
        bad |= report(ctx, case, run_case(case), src)
    ctx.cov['cases_run'] = done
    _ph['worker co-simulation pool'] = round(time.time() - t0, 1)
    _t = time.time()
    # ---- trees of managers: rt/TreeNet.v co-simulated with REAL DetachedServer + Manager objects (harness/c07_tree.py)
    import c07_tree
    for c in tree_corpus:
        bad |= bool(c07_tree.replay_tree(ctx, c))
    ctx.cov['tree_corpus_cases'] = len(tree_corpus)
    bad |= bool(c07_tree.run_tree(ctx, ctx.n(150, 1500)))
    _ph['manager-tree co-simulation'] = round(time.time() - _t, 1)
    _t = time.time()
    # ---- exhaustive exploration of the MODEL on small scenarios (all schedules, all server assignments):
    #      validates the theorems' reading of the model and searches for deadlocks (not proved in Coq)
    scen = {
        'parent+2 children': '[[sub [[ret 7]]] [sub [[ret 8]]] [aw 0] [aw 1] [ret 1]]',
        'map of 3 with next-loop': '[[map [[[ret 2]] [[ret 3]] [[ret 4]]]] [na 0] [aw 0] [ret 1]]',
        'nested submit depth 2': '[[sub [[sub [[ret 3]]] [aw 0] [ret 2]]] [aw 0] [ret 1]]',
        'map of 2, next then await': '[[map [[[ret 2]] [[ret 3]]]] [nx 0] [aw 0] [ret 1]]',
    }
    ks = [2] if ctx.quick() else [2, 3]
    expl = {}
    for name, sc in scen.items():
        for k in ks:
            for atomic in (1, 0):
                if k == 3 and 'map of 3' in name and not atomic:
                    continue
                line = vf.run_model('worker', ['explore %d %d %s %d' % (atomic, k, sc, ctx.n(300000, 3000000))])[0]
                cnt = dict((kv.split('=')[0], kv.split('=')[1]) for kv in line.split())
                expl['%s / k=%d / %s' % (name, k, 'atomic' if atomic else 'as-is')] = line
                ctx.count('model states explored', int(cnt.get('states', 0)))
                if cnt.get('truncated') == 'true':
                    ctx.count('explorations truncated')
                if int(cnt.get('deadlock', 1)) != 0:
                    ctx.violation({'call': 'explore', 'symptom': 'deadlock'}, dict(scenario=name, k=k, atomic=atomic, script=sc),
                                  'every quiescent in-scope error-free state has all tasks finished', line,
                                  'the model reaches a quiescent state with unfinished tasks', kind='schedule')
                if atomic and (int(cnt.get('double_wake', 1)) or int(cnt.get('assert_failed', 1))):
                    ctx.broken_obligation('exhaustive exploration of the atomic model contradicts C07_wake_once', line)
    ctx.cov['exhaustive_small_scenarios'] = expl
    _ph['exhaustive model exploration'] = round(time.time() - _t, 1)
    ctx.cov['phase_wall_s'] = _ph
    ctx.cov['corpus_cases'] = ncorpus
    ctx.cov['theorem_coverage'] = dict(
        proved=['C07_task_conservation (both variants)', 'C07_slot_values (both variants; await complete and in argument order, next values, client root result)',
                'C07_next_batches (+_complete)', 'C07_result_deposited_once', 'C07_wake_once (atomic registration)',
                'C07_no_deadlock_partial (no lost wake-up, atomic registration)',
                'C07_get_new_results_split_complete / _copy_refuted (statement-level get_new_results vs deposits)',
                'C07_wake_once_refuted (code as it is: D7)',
                'C07_tree_result_routing / _conservation / _hops_decrease / _drain_bounded / _progress (any well-formed tree of managers)'],
        not_proved=['C07_no_deadlock_full (Definition; the global descent is missing; oracle + exhaustive model exploration of 4 small scenarios)'],
        correspondence_only=['server relay (schedule_tasks/send_result_down observed, assignment replayed)'],
        uncovered=['worker internals under a manager tree (the two models are not composed)', 'cancellation (C12)', 'statement interleavings inside receiving-thread handlers',
                   'COMMUNICATE / LOG / IMPORTPATH messages'])
    if (ctx.broken or bad) and ctx.broken:
        # something no longer checks: search harder with the directed policy
        c07_tree.run_tree(ctx, 600)
        extra = make_cases(ctx, 300)
        for c in extra:
            c['fine'], c['policy'] = True, 'd7'
        with mp.get_context('fork').Pool(min(8, os.cpu_count() or 4)) as pool:
            for case, res in pool.imap(_pool_run, extra, chunksize=4):
                report(ctx, case, res, 'directed-search')


def replay(ctx, data):
    case = dict(data['case'])
    if case.get('kind') == 'tree':
        import c07_tree
        return c07_tree.replay_tree(ctx, case)
    src = case.pop('source', 'replay')
    res = run_case(case)
    report(ctx, case, res, src)
