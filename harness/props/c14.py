"""C14 - a crashed worker or manager unblocks every waiting client with an error.

Three legs (see design_notes/C14.md):
 1. proof obligations of coq/props/C14.v (model coq/rt/Crash.v, proofs coq/rt/CrashThm.v);
 2. in-process co-simulation: the real DetachedServer / AttachedServer / Manager `run()` loops,
    the real `send_outgoing` threads, the real `Worker.recv_incoming` and the real `Compiler`
    client methods, built with `__new__` on harness-owned FIFO links, execute random schedules
    of client calls, deliveries, ordinary traffic, crashes and EOFs; after every event the
    messages in flight, the open/closed state of every connection end, the running flags,
    the blocked clients and their outcomes are compared with the extracted Coq model, and at
    quiescence the property itself is evaluated on the implementation;
 3. real-process fault injection (SIGKILL of a worker or manager of a real attached or detached
    runtime at chosen crash points; every client call must raise within a timeout, nothing but a
    complete result may be returned, all remaining runtime processes must exit).  Each scenario
    runs in its own process inside its own network namespace (`unshare -n`), with hard timeouts.
"""
from __future__ import annotations

import json
import os
import subprocess
import sys
import threading
import time
import traceback
import types
import uuid
from concurrent.futures import ThreadPoolExecutor

if __name__ != '__main__':
    import vf

HERE = os.path.dirname(os.path.abspath(__file__))
HARNESS = os.path.dirname(HERE)

BUILD = dict(extracted=['crash'], translators=set())

# =============================================================================================
# 2. in-process co-simulation
# =============================================================================================
SETTLE_TIMEOUT = 8.0


class Hang(Exception):
    pass


class SimClosed(BaseException):
    """Raised inside the simulated nodes' threads when the Sim is torn down."""



class WorkerKilled(BaseException):
    """Raised by the patched os.kill inside Worker.recv_incoming (stands for SIGKILL of self)."""


class Net:
    """Harness-owned network: per link c the FIFOs up[c], down[c] (lists of (RuntimeMessage, payload))."""

    def __init__(self, n: int):
        self.up = [[] for _ in range(n)]
        self.down = [[] for _ in range(n)]
        self.cv = threading.Condition()
        self.closing = False


class End:
    """One end of link c.  side 'c' = the child's Connection object, 'p' = the parent's."""

    def __init__(self, net: Net, link: int, side: str):
        self.net, self.link, self.side = net, link, side
        self.closed = False
        self.peer: End = None  # type: ignore
        self.visible = 10 ** 9        # how many queued messages have "arrived" (clients only)
        self.eof_visible = True
        self.waiting = False          # a thread is blocked in recv()
        self.read_after_eof = False
        self.eof_raised = False
        self.dead = False             # owner process was SIGKILLed: a blocked recv never returns

    def __repr__(self):
        return f'<end {self.side}{self.link}>'

    def _out(self):
        return self.net.up[self.link] if self.side == 'c' else self.net.down[self.link]

    def _in(self):
        return self.net.down[self.link] if self.side == 'c' else self.net.up[self.link]

    def send(self, m):
        if self.closed:
            raise OSError('handle is closed')
        with self.net.cv:
            self._out().append(m)

    def close(self):
        self.closed = True

    def _ready(self):
        q = self._in()
        if q and self.visible > 0:
            return 'msg'
        if not q and self.peer.closed and self.eof_visible:
            return 'eof'
        return None

    def poll(self, timeout=0.0):
        if self.closed:
            raise OSError('handle is closed')
        with self.net.cv:
            return self._ready() is not None

    def recv(self):
        if self.closed:
            raise OSError('handle is closed')
        with self.net.cv:
            if self.eof_raised:
                self.read_after_eof = True
            while True:
                r = None if self.dead else self._ready()
                if r == 'msg':
                    if self.visible < 10 ** 8:
                        self.visible -= 1
                    return self._in().pop(0)
                if r == 'eof':
                    self.eof_raised = True
                    raise EOFError
                self.waiting = True
                self.net.cv.notify_all()
                self.net.cv.wait(0.05)
                self.waiting = False
                if self.net.closing:
                    raise SimClosed()
                if self.read_after_eof:
                    self.waiting = True
                    while True:        # a reader that ignores EOF: park it until the Sim is torn down
                        self.net.cv.wait(0.2)
                        if self.net.closing:
                            raise SimClosed()


class FakeKey:
    def __init__(self, fileobj, data):
        self.fileobj, self.data = fileobj, data


class FakeSelector:
    """Stands for selectors.DefaultSelector: select() blocks until the harness feeds one ready connection."""

    def __init__(self):
        self.cv = threading.Condition()
        self.reg: dict = {}
        self.feed = None
        self.waiting = False
        self.closed = False
        self.abandoned = False
        self.stop = False

    def register(self, conn, events, data):
        self.reg[conn] = data

    def unregister(self, conn):
        if conn not in self.reg:
            raise KeyError(conn)
        del self.reg[conn]

    def close(self):
        self.closed = True
        self.reg.clear()

    def select(self, timeout=None):
        with self.cv:
            while self.feed is None or self.abandoned:
                self.waiting = True
                self.cv.notify_all()
                self.cv.wait(0.05)
                if self.stop:
                    raise SimClosed()
            self.waiting = False
            conn = self.feed
            self.feed = None
        if conn in self.reg:
            return [(FakeKey(conn, self.reg[conn]), 1)]
        return []


class FakeQueue:
    """Stands for the `outgoing` queue.Queue of a boss: the real send_outgoing thread drains it."""

    def __init__(self):
        self.cv = threading.Condition()
        self.items: list = []
        self.idle = False
        self.stop = False

    def put(self, x):
        with self.cv:
            self.items.append(x)
            self.idle = False
            self.cv.notify_all()

    def get(self):
        with self.cv:
            while not self.items:
                self.idle = True
                self.cv.notify_all()
                self.cv.wait(0.05)
                if self.stop:
                    raise SimClosed()
            self.idle = False
            return self.items.pop(0)

    def task_done(self):
        pass

    def empty(self):
        return not self.items


class FakeProcess:
    def __init__(self):
        self.joined = 0

    def join(self, timeout=None):
        self.joined += 1


class FakeTask:
    """Stands for CompilationTask on the wire (only the attributes the server reads)."""

    def __init__(self, tid):
        self.task_id = tid
        self.logging_level = 30
        self.max_logging_depth = -1


_patched = False


def _patch_modules():
    """sleep(1) in handle_system_error and os.kill in the worker are replaced; nothing in /repo is edited."""
    global _patched
    if _patched:
        return
    import bqskit.runtime.detached as dmod
    import bqskit.runtime.manager as mmod
    import bqskit.runtime.worker as wmod
    shim = types.SimpleNamespace(sleep=lambda s: None, time=time.time)
    dmod.time = shim
    mmod.time = shim

    def kill(pid, sig):
        raise WorkerKilled()
    wmod.os = types.SimpleNamespace(kill=kill, getpid=os.getpid)
    # assign_tasks: shuffle / tie-break are oracles of the scheduler (C15); fixed here so that directed scripts are stable
    import bqskit.runtime.base as bmod
    bmod.random = types.SimpleNamespace(shuffle=lambda l: None, random=lambda: 0.5)
    import logging
    logging.getLogger('bqskit').setLevel(logging.CRITICAL + 10)   # the handlers log the expected tracebacks
    _patched = True


class Sim:
    """The real runtime objects of one topology on a harness-owned network."""

    def __init__(self, topo: list[tuple[str, int]], attached: bool):
        from bqskit.ir.circuit import Circuit  # noqa: F401 (import order)
        from bqskit.runtime.attached import AttachedServer
        from bqskit.runtime.base import RuntimeEmployee
        from bqskit.runtime.detached import DetachedServer
        from bqskit.runtime.direction import MessageDirection as D
        from bqskit.runtime.manager import Manager
        from bqskit.runtime.worker import Worker
        from bqskit.compiler.compiler import Compiler
        _patch_modules()
        self.topo, self.attached = topo, attached
        n = len(topo)
        self.n = n
        self.net = Net(n)
        self.kind = [k for k, _ in topo]
        self.par = [p for _, p in topo]
        self.children = [[c for c in range(1, n) if self.par[c] == i] for i in range(n)]
        self.cend = [None] * n
        self.pend = [None] * n
        for c in range(1, n):
            a, b = End(self.net, c, 'c'), End(self.net, c, 'p')
            a.peer, b.peer = b, a
            self.cend[c], self.pend[c] = a, b
        self.obj = [None] * n
        self.threads: dict[int, list[threading.Thread]] = {i: [] for i in range(n)}
        self.crashed = [False] * n
        self.worker_exit = [None] * n
        self.calls: dict[int, dict] = {}
        self.outcomes: list[list[str]] = [[] for _ in range(n)]
        self.uu: dict[int, uuid.UUID] = {}      # model uuid number -> real uuid
        self.errors: list[str] = []
        # id ranges as connect_to_managers / spawn_workers compute them
        self.lb = [0] * n
        self.ub = [0] * n
        self.ub[0] = 2 ** 30
        self.step = [1] * n
        self.wid = [0] * n
        for i in range(n):
            if self.kind[i] in 'SM':
                emps = [c for c in self.children[i] if self.kind[c] != 'C']
                if emps and self.kind[emps[0]] == 'M':
                    st = (self.ub[i] - self.lb[i]) // len(emps)
                    self.step[i] = st
                    for j, c in enumerate(emps):
                        self.lb[c] = self.lb[i] + j * st
                        self.ub[c] = min(self.lb[i] + (j + 1) * st, self.ub[i])
                else:
                    self.step[i] = 1
                    for j, c in enumerate(emps):
                        self.wid[c] = self.lb[i] + j

        def total_workers(i):
            if self.kind[i] == 'W':
                return 1
            return sum(total_workers(c) for c in self.children[i] if self.kind[c] != 'C')

        for i in range(n):
            k = self.kind[i]
            if k in 'SM':
                cls = (AttachedServer if attached else DetachedServer) if k == 'S' else Manager
                o = cls.__new__(cls)
                o.lower_id_bound, o.upper_id_bound = self.lb[i], self.ub[i]
                o.running = True
                o.sel = FakeSelector()
                o.employees = []
                o.conn_to_employee_dict = {}
                o.outgoing = FakeQueue()
                o.step_size = self.step[i]
                for j, c in enumerate(c for c in self.children[i] if self.kind[c] != 'C'):
                    is_m = self.kind[c] == 'M'
                    e = RuntimeEmployee(j if is_m else self.wid[c], self.pend[c], total_workers(c),
                                        None if is_m else FakeProcess(), is_m)
                    o.employees.append(e)
                    o.conn_to_employee_dict[self.pend[c]] = e
                    o.sel.register(self.pend[c], 1, D.BELOW)
                o.total_workers = total_workers(i)
                o.num_idle_workers = o.total_workers
                if k == 'S':
                    o.clients, o.tasks, o.mailbox_to_task_dict, o.mailboxes, o.mailbox_counter = {}, {}, {}, {}, 0
                    for c in self.children[i]:
                        if self.kind[c] == 'C':
                            o.clients[self.pend[c]] = set()
                            o.sel.register(self.pend[c], 1, D.CLIENT)
                else:
                    o.upstream = self.cend[i]
                    o.sel.register(o.upstream, 1, D.ABOVE)
                    o.last_num_idle_sent_up = o.total_workers
                    o.most_recent_read_submit = None
                o.outgoing_thread = threading.Thread(target=self._guard(i, o.send_outgoing), daemon=True)
                o.outgoing_thread.start()
                t = threading.Thread(target=self._guard(i, o.run), daemon=True)
                t.start()
                self.threads[i] = [t]
                self.obj[i] = o
            elif k == 'W':
                w = Worker.__new__(Worker)
                w._id = self.wid[i]
                w._conn = self.cend[i]
                w._running = True
                self.cend[i].visible = 0
                self.cend[i].eof_visible = False
                self.obj[i] = w
                t = threading.Thread(target=self._wguard(i, w.recv_incoming), daemon=True)
                t.start()
                self.threads[i] = [t]
            else:
                c = Compiler.__new__(Compiler)
                c.p = None
                c.conn = self.cend[i]
                self.cend[i].visible = 0
                self.cend[i].eof_visible = False
                self.obj[i] = c
        for i in range(n):
            if self.kind[i] in 'SMW':
                self.settle(i)

    # -- thread wrappers -------------------------------------------------------------------
    def _guard(self, i, fn):
        def run():
            try:
                fn()
            except SimClosed:
                pass
            except BaseException as e:  # noqa
                self.errors.append(f'node {i} thread {fn.__name__}: {type(e).__name__}: {e}')
            # NB: the sockets a boss process still holds when run() returns would be closed by the OS at process
            # exit; this is deliberately not simulated: the handlers close every connection themselves, and the
            # comparison is about what the handlers close (a server that stopped closing its client connections
            # is reported even though the kernel would eventually close them).
        return run

    def _process_exit(self, i):
        """The process of node i is gone: the OS closes whatever it still had open."""
        if i > 0:
            self.cend[i].closed = True
        for c in self.children[i]:
            self.pend[c].closed = True

    def _wguard(self, i, fn):
        def run():
            try:
                fn()
                self.worker_exit[i] = 'returned'
            except WorkerKilled:
                self.worker_exit[i] = 'killed'
            except SimClosed:
                return
            except BaseException as e:  # noqa
                self.worker_exit[i] = f'exc {type(e).__name__}'
            self._process_exit(i)
        return run

    def close(self):
        """Let every thread of this Sim end (they poll these flags)."""
        self.net.closing = True
        for i in range(self.n):
            o = self.obj[i]
            if self.kind[i] in 'SM':
                o.sel.stop = True
                o.outgoing.stop = True

    # -- settling --------------------------------------------------------------------------------
    def settle(self, i: int):
        """Wait until every thread of node i is blocked (in select / queue.get / recv) or has ended."""
        t0 = time.time()
        k = self.kind[i]
        while True:
            if k in 'SM':
                o = self.obj[i]
                run_t = self.threads[i][0]
                main_ok = (not run_t.is_alive()) or (o.sel.waiting and o.sel.feed is None)
                out_ok = (not o.outgoing_thread.is_alive()) or (o.outgoing.idle and not o.outgoing.items)
                if main_ok and out_ok:
                    return
            elif k == 'W':
                t = self.threads[i][0]
                if not t.is_alive() or (self.cend[i].waiting and self.cend[i]._ready() is None) \
                        or self.cend[i].read_after_eof:
                    return
            else:
                call = self.calls.get(i)
                if call is None or not call['thread'].is_alive() or \
                        (self.cend[i].waiting and self.cend[i]._ready() is None):
                    return
            if time.time() - t0 > SETTLE_TIMEOUT:
                raise Hang(f'node {i} ({k}) did not settle')
            time.sleep(0.0003)

    # -- events --------------------------------------------------------------------------------------
    def enabled_recvs(self) -> list[tuple[str, int]]:
        res = []
        for c in range(1, self.n):
            p = self.par[c]
            if self.alive(p) and not self.pend[c].closed and (self.net.up[c] or self.cend[c].closed):
                res.append(('U', c))
            if self.alive(c) and not self._cend_closed(c) and (self.net.down[c] or self.pend[c].closed):
                if self.kind[c] != 'C' or self.blocked(c):
                    res.append(('D', c))
        return res

    def recv(self, up: bool, c: int, k: int):
        if up:
            p = self.par[c]
            o = self.obj[p]
            with o.sel.cv:
                o.sel.feed = self.pend[c]
                o.sel.waiting = False
                o.sel.cv.notify_all()
            self.settle(p)
        elif self.kind[c] == 'M':
            o = self.obj[c]
            with o.sel.cv:
                o.sel.feed = self.cend[c]
                o.sel.waiting = False
                o.sel.cv.notify_all()
            self.settle(c)
        elif self.kind[c] == 'W':
            # ordinary traffic towards a worker is replaced by a harmless IMPORTPATH (the worker's reaction to
            # ordinary traffic is abstract in the model); SHUTDOWN and EOF are delivered as they are
            from bqskit.runtime.message import RuntimeMessage as M
            e = self.cend[c]
            with self.net.cv:
                q = self.net.down[c]
                if q and q[0][0] != M.SHUTDOWN:
                    q[0] = (M.IMPORTPATH, [])
                e.visible = 1 if q else 0
                e.eof_visible = not q
                e.waiting = False
                self.net.cv.notify_all()
            self.settle(c)
            with self.net.cv:
                e.visible = 0
                e.eof_visible = False
        else:
            e = self.cend[c]
            with self.net.cv:
                q = self.net.down[c]
                e.visible = min(k, len(q))
                e.eof_visible = k > len(q)
                e.waiting = False
                self.net.cv.notify_all()
            self.settle(c)
            with self.net.cv:
                e.visible = 0
                e.eof_visible = False
            self._client_done(c)

    def call(self, c: int, kind: str, u: int, k: int):
        comp = self.obj[c]
        from bqskit.runtime.message import RuntimeMessage as M
        if kind == 'S':
            self.uu[u] = uuid.uuid4()
            task = FakeTask(self.uu[u])

            def fn():
                comp._send(M.SUBMIT, task)      # Compiler.submit after building the CompilationTask
                return 'SUB%d' % u
        elif kind == 'R':
            def fn():
                return 'RES_%r' % (comp.result(self.uu[u]),)
        else:
            def fn():
                st = comp.status(self.uu[u])
                return 'STAT_%s' % ('T' if getattr(st, 'name', '') == 'DONE' else 'F')
        rec = dict(kind=kind, u=u, done=False, out=None)

        def run():
            try:
                rec['out'] = fn()
            except Exception as e:  # noqa
                # Compiler._send/_send_recv convert every failure into RuntimeError
                rec['out'] = 'RAISED' if type(e) is RuntimeError else 'RAISED:' + type(e).__name__
                rec['exc'] = f'{type(e).__name__}: {e}'
            rec['done'] = True
        e = self.cend[c]
        with self.net.cv:
            q = self.net.down[c]
            e.visible = min(k, len(q))
            e.eof_visible = k > len(q)
        t = threading.Thread(target=run, daemon=True)
        rec['thread'] = t
        self.calls[c] = rec
        t.start()
        self.settle(c)
        with self.net.cv:
            e.visible = 0
            e.eof_visible = False
        self._client_done(c)

    def _client_done(self, c):
        rec = self.calls.get(c)
        if rec is not None and rec['done']:
            self.outcomes[c].insert(0, rec['out'])
            del self.calls[c]
        if self.obj[c].conn is None:
            self.cend[c].closed = True       # the dropped Connection object is garbage collected

    def emit_up(self, w: int, msg, payload):
        self.cend[w].send((msg, payload))

    def crash(self, n: int):
        self.crashed[n] = True
        o = self.obj[n]
        if self.kind[n] == 'M':
            o.sel.abandoned = True
        self.cend[n].dead = True
        self.cend[n].closed = True
        for c in self.children[n]:
            self.pend[c].closed = True

    # -- observations ------------------------------------------------------------------------------------
    def alive(self, i: int) -> bool:
        if self.crashed[i]:
            return False
        k = self.kind[i]
        if k in 'SM':
            return bool(self.obj[i].running) and self.threads[i][0].is_alive()
        if k == 'W':
            return self.threads[i][0].is_alive()
        return True

    def _cend_closed(self, i: int) -> bool:
        if self.kind[i] == 'C':
            return self.obj[i].conn is None or self.cend[i].closed
        return self.cend[i].closed

    def blocked(self, c: int) -> bool:
        return c in self.calls and not self.calls[c]['done']

    def tag(self, m) -> str:
        from bqskit.runtime.message import RuntimeMessage as M
        msg, payload = m
        if msg == M.SHUTDOWN:
            return 'SHUTDOWN'
        if msg == M.ERROR:
            return 'SYSERR' if isinstance(payload, str) else 'ORD%d' % int(msg)
        if msg == M.RESULT and hasattr(payload, 'return_address') and payload.return_address.worker_id == -1:
            return 'RES%d_%s' % (payload.return_address.mailbox_index, payload.result)
        return 'ORD%d' % int(msg)

    def ctag(self, m, up: bool) -> str:
        from bqskit.runtime.message import RuntimeMessage as M
        msg, payload = m
        inv = {v: k for k, v in self.uu.items()}
        if up:
            if msg == M.SUBMIT:
                return 'CSUB%d' % inv.get(payload.task_id, -1)
            if msg == M.REQUEST:
                return 'CREQ%d' % inv.get(payload, -1)
            if msg == M.STATUS:
                return 'CSTAT%d' % inv.get(payload, -1)
            return 'ORD%d' % int(msg)
        if msg == M.RESULT:
            return 'SRES_%s' % (payload,)
        if msg == M.STATUS:
            return 'SSTAT_%s' % ('T' if getattr(payload, 'name', '') == 'DONE' else 'F')
        if msg == M.ERROR:
            return 'SERR'
        return 'ORD%d' % int(msg)

    def observe(self) -> list:
        res = []
        for i in range(self.n):
            if i == 0:
                res.append(['T' if self.alive(0) else 'F', 'F', 'F', [], [], '-', []])
                continue
            isc = self.kind[i] == 'C'
            up = [self.ctag(m, True) if isc else self.tag(m) for m in self.net.up[i]]
            dn = [self.ctag(m, False) if isc else self.tag(m) for m in self.net.down[i]]
            bl = '-'
            if isc and self.blocked(i):
                bl = self.calls[i]['kind'] + str(self.calls[i]['u'])
            res.append(['T' if self.alive(i) else 'F', 'F' if self._cend_closed(i) else 'T',
                        'F' if self.pend[i].closed else 'T', up, dn, bl, list(self.outcomes[i])])
        return res


# ---------------------------------------------------------------------------------------------
# schedules
# ---------------------------------------------------------------------------------------------
def fmt(x) -> str:
    if isinstance(x, (list, tuple)):
        return '[' + ' '.join(fmt(y) for y in x) + ']'
    return str(x)


def parse_val(s: str):
    toks = s.replace('[', ' [ ').replace(']', ' ] ').split()
    pos = 0

    def items():
        nonlocal pos
        out = []
        while pos < len(toks):
            t = toks[pos]
            pos += 1
            if t == '[':
                out.append(items())
            elif t == ']':
                return out
            else:
                out.append(t)
        return out
    return items()


def canon_model_obs(o):
    """Model observation -> the form Sim.observe() produces (ghost uuid dropped from server->client messages
    and from outcomes, which carry no task id on the real wire)."""
    import re
    nodes = []
    for nd in o[0]:
        al, ce, pe, up, dn, bl, outs = nd
        dn = [re.sub(r'^SRES\d+_', 'SRES_', re.sub(r'^SSTAT\d+_', 'SSTAT_', m)) for m in dn]
        outs = [re.sub(r'^RES\d+_', 'RES_', re.sub(r'^STAT\d+_', 'STAT_', m)) for m in outs]
        nodes.append([al, ce, pe, up, dn, bl, outs])
    return nodes


def random_topology(rng, nested=False):
    """(topology, attached).  kinds S/M/W/C with parent index; parents precede children."""
    if nested:
        topo = [('S', 0), ('M', 0)]
        for _ in range(rng.randint(1, 2)):
            topo.append(('M', 1))
            m = len(topo) - 1
            for _ in range(rng.randint(1, 2)):
                topo.append(('W', m))
        topo.append(('C', 0))
        return topo, False
    if rng.random() < 0.35:
        topo = [('S', 0)] + [('W', 0)] * rng.randint(2, 3) + [('C', 0)]
        return topo, True
    topo = [('S', 0)]
    for _ in range(rng.randint(1, 3)):
        topo.append(('M', 0))
        m = len(topo) - 1
        for _ in range(rng.randint(1, 3)):
            topo.append(('W', m))
    for _ in range(rng.randint(1, 3)):
        topo.append(('C', 0))
    return topo, False


def run_schedule(topo, attached, script=None, rng=None, crash_plan=None, max_events=70):
    """Execute one schedule on the real objects; returns (model events, per-event compare index, real observations,
    info).  `script` = explicit list of harness events (replay / directed) or None for a random schedule."""
    import pickle
    from bqskit.runtime.address import RuntimeAddress
    from bqskit.runtime.message import RuntimeMessage as M
    from bqskit.runtime.result import RuntimeResult
    sim = Sim(topo, attached)
    n = sim.n
    mev: list = []              # model events
    cmp_at: list[int] = []      # after how many model events each real observation was taken
    robs: list = [sim.observe()]
    hev: list = []              # harness events actually executed (the replayable script)
    info = dict(crashes=0, finished=[], emits=0, calls=0, recvs=0, eofs=0, hang=None, own={})
    lens = lambda: ([len(q) for q in sim.net.up], [len(q) for q in sim.net.down])  # noqa: E731

    def ordinary_new(before, consumed=None):
        """EEmit events for the ordinary messages the real handlers put on the links during the last event."""
        bu, bd = before
        evs = []
        for c in range(1, n):
            isc = sim.kind[c] == 'C'
            if consumed != ('U', c):       # the reader of a FIFO only removes from its front
                for m in sim.net.up[c][bu[c]:]:
                    t = sim.ctag(m, True) if isc else sim.tag(m)
                    if t.startswith('ORD'):
                        evs.append(['emit', 'U', c, int(t[3:])])
            if consumed != ('D', c):
                for m in sim.net.down[c][bd[c]:]:
                    t = sim.ctag(m, False) if isc else sim.tag(m)
                    if t.startswith('ORD'):
                        evs.append(['emit', 'D', c, int(t[3:])])
        return evs

    def do(h):
        before = lens()
        kind = h[0]
        extra = []
        try:
            if kind == 'crash':
                sim.crash(h[1])
                mev.append(['crash', h[1]])
                info['crashes'] += 1
            elif kind == 'recv':
                up, c, k = h[1] == 'U', h[2], h[3]
                q = sim.net.up[c] if up else sim.net.down[c]
                if not q:
                    info['eofs'] += 1
                elif up and sim.kind[c] == 'C' and q[0][0] == M.SUBMIT and sim.alive(0):
                    # the mailbox the server is about to allocate for this client's submission (independent bookkeeping
                    # for the property oracle: which root tasks belong to which client)
                    info['own'].setdefault(str(c), []).append(sim.obj[0].mailbox_counter)
                info['recvs'] += 1
                sim.recv(up, c, k)
                mev.append(['recv', h[1], c, k])
                extra = ordinary_new(before, (h[1], c))
            elif kind == 'call':
                c, ck, u, k = h[1], h[2], h[3], h[4]
                sim.call(c, ck, u, k)
                mev.append(['call', c, ck, u, k])
                info['calls'] += 1
            elif kind == 'finish':
                w, t = h[1], h[2]
                sim.emit_up(w, M.RESULT, RuntimeResult(RuntimeAddress(-1, t, 0), t + 1, sim.wid[w]))
                mev.append(['finish', w, t])
                info['finished'].append(t)
            elif kind == 'emit':
                w, mk = h[1], h[2]
                payload = {int(M.WAITING): (1, None), int(M.UPDATE): 0,
                           int(M.LOG): (h[3] if len(h) > 3 else 0, pickle.dumps(('c14', 10, 'x'))),
                           int(M.CANCEL): RuntimeAddress(sim.wid[w], 0, 0)}[mk]
                sim.emit_up(w, M(mk), payload)
                mev.append(['emit', 'U', w, mk])
                info['emits'] += 1
            elif kind == 'fail':
                # Worker._loop: exception in runtime code -> ERROR(str) to the boss, loop ends, process exits
                sim.emit_up(h[1], M.ERROR, 'Traceback (most recent call last): c14 injected runtime error')
                sim.crash(h[1])
                mev.append(['fail', h[1]])
                info['crashes'] += 1
        except Hang as e:
            info['hang'] = f'{e} during {h}'
        mev.extend(extra)
        hev.append(h)
        cmp_at.append(len(mev))
        robs.append(sim.observe())

    if script is not None:
        for h in script:
            if h[0] == 'drain':          # deliver whatever is enabled (first enabled link, everything arrived) until quiescent
                for _ in range(300):
                    en = sim.enabled_recvs()
                    if not en or info['hang']:
                        break
                    d, c = en[0]
                    q = sim.net.up[c] if d == 'U' else sim.net.down[c]
                    k = len(q) + (1 if sim.pend[c].closed else 0) if (d == 'D' and sim.kind[c] == 'C') else 0
                    do(['recv', d, c, k])
                continue
            do(h)
            if info['hang']:
                break
        return sim, mev, cmp_at, robs, hev, info

    # ---- random schedule -------------------------------------------------------------------------
    workers = [i for i in range(n) if sim.kind[i] == 'W']
    managers = [i for i in range(n) if sim.kind[i] == 'M']
    clients = [i for i in range(n) if sim.kind[i] == 'C']
    next_u = [0]
    submitted: dict[int, list[int]] = {c: [] for c in clients}
    requested: set[int] = set()
    ncalls = {c: 0 for c in clients}
    crash_at = sorted(crash_plan or [])
    steps = 0
    while steps < max_events and not info['hang']:
        steps += 1
        if crash_at and steps >= crash_at[0][0]:
            _, who = crash_at.pop(0)
            cands = [i for i in (workers if who == 'W' else managers) if sim.alive(i)]
            if cands:
                v = rng.choice(cands)
                do(['fail', v] if who == 'W' and rng.random() < 0.25 and not sim.cend[v].closed else ['crash', v])
                continue
        en = sim.enabled_recvs()
        choices = []
        srv_up = sim.alive(0)
        for c in clients:
            if not sim.blocked(c) and ncalls[c] < 5:
                if sim.obj[c].conn is not None or rng.random() < 0.3:
                    choices += [('call', c)] * 2
        if en:
            choices += [('recv',)] * 6
        live_w = [w for w in workers if sim.alive(w) and not sim.cend[w].closed]
        if live_w and steps < max_events - 25:
            choices += [('emit',)] * 2
            if any(submitted[c] for c in clients):
                choices += [('finish',)] * 2
        if not choices:
            break
        ch = rng.choice(choices)
        if ch[0] == 'recv':
            d, c = rng.choice(en)
            q = sim.net.up[c] if d == 'U' else sim.net.down[c]
            k = 0
            if d == 'D' and sim.kind[c] == 'C':
                hi = len(q) + (1 if sim.pend[c].closed else 0)
                k = rng.randint(1, max(1, hi))
                if rng.random() < 0.5:
                    k = max(1, hi)
            do(['recv', d, c, k])
        elif ch[0] == 'call':
            c = ch[1]
            ncalls[c] += 1
            q = sim.net.down[c]
            hi = len(q) + (1 if sim.pend[c].closed else 0)
            k = rng.choice([0, hi, rng.randint(0, hi)])
            opts = ['S']
            pend_r = [u for u in submitted[c] if u not in requested]
            if pend_r:
                opts += ['R', 'R', 'T']
            ck = rng.choice(opts)
            if ck == 'S':
                u = next_u[0]
                next_u[0] += 1
                submitted[c].append(u)
                do(['call', c, 'S', u, k])
                if sim.outcomes[c] and sim.outcomes[c][0] == 'RAISED':
                    submitted[c].pop()
            else:
                u = rng.choice(pend_r)
                if ck == 'R':
                    requested.add(u)
                do(['call', c, ck, u, k])
        elif ch[0] == 'emit':
            w = rng.choice(live_w)
            mk = rng.choice([int(M.WAITING), int(M.UPDATE), int(M.LOG), int(M.CANCEL)])
            tid = rng.randint(0, 2)
            do(['emit', w, mk, tid])
        elif ch[0] == 'finish':
            w = rng.choice(live_w)
            nmb = getattr(sim.obj[0], 'mailbox_counter', 0)
            t = rng.randint(0, max(0, nmb)) if nmb else 0
            do(['finish', w, t])
    # drain: deliver until nothing is enabled (fair continuation)
    guard = 0
    while not info['hang'] and guard < 400:
        guard += 1
        en = sim.enabled_recvs()
        if not en:
            break
        d, c = rng.choice(en)
        q = sim.net.up[c] if d == 'U' else sim.net.down[c]
        k = 0
        if d == 'D' and sim.kind[c] == 'C':
            k = len(q) + (1 if sim.pend[c].closed else 0)
            if len(q) > 1 and rng.random() < 0.5:
                k = rng.randint(1, len(q))
        do(['recv', d, c, k])
    return sim, mev, cmp_at, robs, hev, info


crash_plan_allows_nested = False


def model_line(topo, attached, budget, mev) -> str:
    return 'run %s %s %d %s' % (fmt([[k, p] for k, p in topo]), 'T' if attached else 'F', budget, fmt(mev))


def property_oracle(sim: Sim, info: dict) -> list[dict]:
    """The property itself, evaluated on the implementation's final (quiescent) state only."""
    probs = []
    if info['crashes'] == 0 or sim.enabled_recvs():
        return probs
    left = [i for i in range(sim.n) if sim.kind[i] != 'C' and sim.alive(i)]
    if left:
        probs.append(dict(symptom='runtime_survives', roles=sorted({sim.kind[i] for i in left}),
                          nested=any(sim.kind[sim.par[i]] == 'M' and sim.kind[i] == 'M' for i in range(1, sim.n))))
    for c in range(1, sim.n):
        if sim.kind[c] != 'C':
            continue
        if not sim.pend[c].closed and not left:
            probs.append(dict(symptom='client_connection_left_open', client=c))
        if sim.blocked(c) and not left:
            probs.append(dict(symptom='client_blocked_for_ever', client=c))
    # nothing but the complete output of one of its own tasks is returned as a result
    for c in range(1, sim.n):
        if sim.kind[c] != 'C':
            continue
        own_mb = set(info['own'].get(str(c), []))
        for o in sim.outcomes[c]:
            if o.startswith('RES_'):
                try:
                    v = int(o[4:])
                except ValueError:
                    v = None
                if v is None or (v - 1) not in own_mb or (v - 1) not in info['finished']:
                    probs.append(dict(symptom='wrong_or_partial_result', client=c, got=o))
            elif o not in ('RAISED',) and not o.startswith(('SUB', 'STAT_')):
                probs.append(dict(symptom='call_returned_garbage', client=c, got=o))
    for i in range(sim.n):
        if sim.kind[i] == 'W' and not sim.crashed[i] and not sim.alive(i) and sim.worker_exit[i] != 'killed':
            probs.append(dict(symptom='worker_left_without_kill', how=sim.worker_exit[i]))
    return probs


def outgoing_thread_oracle() -> dict | None:
    """ServerBase.send_outgoing catches ConnectionResetError and calls handle_disconnect *from the outgoing
    thread*; handle_shutdown then joins the outgoing thread from itself.  Returns a description of what the
    implementation does (deterministic: a connection whose send raises ConnectionResetError)."""
    from bqskit.runtime.message import RuntimeMessage as M
    topo = [('S', 0), ('W', 0), ('W', 0), ('C', 0)]
    sim = Sim(topo, False)
    srv = sim.obj[0]
    orig = sim.pend[1].send

    def bad_send(m):
        raise ConnectionResetError(104, 'Connection reset by peer')
    sim.pend[1].send = bad_send
    srv.outgoing.put((sim.pend[1], M.CANCEL, None))
    t0 = time.time()
    while srv.outgoing_thread.is_alive() and time.time() - t0 < 3:
        time.sleep(0.005)
    sim.pend[1].send = orig
    sim.close()
    res = dict(thread_alive=srv.outgoing_thread.is_alive(), running=srv.running, errors=list(sim.errors),
               client_closed=sim.pend[3].closed, other_worker_got=[sim.tag(m) for m in sim.net.down[2]],
               selector_closed=srv.sel.closed)
    return res


# =============================================================================================
# 3. real-process fault injection (runs in a child process: `python c14.py fault '<json>'`)
# =============================================================================================
import glob      # noqa: E402
import shutil    # noqa: E402
import signal    # noqa: E402
import socket    # noqa: E402
import tempfile  # noqa: E402

try:
    import psutil  # noqa: E402
except Exception:  # pragma: no cover
    psutil = None

T_RAISE = 30.0     # a blocked client call must return within this many seconds of the (last) kill
T_EXIT = 30.0      # remaining runtime processes must be gone this long after the (last) kill
T_SLOW = 45.0      # extra observation time to tell "slow" from "never"


def free_ports(n: int) -> list[int]:
    import random
    rng = random.Random(os.getpid() * 7919 + int(time.time() * 1000))
    out: list[int] = []
    while len(out) < n:
        p = rng.randrange(20000, 32000)
        if p in out:
            continue
        s = socket.socket()
        try:
            s.bind(('0.0.0.0', p))
        except OSError:
            continue
        finally:
            s.close()
        out.append(p)
    return out


def listening(port: int) -> bool:
    want = '%04X' % port
    for f in ('/proc/net/tcp', '/proc/net/tcp6'):
        try:
            for ln in open(f).read().splitlines()[1:]:
                c = ln.split()
                if c[3] == '0A' and c[1].endswith(':' + want):
                    return True
        except OSError:
            pass
    return False


def wait_listen(port: int, timeout: float) -> bool:
    t0 = time.time()
    while time.time() - t0 < timeout:
        if listening(port):
            return True
        time.sleep(0.05)
    return False


_LOGN = [0]


def py(code: str) -> subprocess.Popen:
    ld = os.environ.get('C14_LOGDIR')
    err = subprocess.DEVNULL
    if ld:
        _LOGN[0] += 1
        err = open(os.path.join(ld, f'proc{os.getpid()}_{_LOGN[0]}.err'), 'w')
    return subprocess.Popen([sys.executable, '-c', code], stdout=subprocess.DEVNULL, stderr=err,
                            start_new_session=True)


def alive(pid: int) -> bool:
    try:
        p = psutil.Process(pid)
        return p.status() != psutil.STATUS_ZOMBIE
    except psutil.NoSuchProcess:
        return False


def kids(pid: int) -> list[int]:
    try:
        return [c.pid for c in psutil.Process(pid).children(recursive=False)]
    except psutil.NoSuchProcess:
        return []


class Runtime:
    """A started runtime: pids by role, and the client port."""

    def __init__(self, sc: dict):
        self.sc = sc
        self.procs: list[subprocess.Popen] = []
        self.server = 0
        self.managers: list[int] = []      # level-1 managers (own workers), in order
        self.top_managers: list[int] = []  # nested: managers of managers
        self.workers: dict[int, list[int]] = {}   # boss pid -> worker pids
        self.port = 0

    def start(self) -> None:
        sc = self.sc
        nw = sc.get('workers', 2)
        if sc['mode'] == 'attached':
            self.port, wp = free_ports(2)
            p = py('from bqskit.runtime.attached import start_attached_server; '
                   f'start_attached_server({nw}, port={self.port}, worker_port={wp}, log_level=30, num_blas_threads=1)')
            self.procs.append(p)
            self.server = p.pid
            self.attached_popen = p
            return
        nm = sc.get('managers', 2)
        nested = sc.get('nested', False)
        ports = free_ports(2 * nm + 2)
        self.port = ports[-1]
        mports = []
        for i in range(nm):
            mp, wp = ports[2 * i], ports[2 * i + 1]
            p = py(f"import sys; sys.argv=['bqskit-manager','-n','{nw}','-p','{mp}','-w','{wp}']; "
                   'from bqskit.runtime.manager import start_manager; start_manager()')
            self.procs.append(p)
            self.managers.append(p.pid)
            mports.append(mp)
        for mp in mports:
            if not wait_listen(mp, 60):
                raise RuntimeError('manager did not start listening')
        if nested:
            tp = ports[-2]
            ms = ','.join(f'localhost:{mp}' for mp in mports)
            p = py(f"import sys; sys.argv=['bqskit-manager','-m','{ms}','-p','{tp}']; "
                   'from bqskit.runtime.manager import start_manager; start_manager()')
            self.procs.append(p)
            self.top_managers.append(p.pid)
            if not wait_listen(tp, 60):
                raise RuntimeError('top manager did not start listening')
            mports = [tp]
        args = ','.join(repr(f'localhost:{mp}') for mp in mports)
        p = py(f"import sys; sys.argv=['bqskit-server',{args},'-p','{self.port}']; "
               'from bqskit.runtime.detached import start_server; start_server()')
        self.procs.append(p)
        self.server = p.pid
        if not wait_listen(self.port, 90):
            raise RuntimeError('server did not start listening for clients')

    def connect(self):
        from bqskit.compiler.compiler import Compiler
        if self.sc['mode'] == 'attached':
            c = Compiler.__new__(Compiler)   # Compiler.__init__ cannot pass a client port to the attached server
            c.p = self.attached_popen
            c.conn = None
            c._connect_to_server('localhost', self.port, True)
            return c
        return Compiler('localhost', self.port)

    def inventory(self) -> None:
        if self.sc['mode'] == 'attached':
            self.workers[self.server] = kids(self.server)
        else:
            for m in self.managers:
                self.workers[m] = kids(m)

    def all_workers(self) -> list[int]:
        return [w for ws in self.workers.values() for w in ws]

    def runtime_pids(self) -> dict[str, int]:
        d = {'server': self.server}
        for i, m in enumerate(self.top_managers):
            d[f'topmanager{i}'] = m
        for i, m in enumerate(self.managers):
            d[f'manager{i}'] = m
        for b, ws in self.workers.items():
            for j, w in enumerate(ws):
                d[f'worker{b}.{j}'] = w
        return d

    def boss_of(self, w: int) -> int:
        for b, ws in self.workers.items():
            if w in ws:
                return b
        return 0

    def cleanup(self) -> None:
        for pid in list(self.runtime_pids().values()):
            try:
                os.kill(pid, signal.SIGKILL)
            except OSError:
                pass
        for p in self.procs:
            try:
                p.kill()
                p.wait(5)
            except Exception:
                pass


def flags(d: str, pat: str) -> list[str]:
    return sorted(os.path.basename(x) for x in glob.glob(os.path.join(d, pat)))


def wait_flag(d: str, pat: str, timeout: float, pred=None) -> list[str]:
    t0 = time.time()
    while time.time() - t0 < timeout:
        g = [x for x in flags(d, pat) if pred is None or pred(x)]
        if g:
            return g
        time.sleep(0.005)
    return []


def pid_of(flag: str) -> int:
    return int(flag.split('.')[1])


class ClientThread(threading.Thread):
    def __init__(self, idx: int, rt: Runtime, sc: dict, d: str, killed: threading.Event, go: threading.Event):
        super().__init__(daemon=True)
        self.idx, self.rt, self.sc, self.d, self.killed, self.go = idx, rt, sc, d, killed, go
        self.log: list[dict] = []
        self.connected = threading.Event()
        self.c = None

    def call(self, name: str, fn):
        rec = dict(call=name, t0=time.time(), t1=None, outcome=None)
        self.log.append(rec)
        try:
            r = fn()
            rec['outcome'] = ['ok', r]
        except BaseException as e:  # noqa
            rec['outcome'] = ['exc', type(e).__name__, str(e)[:120]]
            r = None
        rec['t1'] = time.time()
        return rec, r

    def run(self) -> None:
        sys.path.insert(0, HARNESS)
        import c14_passes as P
        from bqskit.ir.circuit import Circuit
        sc = self.sc
        self.go.wait()
        c = self.c
        w = sc.get('work', {})
        wf = P.workflow(self.d, w.get('n_sub', 4), w.get('t_sub', 2.0), w.get('t_sleep', 2.0), pad=w.get('pad', 0))
        circ = Circuit(1)
        script = sc.get('client', 'blocked_result')

        def summarize(res):
            # a returned circuit is the complete output iff it carries every mark
            try:
                n = res.num_operations
                return 'complete' if n == P.EXPECTED_MARKS else f'PARTIAL({n})'
            except Exception as e:  # noqa
                return f'NOT-A-CIRCUIT({type(res).__name__})'

        tid = None
        if script == 'idle_then_submit':
            self.killed.wait()
            time.sleep(sc.get('after_kill_delay', 0.0))
        rec, tid = self.call('submit', lambda: c.submit(circ, wf))
        if rec['outcome'][0] == 'ok':
            rec['outcome'][1] = 'task_id' if tid is not None else 'NONE'
            if script == 'submit_then_result_after_kill':
                self.killed.wait()
                time.sleep(sc.get('after_kill_delay', 0.0))
            if script == 'status_poll':
                while True:
                    rec, st = self.call('status', lambda: c.status(tid))
                    if rec['outcome'][0] != 'ok':
                        break
                    rec['outcome'][1] = getattr(st, 'name', repr(st))
                    if rec['outcome'][1] == 'DONE' or len(self.log) > 4000:
                        break
                    if rec['outcome'][1] not in ('RUNNING', 'DONE'):
                        break
                    self.log.pop()      # keep the log short: only the last status call matters
                    time.sleep(0.05)
            if self.log[-1]['outcome'][0] == 'ok':
                rec, res = self.call('result', lambda: c.result(tid))
                if rec['outcome'][0] == 'ok':
                    rec['outcome'][1] = summarize(res)
        # later calls on the same Compiler object: a call issued right after the kill may still be served (the
        # runtime has not read the EOF yet); status() is repeated until it raises, which must happen within T_RAISE
        if sc.get('kill'):
            self.killed.wait()
            if tid is not None:
                t_first = time.time()
                while True:
                    rec, st = self.call('later_status', lambda: c.status(tid))
                    if rec['outcome'][0] != 'ok':
                        break
                    rec['outcome'][1] = getattr(st, 'name', repr(st))
                    if time.time() - t_first > T_RAISE:
                        rec['never_raised'] = True
                        break
                    self.log.pop()
                    time.sleep(0.2)
                rec['t0'] = t_first
            rec, t2 = self.call('later_submit', lambda: c.submit(circ, wf))
            if rec['outcome'][0] == 'ok':
                rec['outcome'][1] = 'task_id'
                rec, res = self.call('later_result', lambda: c.result(t2))
                if rec['outcome'][0] == 'ok':
                    rec['outcome'][1] = summarize(res)


def pick_victim(rt: Runtime, d: str, who: str, exclude: list[int]) -> int:
    ws = [w for w in rt.all_workers() if w not in exclude]
    rootf = flags(d, 'mark0.*')
    root = pid_of(rootf[0]) if rootf else 0
    busy = {pid_of(x) for x in flags(d, 'sub_start.*')} | {root}
    if who == 'any_worker':
        return ws[0]
    if who == 'root_worker':
        return root
    if who == 'sub_worker':
        c = [w for w in ws if w in busy and w != root]
        return c[0] if c else 0
    if who == 'idle_worker':
        c = [w for w in ws if w not in busy]
        return c[0] if c else 0
    if who == 'root_manager':
        return rt.boss_of(root)
    if who == 'other_manager':
        c = [m for m in rt.managers if m != rt.boss_of(root) and m not in exclude]
        return c[0] if c else 0
    if who == 'any_manager':
        c = [m for m in rt.managers if m not in exclude]
        return c[0] if c else 0
    if who == 'top_manager':
        return rt.top_managers[0]
    if who == 'other_manager_worker':
        c = [w for w in ws if rt.boss_of(w) != rt.boss_of(root)]
        return c[0] if c else 0
    raise ValueError(who)


def run_scenario(sc: dict) -> dict:
    d = tempfile.mkdtemp(prefix='c14f_')
    rt = Runtime(sc)
    out: dict = dict(scenario=sc, problems=[], notes=[])
    t_begin = time.time()
    try:
        rt.start()
        killed, go = threading.Event(), threading.Event()
        cts = [ClientThread(i, rt, sc, d, killed, go) for i in range(sc.get('clients', 1))]
        for ct in cts:
            # Compiler installs a SIGINT handler: connect in the main thread, then drop the handler again so
            # that Compiler.close() (called by the client's own error path) works from the calling thread
            ct.c = rt.connect()
            if hasattr(ct.c, 'old_signal'):
                signal.signal(signal.SIGINT, ct.c.old_signal)
                del ct.c.old_signal
        for ct in cts:
            ct.start()
        rt.inventory()
        out['pids'] = rt.runtime_pids()
        out['t_setup'] = round(time.time() - t_begin, 2)
        kills = sc.get('kill', [])
        t_kill = None
        victims: list[int] = []
        pre_go = kills and kills[0].get('at') == 'before_submit'
        if not pre_go:
            go.set()
        for k in kills:
            at = k.get('at')
            if at and at != 'before_submit':
                nflags = k.get('count', 1)
                t0 = time.time()
                while time.time() - t0 < 150:
                    g = flags(d, at + '.*')
                    if k.get('not_root'):
                        rootf = flags(d, 'mark0.*')
                        g = [x for x in g if rootf and pid_of(x) != pid_of(rootf[0])]
                    if len(g) >= nflags:
                        break
                    time.sleep(0.003)
                else:
                    raise RuntimeError(f'crash point {at} never reached (setup)')
            time.sleep(k.get('delay', 0.0))
            v = pick_victim(rt, d, k['who'], victims)
            if (not v or not alive(v)) and victims:
                out['notes'].append(f'second victim {k["who"]} already gone (the runtime went down after the first kill)')
                continue
            if not v:
                raise RuntimeError(f'no victim for {k} (setup)')
            if k.get('stop_until'):
                os.kill(v, signal.SIGSTOP)
                if not wait_flag(d, k['stop_until'] + '.*', 120):
                    raise RuntimeError('stop_until flag never appeared (setup)')
                time.sleep(k.get('stop_delay', 1.0))
            try:
                os.kill(v, signal.SIGKILL)
            except ProcessLookupError:
                if not victims:
                    raise
                out['notes'].append('second victim exited on its own before the kill')
                continue
            victims.append(v)
            t_kill = time.time()
            out['notes'].append(f'killed {k["who"]} pid={v} at {at} flags={len(flags(d, "*"))}')
            if pre_go and k is kills[0]:
                time.sleep(k.get('submit_delay', 0.0))
                go.set()
        killed.set()
        if t_kill is None:
            t_kill = time.time()
        # ---- observe -----------------------------------------------------------
        deadline = t_kill + T_RAISE
        for ct in cts:
            ct.join(max(0.0, deadline - time.time()) + (T_RAISE if not kills else 0) * 3)
        late = [ct for ct in cts if ct.is_alive()]
        if late:
            for ct in late:
                ct.join(max(0.0, t_kill + T_RAISE + T_SLOW - time.time()))
        for ct in cts:
            for rec in ct.log:
                o = rec['outcome']
                lat = None if rec['t1'] is None else round(rec['t1'] - max(rec['t0'], t_kill), 2)
                rec['latency_after_kill_or_start'] = lat
                if rec['t1'] is None:
                    out['problems'].append(dict(symptom='client_hang', call=rec['call'], client=ct.idx,
                                                waited=round(time.time() - max(rec['t0'], t_kill), 1)))
                elif kills and lat is not None and lat > T_RAISE:
                    out['problems'].append(dict(symptom='client_slow', call=rec['call'], client=ct.idx, latency=lat))
                if o and o[0] == 'ok' and rec['call'] in ('result', 'later_result') and o[1] != 'complete':
                    out['problems'].append(dict(symptom='partial_result', call=rec['call'], client=ct.idx, got=o[1]))
                if o and o[0] == 'ok' and kills and (rec.get('never_raised') or rec['call'] == 'later_result'):
                    out['problems'].append(dict(symptom='call_succeeds_after_crash', call=rec['call'], client=ct.idx, got=o[1]))
                if o and o[0] == 'ok' and o[1] in (None, 'NONE'):
                    out['problems'].append(dict(symptom='call_returns_none', call=rec['call'], client=ct.idx))
                if o and o[0] == 'exc' and o[1] != 'RuntimeError':
                    out['problems'].append(dict(symptom='wrong_exception_type', call=rec['call'], client=ct.idx, got=o[1]))
                if not kills and o and o[0] != 'ok':
                    out['problems'].append(dict(symptom='fault_free_run_failed', call=rec['call'], client=ct.idx, got=o))
            if kills and not any(r['outcome'] and r['outcome'][0] == 'exc' for r in ct.log) and not ct.is_alive():
                out['problems'].append(dict(symptom='no_call_raised', client=ct.idx))
        out['clients'] = [[dict(call=r['call'], outcome=r['outcome'], latency=r.get('latency_after_kill_or_start')) for r in ct.log] for ct in cts]
        # ---- the rest of the runtime must go down ------------------------------------
        if kills:
            t_exit_deadline = t_kill + T_EXIT
            left = {}
            while True:
                left = {r: p for r, p in rt.runtime_pids().items() if alive(p)}
                if not left or time.time() > t_exit_deadline:
                    break
                time.sleep(0.1)
            out['t_all_down'] = round(time.time() - t_kill, 2) if not left else None
            if left:
                # slow or never?  keep watching, and record what the survivors are doing
                diag = {}
                for r, p in left.items():
                    try:
                        pr = psutil.Process(p)
                        diag[r] = dict(status=pr.status(), threads=pr.num_threads(),
                                       wchan=[open(f'/proc/{p}/task/{t.id}/wchan').read() for t in pr.threads()][:6],
                                       children=[c.pid for c in pr.children()])
                    except Exception as e:  # noqa
                        diag[r] = repr(e)
                t_more = time.time() + T_SLOW
                while time.time() < t_more:
                    left2 = {r: p for r, p in rt.runtime_pids().items() if alive(p)}
                    if not left2:
                        break
                    time.sleep(0.2)
                out['problems'].append(dict(symptom='runtime_survives' if left2 else 'runtime_slow_exit',
                                            roles=sorted(x.rstrip('0123456789.') for x in left),
                                            late_exit_s=None if left2 else round(time.time() - t_kill, 1)))
                out['survivors'] = left
                out['survivor_diag'] = diag
    except Exception as e:  # noqa
        import traceback
        out['setup_error'] = traceback.format_exc()[-1500:]
    finally:
        rt.cleanup()
        shutil.rmtree(d, ignore_errors=True)
    out['wall'] = round(time.time() - t_begin, 2)
    return out




# ---- scenario tables -------------------------------------------------------------------------------
W_STD = dict(n_sub=4, t_sub=3.0, t_sleep=3.0)
CRASH_POINTS = {
    # name: (kill specs, client script, work, extra)
    'idle_before_submit': ([dict(who='any_worker', at='before_submit', submit_delay=1.0)], 'idle_then_submit', W_STD),
    'race_with_submit': ([dict(who='any_worker', at='before_submit', submit_delay=0.0)], 'idle_then_submit', W_STD),
    'root_start': ([dict(who='root_worker', at='mark0')], 'blocked_result', W_STD),
    'root_awaiting_children': ([dict(who='root_worker', at='sub_start', not_root=True)], 'blocked_result', W_STD),
    'sub_running': ([dict(who='sub_worker', at='sub_start', not_root=True)], 'blocked_result', W_STD),
    'holding_delayed_tasks': ([dict(who='sub_worker', at='sub_start', not_root=True, delay=0.2)], 'blocked_result',
                              dict(n_sub=14, t_sub=1.5, t_sleep=1.0)),
    'idle_while_others_work': ([dict(who='idle_worker', at='root_sleep')], 'blocked_result',
                               dict(n_sub=1, t_sub=0.2, t_sleep=4.0)),
    'sub_result_in_flight': ([dict(who='sub_worker', at='sub_done', not_root=True)], 'blocked_result',
                             dict(n_sub=4, t_sub=1.0, t_sleep=3.0)),
    'root_sleeping': ([dict(who='root_worker', at='root_sleep')], 'blocked_result', dict(n_sub=2, t_sub=0.3, t_sleep=4.0)),
    'root_result_in_flight': ([dict(who='root_worker', at='mark2')], 'blocked_result', dict(n_sub=2, t_sub=0.3, t_sleep=0.3)),
    'done_before_request': ([dict(who='any_worker', at='mark2', delay=0.5)], 'submit_then_result_after_kill',
                            dict(n_sub=2, t_sub=0.3, t_sleep=0.3)),
    'status_polling': ([dict(who='sub_worker', at='sub_start', not_root=True)], 'status_poll', W_STD),
    'large_batch_in_transit': ([dict(who='idle_worker', at='root_mapped', delay=0.05)], 'blocked_result',
                               dict(n_sub=6, t_sub=1.0, t_sleep=1.0, pad=2000000)),
    # second crash
    'two_workers': ([dict(who='sub_worker', at='sub_start', not_root=True), dict(who='any_worker', delay=0.05)],
                    'blocked_result', W_STD),
    'two_workers_later': ([dict(who='root_worker', at='root_sleep'), dict(who='any_worker', delay=0.6)],
                          'blocked_result', dict(n_sub=2, t_sub=0.3, t_sleep=4.0)),
}
MANAGER_POINTS = {
    'manager_of_root': ([dict(who='root_manager', at='sub_start', not_root=True)], 'blocked_result', W_STD),
    'other_manager': ([dict(who='other_manager', at='sub_start', not_root=True)], 'blocked_result', W_STD),
    'manager_idle_before_submit': ([dict(who='any_manager', at='before_submit', submit_delay=0.5)], 'idle_then_submit', W_STD),
    'manager_root_sleeping': ([dict(who='root_manager', at='root_sleep')], 'blocked_result', dict(n_sub=2, t_sub=0.3, t_sleep=4.0)),
    'manager_then_worker': ([dict(who='root_manager', at='sub_start', not_root=True),
                             dict(who='other_manager_worker', delay=0.05)], 'blocked_result', W_STD),
    'worker_then_manager': ([dict(who='sub_worker', at='sub_start', not_root=True),
                             dict(who='any_manager', delay=0.05)], 'blocked_result', W_STD),
    'two_managers': ([dict(who='root_manager', at='sub_start', not_root=True), dict(who='any_manager', delay=0.0)],
                     'blocked_result', W_STD),
}


def scenario(mode, point, table=None, **kw) -> dict:
    kills, client, work = (table or CRASH_POINTS)[point]
    sc = dict(mode=mode, point=point, kill=kills, client=client, work=work)
    sc['workers'] = 3 if mode == 'attached' else 2
    if mode == 'detached':
        sc['managers'] = 2
    sc.update(kw)
    return sc


def quick_scenarios() -> list[dict]:
    """Four runs in parallel: attached mid-sub-task; detached manager killed with two blocked clients; second crash
    (worker then manager); the nested regression (former finding C14-F1: everything must now go down)."""
    return [
        scenario('attached', 'sub_running'),
        scenario('detached', 'manager_of_root', MANAGER_POINTS, clients=2),
        scenario('detached', 'worker_then_manager', MANAGER_POINTS),
        dict(mode='detached', point='nested_top_manager', nested=True, managers=2, workers=1,
             kill=[dict(who='top_manager', at='sub_start')], client='blocked_result', work=dict(n_sub=2, t_sub=3.0, t_sleep=1.0)),
    ]


def thorough_scenarios() -> list[dict]:
    scs = [dict(mode='attached', point='control', workers=3, kill=[], client='blocked_result', work=dict(n_sub=4, t_sub=0.3, t_sleep=0.3)),
           dict(mode='detached', point='control', managers=2, workers=2, kill=[], client='blocked_result',
                work=dict(n_sub=4, t_sub=0.3, t_sleep=0.3))]
    for mode in ('attached', 'detached'):
        for pt in CRASH_POINTS:
            scs.append(scenario(mode, pt, clients=2 if (mode == 'detached' and pt in ('sub_running', 'root_sleeping')) else 1))
    for pt in MANAGER_POINTS:
        scs.append(scenario('detached', pt, MANAGER_POINTS, clients=2 if pt == 'manager_of_root' else 1))
    scs.append(dict(mode='detached', point='nested_top_manager', nested=True, managers=2, workers=1,
                    kill=[dict(who='top_manager', at='sub_start')], client='blocked_result', work=dict(n_sub=2, t_sub=3.0, t_sleep=1.0)))
    scs.append(dict(mode='detached', point='nested_leaf_manager', nested=True, managers=2, workers=1,
                    kill=[dict(who='any_manager', at='sub_start')], client='blocked_result', work=dict(n_sub=2, t_sub=3.0, t_sleep=1.0)))
    scs.append(dict(mode='detached', point='nested_worker', nested=True, managers=2, workers=1,
                    kill=[dict(who='any_worker', at='sub_start')], client='blocked_result', work=dict(n_sub=2, t_sub=3.0, t_sleep=1.0)))
    return scs


_UNSHARE = [None]


def _can_unshare() -> bool:
    if _UNSHARE[0] is None:
        try:
            r = subprocess.run(['unshare', '-n', 'sh', '-c', 'ip link set lo up'], capture_output=True, timeout=20)
            _UNSHARE[0] = r.returncode == 0
        except Exception:
            _UNSHARE[0] = False
    return _UNSHARE[0]


def launch_fault(sc: dict, hard_timeout: float = 420.0) -> dict:
    """Run one scenario in a child process (own session, own network namespace) with a hard timeout."""
    env = dict(os.environ)
    env['C14_HARNESS'] = HARNESS
    args = [sys.executable, os.path.abspath(__file__), 'fault', json.dumps(sc)]
    if _can_unshare():
        import shlex
        args = ['unshare', '-n', 'sh', '-c', 'ip link set lo up; exec ' + ' '.join(shlex.quote(a) for a in args)]
    t0 = time.time()
    p = subprocess.Popen(args, stdout=subprocess.PIPE, stderr=subprocess.PIPE, text=True, env=env, start_new_session=True)
    try:
        out, err = p.communicate(timeout=hard_timeout)
    except subprocess.TimeoutExpired:
        try:
            os.killpg(p.pid, signal.SIGKILL)
        except OSError:
            pass
        p.kill()
        out, err = p.communicate()
        return dict(scenario=sc, setup_error='fault runner exceeded its hard timeout (%.0fs)' % hard_timeout,
                    problems=[], wall=round(time.time() - t0, 1))
    for ln in out.splitlines():
        if ln.startswith('C14RESULT '):
            return json.loads(ln[len('C14RESULT '):])
    return dict(scenario=sc, setup_error='no result line; stderr tail: ' + err[-600:], problems=[], wall=round(time.time() - t0, 1))


def fault_signature(sc: dict, prob: dict) -> dict:
    sig = dict(leg='fault', mode=sc['mode'], symptom=prob['symptom'], topology='nested' if sc.get('nested') else 'flat')
    if sc.get('nested'):
        sig['victim'] = sc['kill'][0]['who'] if sc.get('kill') else None
    else:
        sig['point'] = sc.get('point')
    if 'call' in prob:
        sig['call'] = prob['call']
    return sig


# =============================================================================================
# the check
# =============================================================================================
def exec_schedule(topo, attached, script=None, rng=None, crash_plan=None, label='random', max_events=70) -> dict:
    """Run one schedule on the implementation (no ctx: also used inside co-simulation worker processes)."""
    global crash_plan_allows_nested
    crash_plan_allows_nested = label.startswith('nested')
    sim, mev, cmp_at, robs, hev, info = run_schedule(topo, attached, script, rng, crash_plan, max_events)
    nested = any(topo[p][0] == 'M' and k == 'M' for k, p in topo[1:])
    rec = dict(topology=[[k, p] for k, p in topo], attached=attached, hev=hev, label=label, nested=nested,
               line=model_line(topo, attached, 400, mev), cmp_at=cmp_at, robs=robs, info=info,
               errors=list(sim.errors), oracle=[] if info['hang'] else property_oracle(sim, info))
    rec['_sim'] = sim
    return rec


def account(ctx, rec) -> None:
    """Book one executed schedule: counts, implementation-side failures, and queue it for the model comparison."""
    rec.pop('_sim', None)
    info, hev, nested = rec['info'], rec['hev'], rec['nested']
    case = dict(topology=rec['topology'], attached=rec['attached'], script=hev)
    key = (json.dumps(rec['topology']), rec['attached'], json.dumps(hev))
    ctx.case(key, nontrivial=info['crashes'] > 0 and info['recvs'] > 0)
    ctx.count('schedules_' + rec['label'])
    ctx.count('events', len(hev))
    ctx.count('crash_events', info['crashes'])
    ctx.count('eof_events', info['eofs'])
    ctx.count('client_calls', info['calls'])
    ctx.count('topology_' + ('attached' if rec['attached'] else 'nested' if nested else 'detached'))
    if info['hang']:
        ctx.violation(dict(leg='cosim', symptom='handler_hang'), case, 'every handler returns to its select()/recv()', info['hang'],
                      'a real handler thread did not come back within %.0fs' % SETTLE_TIMEOUT, kind='schedule')
        return
    if rec['errors']:
        ctx.violation(dict(leg='cosim', symptom='thread_exception'), case, 'no exception escapes run()/send_outgoing', rec['errors'][:3],
                      'an exception escaped a runtime thread', kind='schedule')
    PENDING.append(dict(line=rec['line'], case=case, nested=nested, cmp_at=rec['cmp_at'], robs=rec['robs'], hev=hev, info=info))
    for pr in rec['oracle']:
        sig = dict(leg='cosim', symptom=pr['symptom'], topology='nested' if nested else 'flat')
        ctx.violation(sig, case, 'after a crash: whole runtime down, every client connection closed, every call returned, '
                      'results complete', pr, 'property oracle on the implementation: ' + pr['symptom'], kind='schedule')


def check_schedule(ctx, topo, attached, script=None, rng=None, crash_plan=None, label='random', max_events=70):
    rec = exec_schedule(topo, attached, script, rng, crash_plan, label, max_events)
    sim = rec['_sim']
    sim.close()
    account(ctx, rec)
    return sim, rec['info']


def cosim_worker(seed: int, n: int, budget_s: float) -> None:
    """Child process: n random schedules, one JSON record per line on stdout."""
    import random
    sys.setswitchinterval(0.0005)     # many short hand-offs between the simulated nodes' threads
    rng = random.Random(seed)
    t0 = time.time()
    for i in range(n):
        if time.time() - t0 > budget_s:
            break
        nested = rng.random() < 0.2
        topo, att = random_topology(rng, nested)
        r = rng.random()
        plan = []
        if r < 0.9:
            plan.append((rng.randint(2, 30), 'W' if (att or rng.random() < 0.6) else 'M'))
        if r < 0.35:
            plan.append((plan[0][0] + rng.randint(0, 6), rng.choice(['W', 'M']) if not att else 'W'))
        try:
            rec = exec_schedule(topo, att, rng=rng, crash_plan=plan, label='nested_random' if nested else 'random')
            rec.pop('_sim').close()
        except Exception:
            rec = dict(machinery_error=traceback.format_exc()[-1500:])
        print('C14REC ' + json.dumps(rec, default=str))
        sys.stdout.flush()


def launch_cosim(seed: int, n: int, budget_s: float):
    env = dict(os.environ)
    return subprocess.Popen([sys.executable, os.path.abspath(__file__), 'cosim', str(seed), str(n), str(budget_s)],
                            stdout=subprocess.PIPE, stderr=subprocess.DEVNULL, text=True, env=env, start_new_session=True)


PENDING: list = []


def compare_pending(ctx):
    """Run the extracted model once on all collected schedules and compare observation by observation."""
    if not PENDING:
        return
    outs = vf.run_model('crash', [p['line'] for p in PENDING])
    if len(outs) != len(PENDING):
        ctx.broken_obligation('crash model driver: wrong number of answers', f'{len(outs)} vs {len(PENDING)}')
        PENDING.clear()
        return
    for p, out in zip(PENDING, outs):
        _compare_one(ctx, p, out)
    PENDING.clear()


def _compare_one(ctx, p, out):
    line, case, nested, cmp_at, robs, hev, info = (p[k] for k in ('line', 'case', 'nested', 'cmp_at', 'robs', 'hev', 'info'))
    if out.startswith(('EXN', 'BAD')):
        ctx.broken_obligation('crash model driver failed', out + '\n' + line)
        return
    mobs = parse_val(out)[0]
    agree = True
    # observation j of the implementation (after harness event j-1) <-> model observation after cmp_at[j-1] events
    idx = [0] + cmp_at
    for j, ri in enumerate(robs):
        mi = idx[j]
        if mi >= len(mobs) or mobs[mi] == 'X':
            agree = False
            ctx.violation(dict(leg='cosim', symptom='event_not_enabled_in_model', nested=nested), dict(case, upto=j),
                          'the model accepts every event the implementation performed',
                          dict(event=hev[j - 1] if j else None, real=ri), 'model and implementation disagree on enabledness',
                          kind='correspondence', corr='coq/rt/Crash.v step vs real handlers')
            break
        mo = canon_model_obs(mobs[mi])
        # unread messages left in the FIFO of a client that has dropped its connection are not compared: the code stops
        # reading at the message that makes the call raise, the model consumes everything that had arrived first
        ri = [list(x) for x in ri]
        for x, y, (kd, _) in zip(mo, ri, case['topology']):
            if kd == 'C' and x[1] == 'F' and y[1] == 'F':
                x[4] = y[4] = []
        if mo != ri:
            agree = False
            diff = [dict(node=i, model=mo[i], impl=ri[i]) for i in range(len(ri)) if mo[i] != ri[i]]
            ev = hev[j - 1] if j else None
            sym = 'state_mismatch'
            ctx.violation(dict(leg='cosim', symptom=sym, event=(ev[0] if ev else 'init'), nested=nested), dict(case, upto=j), diff[0]['model'], diff[0]['impl'],
                          'after %r the implementation and the Coq model differ (messages in flight / connection ends / '
                          'running flags / client state): %s' % (ev, json.dumps(diff)[:600]),
                          kind='correspondence', corr='coq/rt/Crash.v vs base.py/detached.py/attached.py/manager.py/worker.py/compiler.py')
            break
    if agree:
        ctx.count('schedules_agreeing')
        last = mobs[-1]
        if last != 'X':
            q_model, down_model = last[1] == 'T', last[2] == 'T'
            ctx.count('model_quiescent_final' if q_model else 'model_not_quiescent_final')
            if q_model and info['crashes'] and not down_model:
                ctx.broken_obligation('model reached a quiescent state that is not all_down after a crash',
                                      json.dumps(case)[:1500])


def directed_cases():
    """(label, topology, attached, script): the Coq examples and each branch of the handlers."""
    ex_T = [('S', 0), ('M', 0), ('W', 1), ('W', 1), ('M', 0), ('W', 4), ('C', 0), ('C', 0)]
    nested_T = [('S', 0), ('M', 0), ('M', 1), ('W', 2), ('C', 0)]
    att_T = [('S', 0), ('W', 0), ('W', 0), ('C', 0)]
    WAIT, LOG = 12, 10
    return [
        ('coq_example_ex', ex_T, False,
         [['call', 6, 'S', 7, 0], ['recv', 'U', 6, 0], ['call', 7, 'S', 9, 0], ['recv', 'U', 7, 0], ['call', 6, 'R', 7, 0],
          ['recv', 'U', 6, 0], ['emit', 3, WAIT], ['crash', 2], ['recv', 'U', 2, 0], ['recv', 'U', 1, 0], ['recv', 'D', 3, 0],
          ['recv', 'D', 4, 0], ['recv', 'D', 5, 0], ['recv', 'D', 6, 1], ['call', 7, 'R', 9, 1]]),
        ('nested_witness', nested_T, False,
         [['call', 4, 'S', 7, 0], ['recv', 'U', 4, 0], ['recv', 'D', 1, 0], ['call', 4, 'R', 7, 0], ['recv', 'U', 4, 0], ['crash', 1],
          ['recv', 'U', 1, 0], ['recv', 'D', 2, 0], ['recv', 'D', 2, 0], ['recv', 'D', 4, 1], ['drain']]),
        ('attached_worker_crash', att_T, True,
         [['call', 3, 'S', 1, 0], ['recv', 'U', 3, 0], ['call', 3, 'R', 1, 0], ['recv', 'U', 3, 0], ['crash', 1],
          ['recv', 'U', 1, 0], ['recv', 'D', 2, 0], ['recv', 'D', 3, 1], ['call', 3, 'T', 1, 0], ['call', 3, 'S', 2, 0], ['drain']]),
        ('result_then_eof', att_T, True,
         [['call', 3, 'S', 1, 0], ['recv', 'U', 3, 0], ['call', 3, 'R', 1, 0], ['recv', 'U', 3, 0], ['recv', 'D', 1, 0],
          ['finish', 1, 0], ['recv', 'U', 1, 0], ['crash', 2], ['recv', 'U', 2, 0], ['recv', 'D', 3, 2]]),
        ('result_before_eof_seen', att_T, True,
         [['call', 3, 'S', 1, 0], ['recv', 'U', 3, 0], ['call', 3, 'R', 1, 0], ['recv', 'U', 3, 0], ['recv', 'D', 1, 0],
          ['finish', 1, 0], ['recv', 'U', 1, 0], ['crash', 2], ['recv', 'U', 2, 0], ['recv', 'D', 3, 1], ['call', 3, 'T', 1, 1]]),
        ('worker_runtime_error', ex_T, False,
         [['call', 6, 'S', 7, 0], ['recv', 'U', 6, 0], ['call', 6, 'R', 7, 0], ['recv', 'U', 6, 0], ['fail', 5],
          ['recv', 'U', 5, 0], ['recv', 'U', 4, 0], ['recv', 'U', 5, 0], ['drain']]),
        ('manager_crash_second_worker_crash', ex_T, False,
         [['call', 6, 'S', 7, 0], ['recv', 'U', 6, 0], ['call', 6, 'T', 7, 0], ['recv', 'U', 6, 0], ['crash', 1], ['crash', 5],
          ['recv', 'D', 2, 0], ['recv', 'D', 3, 0], ['recv', 'U', 5, 0], ['recv', 'U', 1, 0], ['drain']]),
    ]


def run(ctx):
    ctx.uses_translators = set()
    ctx.level = 'proof'
    ctx.build(**BUILD)
    quick = ctx.quick()
    ctx.rule = (
        'three legs. (1) co-simulation: directed schedules (the Coq examples, each handler branch) then random schedules on random '
        'topologies (attached: server+2-3 workers+1 client; detached: 1-3 managers x 1-3 workers, 1-3 clients; nested managers): '
        'client submit/result/status calls with a random number of already-arrived messages, FIFO-respecting deliveries in random '
        'order, worker traffic (WAITING/UPDATE/LOG/CANCEL, RESULT of root tasks), SIGKILL of 1-2 workers/level-1 managers or a '
        'worker runtime error at a random step (any manager, nested ones included), then delivery until nothing is enabled; executed on the real run()/send_outgoing/'
        'recv_incoming/Compiler code and on the extracted Coq model, all observations compared after every event. '
        '(2) property oracle on the implementation at quiescence. (3) real-process SIGKILL runs at named crash points '
        '(attached and detached, second crash), each client call must raise RuntimeError within %ds, results must be complete, the '
        'runtime must be gone within %ds. non-trivial = a schedule / run in which a crash happened and at least one delivery '
        'followed; distinct by topology + event list (co-sim) or scenario (fault runs).' % (T_RAISE, T_EXIT))
    ctx.assumptions += [
        'LEVEL PARTIAL: the theorems are about the event system of coq/rt/Crash.v; that the OS delivers EOF/ECONNRESET after a '
        'SIGKILL, that Process.join returns and every wall-clock bound are validated only by the real-process fault runs',
        'FIFO links: what a process sent before it died is delivered before the EOF (TCP on loopback)',
        'uuid4 task ids of different submissions never collide',
        'crashes of the server itself are outside the theorem; nested manager topologies are inside it since repo commit '
        'ddab951 (fixed finding C14-F1: a manager that loses its boss shuts down)',
        'ordinary traffic (SUBMIT_BATCH, WAITING, UPDATE, LOG, CANCEL...) is abstract in the model: any live node may send it; '
        'its handlers are exercised in the co-simulation but only their sends/closes are compared',
        'client call outcomes are compared up to the exception class (RuntimeError) and the returned payload',
    ]
    ctx.trusted = ['Coq 8.16.1 kernel + vm_compute', 'ExtrOcamlBasic extraction, OCaml 4.13.1, coq/extract/crash_driver.ml',
                   'harness/props/c14.py (fake Connection/selector/queue objects, schedule generator, canonicalisation, fault injector)',
                   'harness/c14_passes.py (test passes run by the real workers)', 'Linux TCP loopback + SIGKILL semantics (fault runs)',
                   'CPython threading (co-simulation runs the real run() loops in threads)']
    if not ctx.extract_ok.get('crash', False):
        return
    # ---- fault runs start first (child processes), co-simulation runs meanwhile -----------------------
    scs = quick_scenarios() if quick else thorough_scenarios()
    corpus = []
    cdir = vf.ROOT / 'corpus' / 'C14'
    if cdir.exists():
        for f in sorted(cdir.glob('*.json')):
            corpus.append(json.loads(f.read_text()))
    for c in corpus:
        if c.get('kind') == 'fault' and quick and not c.get('quick', False):
            continue
        if c.get('kind') == 'fault':
            scs.append(c['scenario'])
    pool = ThreadPoolExecutor(max_workers=4 if quick else 8)
    futs = [(sc, pool.submit(launch_fault, sc, 300.0 if quick else 420.0)) for sc in scs]

    # ---- co-simulation -------------------------------------------------------------------------------------
    t0 = time.time()
    nproc = ctx.n(4, 10)
    per = ctx.n(60, 260)
    budget_s = ctx.n(60, 600)
    procs = [launch_cosim(ctx.seed * 1000 + w, per, budget_s) for w in range(nproc)]
    for c in corpus:
        if c.get('kind') == 'schedule':
            check_schedule(ctx, [tuple(x) for x in c['topology']], c['attached'], script=c['script'], label='corpus')
    for label, topo, att, script in directed_cases():
        sim, info = check_schedule(ctx, topo, att, script=script, label='nested_directed' if label == 'nested_witness' else 'directed')
        ctx.sample(dict(leg='cosim', label=label, topology=[[k, p] for k, p in topo], attached=att, script=script), limit=3)
    done = 0
    for pw in procs:
        try:
            out, _ = pw.communicate(timeout=budget_s + 240)
        except subprocess.TimeoutExpired:
            try:
                os.killpg(pw.pid, signal.SIGKILL)
            except OSError:
                pass
            out, _ = pw.communicate()
            ctx.broken_obligation('co-simulation worker exceeded its time limit', '')
        for ln in out.splitlines():
            if not ln.startswith('C14REC '):
                continue
            rec = json.loads(ln[7:])
            if 'machinery_error' in rec:
                ctx.broken_obligation('co-simulation machinery raised', rec['machinery_error'])
                continue
            account(ctx, rec)
            done += 1
    compare_pending(ctx)
    ctx.cov['cosim_random_schedules'] = done
    ctx.cov['cosim_wall_s'] = round(time.time() - t0, 1)

    # ---- the outgoing-thread shutdown path (known finding C14-F2) ------------------------------------------
    try:
        r = outgoing_thread_oracle()
        ctx.case(('outgoing_thread_oracle',), nontrivial=True)
        if r and (r['errors'] or (not r['running'] and not r['client_closed'])):
            ctx.violation(dict(leg='oracle', call='send_outgoing', symptom='shutdown_from_outgoing_thread_aborts'),
                          dict(topology='server+2 workers+1 client', event='ConnectionResetError raised by send() in send_outgoing'),
                          'handle_disconnect => complete handle_shutdown (client connections closed)', r,
                          'send_outgoing calls handle_disconnect from the outgoing thread; handle_shutdown then joins the current '
                          'thread (RuntimeError) before the client connections are closed')
        ctx.cov['outgoing_thread_oracle'] = r
    except Exception:
        ctx.broken_obligation('outgoing-thread oracle raised', traceback.format_exc())

    # ---- collect the fault runs ---------------------------------------------------------------------------------
    nfault = nhung = 0
    slow_first: list = []
    walls: list = []
    lat = []
    setup_errors = []
    for sc, fu in futs:
        res = fu.result()
        if res.get('setup_error'):
            # one retry: a setup failure says nothing about the property
            res = launch_fault(sc, 300.0 if quick else 420.0)
        if res.get('setup_error'):
            setup_errors.append(dict(scenario=sc, error=res['setup_error'][-400:]))
            continue
        probs = res.get('problems', [])
        if probs and all(p['symptom'] in ('client_slow', 'runtime_slow_exit') for p in probs):
            # everything did happen, only later than the bound: on a saturated box this is scheduling noise;
            # run the scenario once more and judge that run (a persistent delay is reported)
            ctx.count('fault_slow_first_attempt')
            slow_first.append(dict(scenario=sc.get('point'), mode=sc['mode'], problems=probs))
            res2 = launch_fault(sc, 300.0 if quick else 420.0)
            if not res2.get('setup_error'):
                res = res2
        nfault += 1
        walls.append([sc['mode'], sc.get('point'), res.get('t_setup'), res.get('wall')])
        key = ('fault', json.dumps(sc, sort_keys=True))
        ctx.case(key, nontrivial=bool(sc.get('kill')))
        ctx.count('fault_runs_' + sc['mode'] + ('_nested' if sc.get('nested') else ''))
        for cl in res.get('clients', []):
            for r in cl:
                if r.get('latency') is not None and r['call'] in ('result', 'status', 'submit') and r['outcome'] and r['outcome'][0] == 'exc':
                    lat.append(r['latency'])
        ctx.sample(dict(leg='fault', scenario=sc, clients=res.get('clients'), t_all_down=res.get('t_all_down'), notes=res.get('notes')), limit=6)
        for pr in res.get('problems', []):
            if pr['symptom'] == 'client_hang':
                nhung += 1
            ctx.violation(fault_signature(sc, pr), dict(kind='fault', scenario=sc), 'every client call raises RuntimeError within %ds of the '
                          'kill, only complete results are returned, every remaining runtime process exits within %ds' % (T_RAISE, T_EXIT),
                          dict(problem=pr, clients=res.get('clients'), survivors=res.get('survivors'), notes=res.get('notes')),
                          'real-process fault run %s/%s: %s' % (sc['mode'], sc.get('point'), pr['symptom']), kind='schedule')
    pool.shutdown(wait=False)
    ctx.cov['traces_validated_against_impl'] = nfault
    ctx.cov['fault_runs'] = nfault
    ctx.cov['fault_max_raise_latency_s'] = max(lat) if lat else None
    ctx.cov['fault_setup_errors'] = setup_errors
    ctx.cov['fault_walls_mode_point_setup_total'] = walls
    ctx.cov['fault_slow_first_attempt'] = slow_first
    ctx.cov['network_namespace_isolation'] = bool(_UNSHARE[0])
    if setup_errors and len(setup_errors) > max(1, len(scs) // 3):
        ctx.broken_obligation('real-process fault runs could not be set up', json.dumps(setup_errors)[:2000])
    ctx.cov['model_functions_with_theorems'] = ['step (all events)', 'shutdown', 'sys_error', 'die', 'recv_up', 'recv_down', 'call',
                                                'client_recv', 'srv_submit/request/status/result']
    ctx.cov['uncovered'] = ['server crash', 'crash during start-up handshake (spawn_workers/connect_to_managers)',
                            'SIGINT path', 'Compiler.close()/__del__ against a live server', 'wall-clock bounds (fault runs only)',
                            'ECONNRESET seen first by the outgoing thread (known finding C14-F2, in-process oracle only)']


def replay(ctx, data):
    case = data.get('case', {})
    if case.get('kind') == 'fault':
        sc = case['scenario']
        res = launch_fault(sc)
        ctx.case(('fault', json.dumps(sc, sort_keys=True)))
        if res.get('setup_error'):
            ctx.broken_obligation('fault replay could not be set up', res['setup_error'])
        for pr in res.get('problems', []):
            ctx.violation(fault_signature(sc, pr), case, data.get('expected'), dict(problem=pr, clients=res.get('clients')),
                          'real-process fault run still fails: ' + pr['symptom'], kind='schedule')
        return
    if 'script' in case:
        topo = [tuple(x) for x in case['topology']]
        script = case['script'][:case['upto']] if 'upto' in case else case['script']
        check_schedule(ctx, topo, case['attached'], script=script, label='nested_replay' if any(
            topo[p][0] == 'M' and k == 'M' for k, p in topo[1:]) else 'replay')
        compare_pending(ctx)
        return
    r = outgoing_thread_oracle()
    ctx.case(('outgoing_thread_oracle',))
    if r and (r['errors'] or (not r['running'] and not r['client_closed'])):
        ctx.violation(dict(leg='oracle', call='send_outgoing', symptom='shutdown_from_outgoing_thread_aborts'), case,
                      data.get('expected'), r, 'still reproduces')


if __name__ == '__main__':
    sys.path.insert(0, HARNESS)
    if len(sys.argv) >= 5 and sys.argv[1] == 'cosim':
        cosim_worker(int(sys.argv[2]), int(sys.argv[3]), float(sys.argv[4]))
        os._exit(0)
    if len(sys.argv) >= 3 and sys.argv[1] == 'fault':
        sc = json.loads(sys.argv[2])
        res = run_scenario(sc)
        print('C14RESULT ' + json.dumps(res, default=str))
        sys.stdout.flush()
        os._exit(0)
