"""C05 - All views of a Circuit stay mutually consistent after every edit."""
from __future__ import annotations

import vf
from circ_props import BUILD, run_histories, replay_case, fold_stress

WANT = {'views'}


def classify(f):
    k = f['kind']
    call = f['call'][0]
    if k == 'views':
        sym = sorted(set(f['symptoms']))
        return dict(call=call, symptom=sym[0]), f'after {call}: views disagree ({", ".join(sym)})'
    if k == 'coq_views':
        sym = list(f['symptoms'])
        return dict(call=call, symptom='view:' + sym[0]), (f'after {call}: the implementation\'s maintained view(s) {", ".join(sym)} differ from the '
                                                           'function of the grid defined in coq/circuit/CViews.v')
    if k == 'hang':
        return dict(call=call, symptom='hang'), f'{call} (or reading the circuit after it) does not return: ' + str(f.get('detail'))
    if k == 'iteration_raised':
        return dict(call=call, symptom='accessor_raised'), f'after {call} iterating the circuit raises: ' + str(f.get('detail'))
    if k == 'internal_error':
        return dict(call=call, symptom='internal-error'), f'{call} failed with an internal error: {f["detail"]}'
    return None


def run(ctx: vf.Ctx):
    ctx.uses_translators = set()
    ctx.build(**BUILD)
    ctx.rule = ('random editing histories (1..%d calls, same alphabet as C04) on the real Circuit; after every call the grid, '
                'the dependency view (next/prev/front/rear/first_on/last_on), the counters and iteration are recomputed from '
                'the grid read through the public API and compared with what the object reports, including the private '
                '_dag/_front/_rear/_gate_info/_graph_info, and with the values the extracted Coq view functions (coq/circuit/CViews.v) '
                'compute from the same grid; plus step-by-step comparison of the grid with the extracted Coq model (fold included) and a '
                'fold-stress stream (views after every straighten / fold and after follow-up appends); '
                'non-trivial = history with at least one successful state-changing call' % ctx.n(30, 40))
    ctx.assumptions += ['calls are type-correct (no TypeError stream)']
    ctx.trusted = ['Coq 8.16.1 kernel', 'ExtrOcamlBasic extraction + coq/extract/circuit_driver.ml',
                   'harness/circ_common.py check_views (independent recomputation of every view from the grid) and impl_views '
                   '(reading the private fields)']
    run_histories(ctx, WANT, ctx.n(700, 25000), ctx.n(30, 40), classify)
    fold_stress(ctx, WANT, classify)
    ctx.cov['editors_with_invariant_theorem'] = 22
    ctx.cov['views_defined_in_coq_and_compared'] = ['_front/first_on', '_rear/last_on', 'front', 'rear', '_dag', 'next', 'prev',
                                                   'num_operations', '_gate_info/gate_counts', '_graph_info', 'active_qudits', 'depth',
                                                   'dag_iteration']
    ctx.cov['views_oracle_only'] = ['num_params', 'coupling_graph']
    if ctx.tier == 'thorough':
        exhaustive_short(ctx)


def exhaustive_short(ctx: vf.Ctx):
    """all histories of length <= 4 over a small alphabet on 2 qudits"""
    import itertools
    import circ_common as cc
    import circ_run as cr
    X = lambda q: (0, 1, (q,), (), (2,), ())
    CX = lambda a, b: (0, 4, (a, b), (), (2, 2), ())
    alpha = [('append', X(0)), ('append', CX(0, 1)), ('append', CX(1, 0)), ('insert', 0, X(1)), ('insert', -1, CX(0, 1)),
             ('pop', None), ('pop', (0, 0)), ('replace', (0, 0), CX(1, 0)), ('replace', (-1, 1), X(1)),
             ('renumber', (1, 0)), ('insert_circuit', 0, (2, (2, 2), ((CX(0, 1),), (X(0),))), (1, 0), False),
             ('fold', ((0, (0, 0)), (1, (0, 0))))]
    n = 0
    for L in range(1, 5):
        for hist in itertools.product(alpha, repeat=L):
            c = cc.Circuit(2)
            for step, call in enumerate(hist):
                pre = cc.snap(c)
                try:
                    with cr.watchdog(30):
                        out = cc.apply_impl(c, call)
                except cr.HistoryTimeout:
                    sig, what = classify(dict(kind='hang', call=call, detail='no return within 30s'))
                    ctx.violation(sig, dict(kind='circuit-history', pre=pre, call=call), 'the call returns', 'no return', what)
                    break
                f = None
                if out.kind == 'E' and out.val.startswith('Internal'):
                    f = dict(kind='internal_error', call=call, detail=out.val, pre=pre, step=step)
                else:
                    bad = cc.check_views(c)
                    if bad:
                        f = dict(kind='views', call=call, symptoms=[b[0] for b in bad], detail=bad[:3], pre=pre, step=step)
                if f:
                    sig, what = classify(f)
                    ctx.violation(sig, dict(kind='circuit-history', pre=pre, call=call), 'consistent views', str(f.get('detail'))[:500], what)
                    break
            n += 1
            ctx.case(('exh', hist))
    ctx.cov['exhaustive_histories'] = n
    ctx.cov['exhaustive'] = False


def replay(ctx: vf.Ctx, data):
    replay_case(ctx, data, WANT, classify)
