"""C05 - All views of a Circuit stay mutually consistent after every edit."""
from __future__ import annotations

import vf
from circ_props import BUILD, run_histories, replay_case, fold_stress, jsonable

WANT = {'views'}


def classify(f):
    k = f['kind']
    call = f['call'][0]
    if k == 'views':
        sym = sorted(set(f['symptoms']))
        return dict(call=call, symptom=sym[0]), f'after {call}: views disagree ({", ".join(sym)})'
    if k == 'coq_views':
        sym = list(f['symptoms'])
        return dict(call=call, symptom='view:' + sym[0]), (f'after {call}: the implementation\'s maintained view(s) {", ".join(sym)} differ from the '
                                                           'function of the grid defined in coq/circuit/CViews.v')
    if k == 'hang':
        return dict(call=call, symptom='hang'), f'{call} (or reading the circuit after it) does not return: ' + str(f.get('detail'))
    if k == 'iteration_raised':
        return dict(call=call, symptom='accessor_raised'), f'after {call} iterating the circuit raises: ' + str(f.get('detail'))
    if k == 'internal_error':
        return dict(call=call, symptom='internal-error'), f'{call} failed with an internal error: {f["detail"]}'
    return None


def run(ctx: vf.Ctx):
    ctx.uses_translators = set()
    ctx.build(**BUILD)
    ctx.rule = ('random editing histories (1..%d calls, same alphabet as C04) on the real Circuit; after every call the grid, '
                'the dependency view (next/prev/front/rear/first_on/last_on), the counters and iteration are recomputed from '
                'the grid read through the public API and compared with what the object reports, including the private '
                '_dag/_front/_rear/_gate_info/_graph_info, and with the values the extracted Coq view functions (coq/circuit/CViews.v) '
                'compute from the same grid; plus step-by-step comparison of the grid with the extracted Coq model (fold included) and a '
                'fold-stress stream (views after every straighten / fold and after follow-up appends); '
                'non-trivial = history with at least one successful state-changing call' % ctx.n(30, 40))
    ctx.assumptions += ['calls are type-correct (no TypeError stream)']
    ctx.trusted = ['Coq 8.16.1 kernel', 'ExtrOcamlBasic extraction + coq/extract/circuit_driver.ml',
                   'harness/circ_common.py check_views (independent recomputation of every view from the grid) and impl_views '
                   '(reading the private fields)']
    run_histories(ctx, WANT, ctx.n(700, 25000), ctx.n(30, 40), classify)
    fold_stress(ctx, WANT, classify)
    unconditional_stream(ctx)
    aliasing_stream(ctx)
    ctx.cov['editors_with_invariant_theorem'] = 22
    ctx.cov['views_defined_in_coq_and_compared'] = ['_front/first_on', '_rear/last_on', 'front', 'rear', '_dag', 'next', 'prev',
                                                   'num_operations', '_gate_info/gate_counts', '_graph_info', 'active_qudits', 'depth',
                                                   'dag_iteration']
    ctx.cov['views_oracle_only'] = ['num_params', 'coupling_graph']
    if ctx.tier == 'thorough':
        exhaustive_short(ctx)


def run_alias_history(n, rads, steps):
    """Aliasing history (finding D21): Operation OBJECTS handed to the circuit are handed in again / kept by the caller
    while qudit edits and set_param(s) run.  steps: ['new', opsnap] (append a fresh object, remember it), ['append_alias', k],
    ['insert_alias', cycle, k], ['replace_alias', [cy, q], k] (k-th remembered object), ['pop_qudit', q], ['insert_qudit', q, r],
    ['renumber', perm], ['set_param', i, x], ['set_params', [..]].  Returns (findings, model_pairs): findings = (step, symptom,
    detail); model_pairs = (pre_fmt, model_cmd, impl_line, kind) for the steps the model sees as plain calls."""
    import circ_common as cc
    from bqskit.ir.circuit import Circuit
    c = Circuit(n, list(rads))
    handed, finds, pairs = [], [], []

    def tup(x):
        return tuple(tup(y) for y in x) if isinstance(x, list) else x
    for si, st in enumerate(steps):
        st = tup(st)
        k = st[0]
        pre = cc.snap(c)
        call = None
        try:
            if k == 'new':
                op = cc.op_from_snap(st[1])
                call = ('append', st[1])
                c.append(op)
                handed.append([op, tuple(op.location), tuple(op.params)])
            elif k in ('append_alias', 'insert_alias', 'replace_alias'):
                h = handed[st[-1] % len(handed)] if handed else None
                if h is None:
                    continue
                op = h[0]
                h[1], h[2] = tuple(op.location), tuple(op.params)     # what the caller holds when handing it in
                if k == 'append_alias':
                    call = ('append', cc.snap_op(op))
                    c.append(op)
                elif k == 'insert_alias':
                    call = ('insert', st[1], cc.snap_op(op))
                    c.insert(st[1], op)
                else:
                    call = ('replace', st[1], cc.snap_op(op))
                    c.replace(st[1], op)
            elif k == 'pop_qudit':
                call = ('pop_qudit', st[1])
                c.pop_qudit(st[1])
            elif k == 'insert_qudit':
                call = ('insert_qudit', st[1], st[2])
                c.insert_qudit(st[1], st[2])
            elif k == 'renumber':
                call = ('renumber', st[1])
                c.renumber_qudits(list(st[1]))
            elif k == 'set_param':
                if c.num_params == 0:
                    continue
                i = st[1] % c.num_params
                before = [float(x) for x in c.params]
                x = float(st[2]) if before[i] != float(st[2]) else float(st[2]) + 1.0
                c.set_param(i, x)
                after = [float(y) for y in c.params]
                exp = before[:i] + [x] + before[i + 1:]
                if after != exp:
                    finds.append((si, 'set_param_changed_other_entries', dict(index=i, value=x, before=before, after=after)))
            elif k == 'set_params':
                new = [float(st[1][j % len(st[1])]) for j in range(c.num_params)] if st[1] else []
                if len(new) != c.num_params:
                    continue
                c.set_params(new)
                after = [float(y) for y in c.params]
                if after != new:
                    finds.append((si, 'set_params_not_read_back', dict(given=new, after=after)))
            ok = True
        except (ValueError, IndexError):
            ok = False
        except Exception as e:
            finds.append((si, 'internal-error', type(e).__name__ + ':' + str(e)[:150]))
            break
        try:
            bad = cc.check_views(c)
        except Exception as e:
            bad = [('accessor_raised', type(e).__name__ + ':' + str(e)[:150])]
        if bad:
            finds.append((si, bad[0][0], str(bad[:3])[:400]))
            break
        for hi, (op, loc, ps) in enumerate(handed):
            if tuple(op.location) != loc or tuple(op.params) != ps:
                finds.append((si, 'caller_object_mutated', dict(handed=hi, held=[list(loc), list(ps)], now=[list(op.location), list(op.params)])))
                handed[hi][1], handed[hi][2] = tuple(op.location), tuple(op.params)
        if call is not None and ok and not finds:
            cmd = cc.model_cmd(call)
            if cmd is not None:
                pairs.append((cc.fmt(pre), cmd, cc.fmt(cc.snap(c)), call[0]))
        if finds:
            break
    return finds, pairs


def gen_alias_history(rng):
    import circ_common as cc
    n = rng.randint(2, 5)
    rads = [2] * n if rng.random() < 0.7 else [rng.choice([2, 2, 3]) for _ in range(n)]
    steps, w, nh = [], n, 0
    for _ in range(rng.randint(4, 12)):
        r = rng.random()
        if nh == 0 or r < 0.25:
            o = cc.rand_op(rng, n, rads)            # fits the initial width; a later ValueError is a legitimate rejection
            o = (o[0], o[1], tuple(q % w for q in o[2]) if len(set(q % w for q in o[2])) == len(o[2]) else o[2], o[3], o[4], o[5])
            steps.append(['new', o])
            nh += 1
        elif r < 0.45:
            steps.append(['append_alias', rng.randrange(nh)])
        elif r < 0.52:
            steps.append(['insert_alias', rng.randint(-2, 4), rng.randrange(nh)])
        elif r < 0.58:
            steps.append(['replace_alias', [rng.randint(0, 3), rng.randrange(w)], rng.randrange(nh)])
        elif r < 0.70 and w > 1:
            steps.append(['pop_qudit', rng.randrange(w)])
            w -= 1
        elif r < 0.78:
            steps.append(['insert_qudit', rng.randint(0, w), 2])
            w += 1
        elif r < 0.88:
            perm = list(range(w))
            rng.shuffle(perm)
            steps.append(['renumber', perm])
        elif r < 0.96:
            steps.append(['set_param', rng.randrange(50), rng.randint(1, 99)])
        else:
            steps.append(['set_params', [rng.randint(1, 99) for _ in range(5)]])
    return n, rads, steps


def report_alias(ctx, case, finds):
    for si, sym, detail in finds:
        call = case['steps'][si][0]
        ctx.violation(dict(stream='aliasing', cause='shared_operation_object', call=call, symptom='alias:' + sym), dict(case, step=si),
                      'views consistent; the caller\'s Operation objects untouched; one parameter changes one entry of circuit.params',
                      jsonable(detail) if not isinstance(detail, str) else detail,
                      f'aliasing history, step {si} ({call}): {sym} - an Operation object handed to the circuit is shared with the caller / stored twice')


def aliasing_stream(ctx: vf.Ctx):
    import json
    import random
    pairs_all = []
    for f in sorted((vf.ROOT / 'corpus' / ctx.prop).glob('*.json')):
        case = json.loads(f.read_text())['case']
        if case.get('kind') != 'alias-history':
            continue
        finds, pairs = run_alias_history(case['n'], case['rads'], case['steps'])
        report_alias(ctx, case, finds)
        pairs_all += [(case, p) for p in pairs]
        ctx.count('alias:corpus')
    na = 0
    for h in range(ctx.n(250, 6000)):
        rng = random.Random(ctx.seed * 2750159 + 15485863 * h + 11)
        n, rads, steps = gen_alias_history(rng)
        case = dict(kind='alias-history', pre=[n, rads, []], call=['noop'], n=n, rads=rads, steps=jsonable(steps))
        finds, pairs = run_alias_history(n, rads, steps)
        report_alias(ctx, case, finds)
        pairs_all += [(case, p) for p in pairs]
        na += sum(1 for s in steps if s[0].endswith('_alias'))
        ctx.case(('alias', h), nontrivial=True)
    lines = []
    for _, (pre, cmd, impl, kind) in pairs_all:
        lines += ['set ' + pre, cmd]
    out = vf.run_model('circuit', lines) if lines else []
    if len(out) != len(lines):
        ctx.broken_obligation('correspondence coq/circuit/CModel.v (aliasing stream): wrong number of answers', f'{len(out)} vs {len(lines)}')
    else:
        for j, (case, (pre, cmd, impl, kind)) in enumerate(pairs_all):
            got = out[2 * j + 1]
            if got.split('|', 1)[-1].strip() != impl.strip():
                ctx.mismatch('coq/circuit/CModel.v vs bqskit/ir/circuit.py (' + kind + ', aliasing stream)', dict(pre=pre, cmd=cmd), got[:1500], impl[:1500])
    ctx.cov['aliasing_stream_alias_calls'] = na
    ctx.cov['aliasing_stream_model_steps'] = len(pairs_all)


FOCUS = {'append', 'append_circuit', 'insert_circuit', 'replace_with_circuit', 'unfold_all', 'unfold', 'renumber',
         'insert_qudit', 'pop_qudit', 'append_qudit', 'pop'}


def out_of_range_ops(c):
    """the conclusion `in_range` of C05_history_inv_unconditional read off the implementation (top level and,
    relative to the block, one level into every CircuitGate)"""
    from bqskit.ir.gates import CircuitGate
    bad = []
    for cy, op in c.operations_with_cycles():
        if any(not (0 <= q < c.num_qudits) for q in op.location):
            bad.append((cy, tuple(op.location)))
        if isinstance(op.gate, CircuitGate):
            inner = op.gate._circuit
            if inner.num_qudits != len(op.location):
                bad.append((cy, 'block-width', inner.num_qudits, tuple(op.location)))
    return bad


def unconditional_stream(ctx: vf.Ctx):
    """Tie of C05_history_inv_unconditional(_from) / C05_unfold_all_in_range: (1) the hypothesis `0 < n` is what the
    constructor and pop_qudit enforce; (2) histories concentrated on the combination the earlier theorem excluded
    (blocks, unfold_all, qudit insertion/removal, renumber_qudits): after every call the width is positive, every
    operation sits on qudits of the circuit, all views agree, and the grid equals the extracted model's."""
    import random
    import circ_common as cc
    import circ_run as cr
    from bqskit.ir.circuit import Circuit
    # (1) width guard
    for w in (0, -1):
        try:
            Circuit(w)
            ctx.violation(dict(call='Circuit', symptom='width0_accepted'), dict(kind='ctor', width=w), 'ValueError', 'accepted',
                          f'Circuit({w}) is accepted: the width hypothesis of C05_history_inv_unconditional is not enforced')
        except ValueError:
            ctx.count('width_guard:ctor_rejects')
        except Exception as e:
            ctx.violation(dict(call='Circuit', symptom='internal-error'), dict(kind='ctor', width=w), 'ValueError', repr(e)[:200],
                          f'Circuit({w}) fails with {type(e).__name__}')
    c1 = Circuit(1)
    out = cc.apply_impl(c1, ('pop_qudit', 0))
    if out.kind != 'E' or c1.num_qudits != 1:
        ctx.violation(dict(call='pop_qudit', symptom='last_qudit_removed'), dict(kind='circuit-history', pre=cc.snap(Circuit(1)), call=['pop_qudit', 0]),
                      'ValueError, width stays 1', f'{out} width {c1.num_qudits}', 'pop_qudit removed the last qudit')
    else:
        ctx.count('width_guard:pop_last_qudit_rejected')
    # (2) directed histories
    lines, index = [], []
    n_hist = ctx.n(160, 4000)
    nsteps = nun = 0
    for h in range(n_hist):
        rng = random.Random(ctx.seed * 7368787 + 104729 * h + 5)
        n = rng.randint(1, 4)
        rads = [rng.choice([2, 2, 3]) for _ in range(n)]
        c = Circuit(n, rads)
        stop = False
        for step in range(rng.randint(3, 12)):
            call = None
            for _ in range(200):
                try:
                    k = cc.gen_call(rng, c, valid_p=0.93)
                except Exception as e:
                    k = None
                    break
                if k[0] in FOCUS:
                    call = k
                    break
            if call is None:
                break
            pre = cc.snap(c)
            case = dict(kind='circuit-history', pre=jsonable(pre), call=jsonable(call))
            try:
                with cr.watchdog(30):
                    out = cc.apply_impl(c, call)
                    post = cc.snap(c)
                    bad = cc.check_views(c)
                    oor = out_of_range_ops(c)
            except cr.HistoryTimeout:
                sig, what = classify(dict(kind='hang', call=call, detail='no return within 30s CPU'))
                ctx.violation(sig, case, 'the call returns', 'no return', what)
                break
            except Exception as e:
                sig, what = classify(dict(kind='iteration_raised', call=call, detail=type(e).__name__ + ':' + str(e)[:120]))
                ctx.violation(sig, case, 'readable circuit', repr(e)[:300], what)
                break
            nsteps += 1
            nun += call[0] in ('unfold_all', 'renumber')
            ctx.count('uncond:' + call[0])
            if out.kind == 'E' and out.val.startswith('Internal'):
                sig, what = classify(dict(kind='internal_error', call=call, detail=out.val))
                ctx.violation(sig, case, 'no internal error', out.val, what)
                stop = True
            if c.num_qudits < 1:
                ctx.violation(dict(call=call[0], symptom='width0'), case, 'num_qudits >= 1', c.num_qudits, f'after {call[0]} the circuit has no qudit')
                stop = True
            if oor:
                ctx.violation(dict(call=call[0], symptom='op_out_of_range'), case, 'every operation on qudits of the circuit', str(oor[:3]),
                              f'after {call[0]} an operation sits outside the circuit\'s qudits (in_range of C05_history_inv_unconditional)')
                stop = True
            if bad:
                sig, what = classify(dict(kind='views', call=call, symptoms=[b[0] for b in bad]))
                ctx.violation(sig, case, 'consistent views', str(bad[:3])[:500], what)
                stop = True
            cmd = cc.model_cmd(call)
            if cmd is not None and not stop:
                lines += ['set ' + cc.fmt(pre), cmd]
                index.append((case, f'{out} | {cc.fmt(post)}', call[0]))
            if stop:
                break
        ctx.case(('uncond', h), nontrivial=True)
    outl = vf.run_model('circuit', lines) if lines else []
    if len(outl) != len(lines):
        ctx.broken_obligation('correspondence coq/circuit/CModel.v (unconditional stream): wrong number of answers', f'{len(outl)} vs {len(lines)}')
    else:
        for j, (case, impl, kind) in enumerate(index):
            if outl[2 * j + 1] != impl:
                ctx.mismatch('coq/circuit/CModel.v vs bqskit/ir/circuit.py (' + kind + ', unconditional stream)', case, outl[2 * j + 1][:2000], impl[:2000])
    ctx.cov['unconditional_stream_steps'] = nsteps
    ctx.cov['unconditional_stream_unfold_all_or_renumber'] = nun
    ctx.cov['unconditional_stream_model_steps'] = len(index)


def exhaustive_short(ctx: vf.Ctx):
    """all histories of length <= 4 over a small alphabet on 2 qudits"""
    import itertools
    import circ_common as cc
    import circ_run as cr
    X = lambda q: (0, 1, (q,), (), (2,), ())
    CX = lambda a, b: (0, 4, (a, b), (), (2, 2), ())
    alpha = [('append', X(0)), ('append', CX(0, 1)), ('append', CX(1, 0)), ('insert', 0, X(1)), ('insert', -1, CX(0, 1)),
             ('pop', None), ('pop', (0, 0)), ('replace', (0, 0), CX(1, 0)), ('replace', (-1, 1), X(1)),
             ('renumber', (1, 0)), ('insert_circuit', 0, (2, (2, 2), ((CX(0, 1),), (X(0),))), (1, 0), False),
             ('fold', ((0, (0, 0)), (1, (0, 0))))]
    n = 0
    for L in range(1, 5):
        for hist in itertools.product(alpha, repeat=L):
            c = cc.Circuit(2)
            for step, call in enumerate(hist):
                pre = cc.snap(c)
                try:
                    with cr.watchdog(30):
                        out = cc.apply_impl(c, call)
                except cr.HistoryTimeout:
                    sig, what = classify(dict(kind='hang', call=call, detail='no return within 30s'))
                    ctx.violation(sig, dict(kind='circuit-history', pre=pre, call=call), 'the call returns', 'no return', what)
                    break
                f = None
                if out.kind == 'E' and out.val.startswith('Internal'):
                    f = dict(kind='internal_error', call=call, detail=out.val, pre=pre, step=step)
                else:
                    bad = cc.check_views(c)
                    if bad:
                        f = dict(kind='views', call=call, symptoms=[b[0] for b in bad], detail=bad[:3], pre=pre, step=step)
                if f:
                    sig, what = classify(f)
                    ctx.violation(sig, dict(kind='circuit-history', pre=pre, call=call), 'consistent views', str(f.get('detail'))[:500], what)
                    break
            n += 1
            ctx.case(('exh', hist))
    ctx.cov['exhaustive_histories'] = n
    ctx.cov['exhaustive'] = False


def replay(ctx: vf.Ctx, data):
    case = data.get('case', {})
    if case.get('kind') == 'alias-history':
        finds, _ = run_alias_history(case['n'], case['rads'], case['steps'])
        report_alias(ctx, {k: v for k, v in case.items() if k != 'step'}, finds)
        return
    if case.get('kind') == 'ctor':
        from bqskit.ir.circuit import Circuit
        try:
            Circuit(case['width'])
            ctx.violation(dict(call='Circuit', symptom='width0_accepted'), case, 'ValueError', 'accepted', f"Circuit({case['width']}) is accepted")
        except ValueError:
            pass
        return
    replay_case(ctx, data, WANT, classify)
    if case.get('kind') == 'circuit-history' and 'pre' in case and 'call' in case:
        # the extra oracles of the unconditional stream
        import circ_common as cc

        def tup(x):
            return tuple(tup(y) for y in x) if isinstance(x, list) else x
        try:
            c = cc.circ_from_snap_exact(tup(case['pre']))
            cc.apply_impl(c, tup(case['call']))
            oor = out_of_range_ops(c)
        except Exception:
            return
        if oor:
            ctx.violation(dict(call=case['call'][0], symptom='op_out_of_range'), case, 'every operation on qudits of the circuit', str(oor[:3]),
                          'an operation sits outside the circuit\'s qudits')
