"""C03 - compile() of a unitary, state or state system reaches its target.

Proof side: coq/pass/Skeleton*.v, coq/props/C03.v, generated coq/gen/WfTarget.v (translator
harness/gen/gen_wf_target.py).  This module adds, on every run:

 A. cost-formula probes: the native cost generators compute the formulas C03_threshold_meaning_* talk about;
 B. ORACLE-INJECTION correspondence: the REAL QSearchSynthesisPass.synthesize / LEAPSynthesisPass.synthesize run on
    scripted oracles (layer generator, cost generator, heuristic: public constructor arguments; Circuit.instantiate,
    get_runtime().map, linregress: monkeypatched from here), the same script is fed to the extracted Coq model, and the
    complete decision traces + returned circuit are compared;  SetTargetPass / SynthesisPass.run likewise;
 C. list-input correspondence: the REAL compile() list branch against a scripted Compiler, vs. the model's collect;
 D. property oracle with REAL numerics: compile() of unitaries / states / state systems / lists in a child process that
    lives in its own network namespace (the attached runtime uses fixed TCP ports), every result checked against a
    SOUND bound derived from synthesis_epsilon (see bound_* below).

Worker mode (`python c03.py --worker`): reads one JSON case per line, prints one JSON result per line.
"""
from __future__ import annotations

import json
import math
import os
import signal
import subprocess
import sys
import time
import warnings
from fractions import Fraction
from pathlib import Path

if __name__ != '__main__':
    import vf

BUILD = dict(extracted=['skeleton'], translators={'gen_wf_target'})
K = 1000          # id offset of an "instantiated" circuit in the scripted runs
FLOAT_SLACK = 1e-12


# =======================================================================================
# inputs for the real-numerics runs (deterministic from the case description)
# =======================================================================================
def make_input(case):
    """case: dict(kind, family, n, radix, seed, k) -> UnitaryMatrix | StateVector | StateSystem."""
    import numpy as np
    from bqskit.ir.circuit import Circuit  # noqa: F401
    from bqskit.qis.unitary import UnitaryMatrix
    from bqskit.qis.state import StateVector, StateSystem
    n, r = case['n'], case['radix']
    radixes = [r] * n
    dim = r ** n
    rs = np.random.RandomState(case['seed'] % (2 ** 31))

    def haar(d):
        z = (rs.randn(d, d) + 1j * rs.randn(d, d)) / math.sqrt(2)
        q, rr = np.linalg.qr(z)
        ph = np.diag(rr) / np.abs(np.diag(rr))
        return q * ph

    kind, fam = case['kind'], case['family']
    if kind == 'unitary':
        if fam == 'haar':
            m = haar(dim)
        elif fam == 'identity':
            m = np.eye(dim, dtype=complex)
        elif fam == 'permutation':
            p = rs.permutation(dim)
            m = np.eye(dim, dtype=complex)[p]
        elif fam == 'qudit_permutation':      # a relabelling of the qudits (SWAP-like)
            from bqskit.qis.permutation import PermutationMatrix
            perm = list(rs.permutation(n))
            if n > 1 and perm == sorted(perm):
                perm = perm[1:] + perm[:1]
            m = np.array(PermutationMatrix.from_qudit_location(n, r, perm).numpy)
        elif fam == 'perm_local':             # P(perm) . (u_0 (x) ... (x) u_{n-1}): needs no entangler once P is factored out
            # qubits: factors in U3 form (real non-negative top-left entry).  A lone U3 layer cannot absorb the global
            # phase of a Haar factor under the residual-based instantiater, and the point of this family is that the
            # right output permutation leaves a target the initial layer already reaches.
            def u3(t, p_, l_):
                return np.array([[np.cos(t / 2), -np.exp(1j * l_) * np.sin(t / 2)],
                                 [np.exp(1j * p_) * np.sin(t / 2), np.exp(1j * (p_ + l_)) * np.cos(t / 2)]])
            loc = np.array([[1]], dtype=complex)
            for _ in range(n):
                loc = np.kron(loc, u3(*rs.uniform(0.2, 2.8, 3)) if r == 2 else haar(r))
            m = perm_matrix(n, r, case['perm']) @ loc
        elif fam == 'diagonal':
            m = np.diag(np.exp(1j * rs.uniform(0, 2 * np.pi, dim)))
        elif fam == 'clifford':
            m = clifford(rs, n) if r == 2 else np.eye(dim, dtype=complex)[rs.permutation(dim)]
        elif fam == 'near_identity':
            h = rs.randn(dim, dim) + 1j * rs.randn(dim, dim)
            h = (h + h.conj().T) / 2
            w, v = np.linalg.eigh(h)
            m = (v * np.exp(1j * 1e-3 * w)) @ v.conj().T
        else:
            raise ValueError(fam)
        return UnitaryMatrix(m, radixes)
    if kind == 'state':
        v = np.zeros(dim, dtype=complex)
        if fam == 'basis':
            v[rs.randint(dim)] = 1
        elif fam == 'zero':
            v[0] = 1
        elif fam == 'ghz':
            for d in range(r):
                v[sum(d * r ** q for q in range(n))] = 1
        elif fam == 'w':
            for q in range(n):
                v[r ** q] = 1
        elif fam == 'random':
            v = rs.randn(dim) + 1j * rs.randn(dim)
        else:
            raise ValueError(fam)
        return StateVector(v / np.linalg.norm(v), radixes)
    if kind == 'system':
        k = case['k']
        V, W = haar(dim), haar(dim)
        if fam == 'basis_in':
            V = np.eye(dim, dtype=complex)
        return StateSystem({StateVector(V[:, i], radixes): StateVector((W @ V)[:, i], radixes) for i in range(k)})
    raise ValueError(kind)


def clifford(rs, n):
    import numpy as np
    Hm = np.array([[1, 1], [1, -1]], dtype=complex) / math.sqrt(2)
    S = np.diag([1, 1j]).astype(complex)
    I2 = np.eye(2, dtype=complex)

    def on(g, q):
        m = np.array([[1]], dtype=complex)
        for i in range(n):
            m = np.kron(m, g if i == q else I2)
        return m

    def cnot(a, b):
        dim = 2 ** n
        m = np.zeros((dim, dim), dtype=complex)
        for x in range(dim):
            bits = [(x >> (n - 1 - i)) & 1 for i in range(n)]
            if bits[a]:
                bits[b] ^= 1
            y = sum(bt << (n - 1 - i) for i, bt in enumerate(bits))
            m[y, x] = 1
        return m
    u = np.eye(2 ** n, dtype=complex)
    for _ in range(3 + n):
        c = rs.randint(3)
        if c == 0:
            u = on(Hm, rs.randint(n)) @ u
        elif c == 1:
            u = on(S, rs.randint(n)) @ u
        elif n > 1:
            a, b = rs.choice(n, 2, replace=False)
            u = cnot(int(a), int(b)) @ u
    return u


# ---- independent evaluation of the property on a result -----------------------------------
def hs_cost_np(U, T):
    import numpy as np
    return 1 - abs(np.trace(T.conj().T @ U)) / T.shape[0]


def evaluate(inp, circ, pi, pf):
    """Numbers the parent compares with the bounds.  The circuit is judged under the reported mapping:
    PermutationAwareSynthesisPass (level 4) synthesizes Po^T * target and reports final_mapping = perm."""
    import numpy as np
    from bqskit.qis.unitary import UnitaryMatrix
    from bqskit.qis.state import StateVector, StateSystem
    from bqskit.qis.permutation import PermutationMatrix
    n, r = inp.num_qudits, inp.radixes[0]
    res = dict(num_qudits=circ.num_qudits, radixes=list(circ.radixes), ops=circ.num_operations,
               pi=[int(x) for x in pi], pf=[int(x) for x in pf], params=circ.num_params,
               gates=sorted({str(g) for g in circ.gate_set}))
    if circ.num_qudits != n or list(circ.radixes) != list(inp.radixes):
        res['shape_mismatch'] = True
        return res
    U = np.array(circ.get_unitary().numpy)
    Po = np.array(PermutationMatrix.from_qudit_location(n, r, list(pf)).numpy)
    Pi = np.array(PermutationMatrix.from_qudit_location(n, r, list(pi)).numpy)
    res['identity_mapping'] = list(pf) == list(range(n)) and list(pi) == list(range(n))
    if isinstance(inp, UnitaryMatrix):
        T = np.array(inp.numpy)
        res['cost_mapped'] = float(hs_cost_np(U, Po.T @ T @ Pi))
        res['cost_plain'] = float(hs_cost_np(U, T))
        x = min(1.0, abs(np.trace((Po.T @ T @ Pi).conj().T @ U)) / T.shape[0])
        res['distance_mapped'] = float(math.sqrt(max(0.0, 1 - x * x)))
    elif isinstance(inp, StateVector):
        s = np.array(inp.numpy)
        res['cost_mapped'] = float(1 - abs(np.vdot(Po.T @ s, U[:, 0])) ** 2)
        res['cost_plain'] = float(1 - abs(np.vdot(s, U[:, 0])) ** 2)
    elif isinstance(inp, StateSystem):
        zs, zs_plain = [], []
        for v, w in inp.items():
            zs.append(complex(np.vdot(Po.T @ np.array(w.numpy), U @ np.array(v.numpy))))
            zs_plain.append(complex(np.vdot(np.array(w.numpy), U @ np.array(v.numpy))))
        res['k'] = len(zs)
        res['cost_mapped'] = float(1 - abs(sum(zs)) / len(zs))
        res['cost_plain'] = float(1 - abs(sum(zs_plain)) / len(zs))
        res['pair_overlaps_mapped'] = [abs(z) for z in zs]
        res['pair_overlaps_plain'] = [abs(z) for z in zs_plain]
    return res


# =======================================================================================
# worker (child process, own network namespace)
# =======================================================================================
class CaseTimeout(BaseException):     # BaseException: compile() wraps every Exception into RuntimeError
    pass


def _alarm(signum, frame):
    raise CaseTimeout()


def worker_main():
    warnings.simplefilter('ignore')
    import logging
    # the runtime forwards the tasks' log records to the client: count the search's own
    # "No improvement after 10 layers." warnings as evidence of non-convergence
    seen_log = dict(no_improvement=0, emptied=0)

    class LogTap(logging.Handler):
        def emit(self, rec):
            try:
                m = rec.getMessage()
            except Exception:
                return
            if 'No improvement after' in m:
                seen_log['no_improvement'] += 1
            if 'Frontier emptied' in m:
                seen_log['emptied'] += 1

    lg = logging.getLogger('bqskit')
    lg.setLevel(logging.WARNING)
    lg.propagate = False
    lg.addHandler(LogTap())
    import numpy as np  # noqa: F401
    from bqskit.ir.circuit import Circuit  # noqa: F401
    from bqskit import compile as bq_compile
    from bqskit.compiler import Compiler
    from bqskit.compiler.machine import MachineModel
    signal.signal(signal.SIGALRM, _alarm)
    comp = [None]
    nworkers = int(os.environ.get('C03_WORKERS', '4'))

    def compiler():
        if comp[0] is None:
            comp[0] = Compiler(num_workers=nworkers)
        return comp[0]

    def drop():
        c, comp[0] = comp[0], None
        if c is not None:
            try:
                signal.alarm(20)
                c.close()
            except BaseException:
                try:
                    if c.p is not None:
                        c.p.kill()
                except BaseException:
                    pass
            finally:
                signal.alarm(0)

    def model_of(case, n, r):
        m = case.get('model', 'dflt')
        if m == 'dflt':
            return None
        from bqskit.ir.gates import CZGate, RZGate, SqrtXGate, RXGate, RZZGate, U3Gate, CNOTGate  # noqa: F401
        if m == 'czrzsx':
            return MachineModel(n, gate_set={CZGate(), RZGate(), SqrtXGate()})
        if m == 'wide':
            return MachineModel(n + 1)
        if m == 'swapu3':
            from bqskit.ir.gates import SwapGate
            return MachineModel(n, gate_set={SwapGate(), U3Gate()})
        raise ValueError(m)

    for line in sys.stdin:
        line = line.strip()
        if not line:
            continue
        case = json.loads(line)
        t0 = time.time()
        out = dict(id=case['id'])
        seen_log['no_improvement'] = seen_log['emptied'] = 0
        try:
            kw = dict(optimization_level=case['level'], synthesis_epsilon=case.get('eps', 1e-8),
                      seed=case.get('cseed', 1), with_mapping=True)
            signal.alarm(int(case.get('timeout', 120)))
            try:
                if case['kind'] == 'list':
                    inputs = [make_input(c) for c in case['items']]
                    results = bq_compile(inputs, compiler=compiler(), **kw)
                    signal.alarm(0)
                    out['status'] = 'ok'
                    out['n_results'] = len(results)
                    out['items'] = [evaluate(i, c, pi, pf) for i, (c, pi, pf) in zip(inputs, results)]
                    # how well does result j fit input i (only equal shapes): used to expose reordering
                    cross = []
                    for i, inp in enumerate(inputs):
                        row = []
                        for (c, pi, pf) in results:
                            if c.num_qudits == inp.num_qudits and list(c.radixes) == list(inp.radixes):
                                row.append(evaluate(inp, c, pi, pf).get('cost_mapped'))
                            else:
                                row.append(None)
                        cross.append(row)
                    out['cross'] = cross
                else:
                    inp = make_input(case)
                    model = model_of(case, inp.num_qudits, inp.radixes[0])
                    c, pi, pf = bq_compile(inp, model, compiler=compiler(), **kw)
                    signal.alarm(0)
                    out['status'] = 'ok'
                    out.update(evaluate(inp, c, pi, pf))
                    if model is not None:
                        out['model_compatible_gates'] = all(g in model.gate_set for g in c.gate_set)
            finally:
                signal.alarm(0)
        except CaseTimeout:
            out['status'] = 'timeout'
            drop()
        except BaseException as e:  # noqa
            cause = e.__cause__ or e
            msg = str(cause).strip().splitlines()
            out['status'] = 'exception'
            out['exc'] = type(e).__name__
            out['msg'] = (msg[-1] if msg else '')[:300]
            tb = str(cause)
            out['where'] = [ln.strip() for ln in tb.splitlines() if ln.strip().startswith('File "')][-3:]
            drop()
        out['wall'] = round(time.time() - t0, 2)
        out['log_no_improvement'] = seen_log['no_improvement']
        out['log_frontier_emptied'] = seen_log['emptied']
        print(json.dumps(out), flush=True)
    drop()


def run_workers(batches, budget):
    """Run each batch of cases in its own child (own netns when possible).  Returns {id: result}."""
    me = str(Path(__file__).resolve())
    use_ns = subprocess.run(['unshare', '-n', 'true'], capture_output=True).returncode == 0
    procs = []
    env = vf.env_for_impl()
    for b in batches:
        if not b:
            continue
        if use_ns:
            cmd = ['unshare', '-n', 'sh', '-c', f'ip link set lo up 2>/dev/null; exec {vf.PY} {me} --worker']
        else:
            cmd = [vf.PY, me, '--worker']
        p = subprocess.Popen(cmd, stdin=subprocess.PIPE, stdout=subprocess.PIPE, stderr=subprocess.DEVNULL,
                             text=True, env=env, start_new_session=True)
        p.stdin.write(''.join(json.dumps(c) + '\n' for c in b))
        p.stdin.close()
        p.stdin = None
        procs.append((p, b))
    results = {}
    deadline = time.time() + budget
    for p, b in procs:
        try:
            out, _ = p.communicate(timeout=max(1, deadline - time.time()))
        except subprocess.TimeoutExpired:
            try:
                os.killpg(p.pid, signal.SIGKILL)
            except Exception:
                pass
            out, _ = p.communicate()
        for ln in (out or '').splitlines():
            try:
                r = json.loads(ln)
                results[r['id']] = r
            except Exception:
                pass
        try:
            os.killpg(p.pid, signal.SIGKILL)   # stray runtime servers / workers of this child
        except Exception:
            pass
    return results, use_ns


# =======================================================================================
# bounds (SOUND: derived, not tuned)
# =======================================================================================
def bound_cost(case, res):
    """Upper bound on the cost of the returned circuit w.r.t. the (mapped) target.

    Synthesis returns only when cost < eps (C03_search_returns_success; cost = the formulas checked in part A).
    ScanningGateRemovalPass replaces the circuit only by one with cost < eps against the same data.target, otherwise
    keeps it.  Unitary inputs then pass the single-qudit retarget stage: with the default model (U3 / VariableUnitary
    native) SinglePhysicalPredicate holds and nothing changes -> bound eps.  For another gate set each of the m
    single-qudit blocks is replaced within per-block HS cost delta, i.e. within 2*sqrt(delta) in operator norm up to
    phase; with |U - pT|_F^2 = 2 N cost (C03_threshold_meaning_unitary) the triangle inequality gives
        cost' <= (sqrt(eps) + m*sqrt(2*delta))^2 .
    delta = 1e-8 (QSearch default threshold of the retarget stage) is used for every non-default model, which also
    covers the analytic decompositions.  FLOAT_SLACK covers the difference between the native cost evaluation and
    numpy's (<= ~100 gates * dim 27 * 2.2e-16)."""
    eps = case.get('eps', 1e-8)
    if case['kind'] == 'unitary' and case.get('model', 'dflt') not in ('dflt', 'wide', 'swapu3'):   # U3 native: no retarget
        m = res.get('ops', 0)
        return (math.sqrt(eps) + m * math.sqrt(2 * 1e-8)) ** 2 + FLOAT_SLACK
    return eps + FLOAT_SLACK


def classify_error(res) -> str:
    """Stable name for the root cause of an exception escaping compile() (messages carry sizes / addresses)."""
    msg = res.get('msg', '') or ''
    where = ' '.join(res.get('where') or [])
    if 'Cannot expand a single-qudit circuit' in msg:
        return 'expand_single_qudit'
    if 'VariableUnitaryGates via minimization' in msg:
        return 'variable_unitary_minimization'
    if "has no attribute 'get_residuals'" in msg:
        return 'cost_without_residuals'
    if 'pas.py' in where or ("Expected unitary or state, got <class 'numpy.ndarray'>" in msg):
        return 'pas_nonunitary_target'
    if 'radix mismatch' in msg.lower():
        return 'radix_mismatch'
    return 'other: ' + msg[:60]


def judge(ctx, case, res, replaying=False):
    """Apply the property to one worker result; returns True when a violation was recorded."""
    kind = case['kind']
    lvl = case['level']
    base = dict(kind=kind, family=case.get('family'), n=case.get('n'), radix=case.get('radix'), level=lvl)
    if res is None:
        return ctx.violation(dict(call='compile', symptom='no_answer', kind=kind), case, 'a result', 'worker produced nothing',
                             'compile() worker died or ran out of its time budget')
    st = res['status']
    if st == 'timeout':
        # A slow machine is not a counterexample.  It counts only when the search itself reported (through the
        # runtime's log forwarding) that it went 10+ layers past its best circuit without reaching the threshold,
        # on an input of <= 2 qudits for which a circuit of <= 3 layers exists.
        if res.get('log_no_improvement', 0) > 0 and case.get('n', 9) <= 2:
            sig = dict(call='compile', symptom='no_convergence', kind=kind)
            return ctx.violation(sig, case, 'compile() returns a circuit', dict(no_result_within_s=case.get('timeout'),
                                 no_improvement_warnings=res['log_no_improvement']),
                                 f'compile({kind}, optimization_level={lvl}): the search never reaches the threshold (10+ layers without improvement)')
        ctx.count('real_timeout_inconclusive')
        return False
    if st == 'exception':
        sig = dict(call='compile', symptom='exception', kind=kind, error=classify_error(res), radix=case.get('radix'))
        return ctx.violation(sig, case, 'compile() returns a circuit', dict(exc=res.get('exc'), msg=res.get('msg'), where=res.get('where')),
                             f'compile({kind}, optimization_level={lvl}) raises')
    if kind == 'list':
        bad = False
        if res['n_results'] != len(case['items']):
            return ctx.violation(dict(call='compile', symptom='list_length'), case, len(case['items']), res['n_results'],
                                 'list input: number of results differs from number of inputs')
        for i, (sub, r) in enumerate(zip(case['items'], res['items'])):
            sc = dict(sub, level=lvl, eps=case.get('eps', 1e-8))
            if r.get('shape_mismatch') or r.get('cost_mapped', 1) > bound_cost(sc, r):
                # is it a reordering?  some other result fits this input
                fits = [j for j, c in enumerate(res['cross'][i]) if c is not None and c <= bound_cost(sc, r)]
                bad = ctx.violation(dict(call='compile', symptom='list_order' if fits else 'list_item_wrong'), case,
                                    f'result {i} implements input {i}', dict(index=i, fits_results=fits, item=r),
                                    'list input: results are not in submission order' if fits else 'list input: a result misses its input') or bad
        return bad
    if res.get('shape_mismatch'):
        return ctx.violation(dict(call='compile', symptom='shape', kind=kind), case, dict(n=case['n'], radix=case['radix']),
                             dict(num_qudits=res['num_qudits'], radixes=res['radixes']), 'result circuit has the wrong shape')
    b = bound_cost(case, res)
    if not (res['cost_mapped'] <= b):
        sig = dict(call='compile', symptom='over_budget', kind=kind)
        return ctx.violation(sig, case, f'cost <= {b:.3e}', dict(cost_mapped=res['cost_mapped'], cost_plain=res['cost_plain'], pf=res['pf']),
                             f'compile({kind}) result misses its target (under the reported mapping)')
    if kind == 'system':
        k = res['k']
        lim = 1 - k * (case.get('eps', 1e-8) + FLOAT_SLACK)
        low = [o for o in res['pair_overlaps_mapped'] if not (o > lim - FLOAT_SLACK)]
        if low:
            return ctx.violation(dict(call='compile', symptom='pair_over_budget', kind=kind), case, f'every pair overlap > {lim}',
                                 res['pair_overlaps_mapped'], 'a listed pair is not mapped (C03_threshold_meaning_system bound)')
    return False


# =======================================================================================
# A. cost formulas
# =======================================================================================
def cost_probes(ctx):
    import numpy as np
    from bqskit.ir.circuit import Circuit
    from bqskit.ir.gates import U3Gate, CNOTGate, VariableUnitaryGate, CSUMGate
    from bqskit.ir.opt.cost.functions import HilbertSchmidtResidualsGenerator, HilbertSchmidtCostGenerator
    from bqskit.qis.unitary import UnitaryMatrix
    from bqskit.qis.state import StateVector, StateSystem
    rng = ctx.rng
    for t in range(ctx.n(12, 60)):
        radix = 2 if t % 3 else 3
        n = rng.choice([1, 2]) if radix == 3 else rng.choice([1, 2, 3])
        radixes = [radix] * n
        c = Circuit(n, radixes)
        for _ in range(rng.randint(1, 4)):
            for q in range(n):
                if radix == 2:
                    c.append_gate(U3Gate(), q, [rng.uniform(0, 6) for _ in range(3)])
                else:
                    g = VariableUnitaryGate(1, [3])
                    c.append_gate(g, q, [rng.uniform(-1, 1) for _ in range(g.num_params)])
            if n > 1:
                a, b = rng.sample(range(n), 2)
                c.append_gate(CNOTGate() if radix == 2 else CSUMGate(3), [a, b])
        U = np.array(c.get_unitary().numpy)
        dim = U.shape[0]
        seed = rng.randrange(2 ** 31)
        case = dict(n=n, radix=radix, seed=seed)
        T = make_input(dict(kind='unitary', family='haar', **case))
        s = make_input(dict(kind='state', family='random', **case))
        k = rng.randint(1, dim)
        sysm = make_input(dict(kind='system', family='haar', k=k, **case))
        want = [
            ('unitary', T, 1 - abs(np.trace(np.array(T.numpy).conj().T @ U)) / dim),
            ('state', s, 1 - abs(np.vdot(np.array(s.numpy), U[:, 0])) ** 2),
            ('system', sysm, 1 - abs(sum(np.vdot(np.array(w.numpy), U @ np.array(v.numpy)) for v, w in sysm.items())) / k),
        ]
        for kind, tgt, expect in want:
            for gen in (HilbertSchmidtResidualsGenerator(), HilbertSchmidtCostGenerator()):
                got = gen.calc_cost(c, tgt)
                ctx.case(('cost', kind, type(gen).__name__, n, radix, seed, k))
                ctx.count('cost_probe_' + kind)
                if not abs(got - expect) <= 1e-9:
                    ctx.violation(dict(call='calc_cost', kind=kind, generator=type(gen).__name__),
                                  dict(case, kind=kind, k=k, circuit_ops=c.num_operations), float(expect), float(got),
                                  'native cost differs from the formula used by C03_threshold_meaning', kind='correspondence',
                                  corr='coq/pass/SkeletonCost.v hs_cost/state_cost/system_cost vs bqskitrs')


# =======================================================================================
# B. scripted oracles: real synthesize() vs extracted model
# =======================================================================================
def exact_regress(xs, ys, L, d):
    """Independent exact least squares: returns None (NaN), or (delta < 0, delta == 0)."""
    n = len(xs)
    sx, sy = sum(xs), sum(ys)
    sxx = n * sum(x * x for x in xs) - sx * sx
    if sxx == 0:
        return None
    m = Fraction(n * sum(x * y for x, y in zip(xs, ys)) - sx * sy, sxx)
    yint = (Fraction(sy) - m * sx) / n
    delta = m * L + yint - d
    return (delta < 0, delta == 0)


def gen_script(rng):
    variant = rng.choice(['q', 'l', 'l'])
    thr = rng.randint(0, 4)
    npops = rng.randint(2, 12)
    nsucc = [rng.choice([0, 1, 1, 2, 2, 3]) for _ in range(npops)]
    if rng.random() < 0.7:
        nsucc[0] = max(1, nsucc[0])
    total = 1 + sum(nsucc)
    style = rng.random()
    costs = []
    for i in range(total):
        if style < 0.5:
            c = rng.randint(thr, thr + 9)                     # never below: exhausts
            if rng.random() < 0.12:
                c = thr - 1 if rng.random() < 0.5 else thr    # success / tie with the threshold
        else:
            c = max(thr, thr + 12 - i + rng.randint(-2, 2))    # decreasing trend (LEAP prefixes)
            if i > 3 and rng.random() < 0.08:
                c = thr - 1
        costs.append(c)
    if rng.random() < 0.08:
        costs[0] = rng.choice([thr - 1, thr])
    keys = [rng.randint(0, 3) for _ in range(2 * total + 4)]
    maxl = rng.choice([-1, -1, 1, 2, 3])
    minp = rng.randint(1, 3)
    regmode = rng.choice(['s', 'x']) if variant == 'l' else 's'
    regs = [rng.choice(['1', '1', '0', 'n']) for _ in range(total + 2)]
    return dict(variant=variant, thr=thr, maxl=maxl, minp=minp, regmode=regmode, nsucc=nsucc, costs=costs, keys=keys, regs=regs)


def script_line(s):
    f = lambda l: '[' + ' '.join(str(x) for x in l) + ']'   # noqa: E731
    return f"search {s['variant']} {s['thr']} {s['maxl']} {s['minp']} {s['regmode']} {K} {f(s['nsucc'])} {f(s['costs'])} {f(s['keys'])} {f(s['regs'])}"


def run_real_script(s):
    """Drive the real synthesize() on the scripted oracles; returns (trace tokens, exact-regression tie seen)."""
    import logging
    import numpy as np  # noqa: F401
    from bqskit.ir.circuit import Circuit
    from bqskit.compiler.passdata import PassData
    from bqskit.ir.opt.cost.generator import CostFunctionGenerator
    from bqskit.passes.search.generator import LayerGenerator
    from bqskit.passes.search.heuristic import HeuristicFunction
    from bqskit.passes.search.frontier import Frontier
    from bqskit.passes.synthesis.qsearch import QSearchSynthesisPass
    from bqskit.passes.synthesis.leap import LEAPSynthesisPass
    from bqskit.passes.synthesis.synthesis import SynthesisPass
    from bqskit.passes.synthesis.target import SetTargetPass
    import bqskit.passes.synthesis.qsearch as qmod
    import bqskit.passes.synthesis.leap as lmod
    from bqskit.qis.unitary import UnitaryMatrix

    tr: list[str] = []
    state = dict(pops=0, next_id=1, adds=0, last_key=None, last_eval=0, evals=0, emptied=False, best_dist=None, tie=False)

    def mk(vid):
        c = Circuit(1)
        c._vid = vid
        return c

    class Gen(LayerGenerator):
        def gen_initial_layer(self, target, data):
            return mk(0)

        def gen_successors(self, circuit, data):
            i = state['pops'] - 1
            n = s['nsucc'][i] if 0 <= i < len(s['nsucc']) else 0
            if n == 0:
                tr.append(f'nosucc:{i}')
            out = [mk(state['next_id'] + j) for j in range(n)]
            state['next_id'] += n
            return out

    class Cost(CostFunctionGenerator):
        def gen_cost(self, circuit, target):
            raise RuntimeError('not used')

        def calc_cost(self, circuit, target):
            vid = circuit._vid
            d = s['costs'][vid % K] if vid % K < len(s['costs']) else 0
            tr.append(f'init:{vid}:{d}' if state['evals'] == 0 else f'eval:{vid}:{d}')
            state['evals'] += 1
            state['last_eval'] = vid
            return d

    class Heur(HeuristicFunction):
        def get_value(self, circuit, target):
            i = state['adds']
            k = s['keys'][i] if i < len(s['keys']) else 0
            state['last_key'] = k
            return k

    o_add, o_pop = Frontier.add, Frontier.pop
    o_inst = Circuit.instantiate
    o_become = Circuit.become
    o_lin = lmod.linregress
    o_clc = LEAPSynthesisPass.check_leap_condition
    o_grt_q, o_grt_l = qmod.get_runtime, lmod.get_runtime

    def f_add(self, circuit, extra_data=None):
        o_add(self, circuit, extra_data)
        tr.append(f"add:{state['adds']}:{circuit._vid}:{extra_data}:{state['last_key']}")
        state['adds'] += 1

    def f_pop(self):
        c, layer = o_pop(self)
        tr.append(f"pop:{state['pops']}:{c._vid}:{layer}")
        state['pops'] += 1
        return c, layer

    def f_inst(self, target, **kw):
        if self._vid == 0:
            return self                      # initial layer: instantiated in place, result ignored by the code
        return mk(self._vid + K)

    def f_become(self, other, *a, **k):
        state['ret'] = getattr(other, '_vid', None)
        return o_become(self, other, *a, **k)

    class RT:
        async def map(self, fn, it, **kw):
            return [fn(x, **kw) for x in it]

    def f_lin(xs, ys):
        if s['regmode'] == 'x':
            return o_lin(xs, ys)
        i = len(xs) - 1
        r = s['regs'][i] if i < len(s['regs']) else 'n'
        bd = state['best_dist']
        y = float('nan') if r == 'n' else (bd - 1 if r == '1' else bd + 1)
        return (0.0, y, 0, 0, 0)

    def f_clc(self, new_layer, best_dist, best_layers, best_dists, last_prefix_layer):
        state['best_dist'] = best_dist
        if s['regmode'] == 'x':
            ex = exact_regress(list(best_layers), list(best_dists), new_layer, best_dist)
            if ex is not None and ex[1]:
                state['tie'] = True
        return o_clc(self, new_layer, best_dist, best_layers, best_dists, last_prefix_layer)

    class H(logging.Handler):
        def emit(self, rec):
            m = rec.getMessage()
            if m.startswith('New best circuit found with'):
                tr.append(f"best:{state['last_eval']}:{int(m.split()[5])}")
            elif m.startswith('Prefix formed at'):
                tr.append(f"prefix:{state['last_eval']}:{int(m.split()[3])}")
            elif m.startswith('Successful synthesis with'):
                tr.append(f"success:{state['last_eval']}:{int(m.split()[3])}")
            elif m.startswith('Frontier emptied'):
                state['emptied'] = True

    kwargs = dict(heuristic_function=Heur(), layer_generator=Gen(), success_threshold=s['thr'], cost=Cost(),
                  max_layer=None if s['maxl'] < 0 else s['maxl'])
    if s['variant'] == 'q':
        p = QSearchSynthesisPass(**kwargs)
    else:
        p = LEAPSynthesisPass(min_prefix_size=s['minp'], **kwargs)
    h = H()
    loggers = [logging.getLogger('bqskit.passes.synthesis.qsearch'), logging.getLogger('bqskit.passes.synthesis.leap')]
    saved = [(lg.level, lg.propagate, logging.root.manager.disable) for lg in loggers]
    logging.disable(logging.NOTSET)
    for lg in loggers:
        lg.setLevel(logging.DEBUG)
        lg.propagate = False
        lg.addHandler(h)
    Frontier.add, Frontier.pop, Circuit.instantiate, Circuit.become = f_add, f_pop, f_inst, f_become
    lmod.linregress = f_lin
    LEAPSynthesisPass.check_leap_condition = f_clc
    qmod.get_runtime = lmod.get_runtime = lambda: RT()
    try:
        target = UnitaryMatrix.identity(1)
        circuit = Circuit(1)
        data = PassData(circuit)
        # through the real SetTargetPass and SynthesisPass.run
        marker = UnitaryMatrix([[0, 1], [1, 0]])
        for ps in (SetTargetPass(marker), p):
            coro = ps.run(circuit, data)
            try:
                coro.send(None)
                raise RuntimeError('pass suspended')
            except StopIteration:
                pass
        extra = dict(target_is_marker=data.target is marker or data.target == marker)
    finally:
        Frontier.add, Frontier.pop, Circuit.instantiate, Circuit.become = o_add, o_pop, o_inst, o_become
        lmod.linregress = o_lin
        LEAPSynthesisPass.check_leap_condition = o_clc
        qmod.get_runtime, lmod.get_runtime = o_grt_q, o_grt_l
        for lg, (lv, pr, dis) in zip(loggers, saved):
            lg.removeHandler(h)
            lg.setLevel(lv)
            lg.propagate = pr
        logging.disable(saved[0][2])
    return tr, state, extra


def finish_real_trace(tr, st):
    """Append the exit events: emptied:<best> as the model logs it, and ret:<kind>:<returned circuit>
    (the circuit handed to circuit.become by SynthesisPass.run)."""
    rt = list(tr)
    if st['emptied']:
        rt.append(f"emptied:{st.get('ret')}")
        rt.append(f"ret:emptied:{st.get('ret')}")
    else:
        rt.append(f"ret:success:{st.get('ret')}")
    return rt


def scripted_correspondence(ctx):
    rng = ctx.rng
    scripts = []
    corpus_dir = vf.ROOT / 'corpus' / 'C03'
    if corpus_dir.exists():
        for f in sorted(corpus_dir.glob('script-*.json')):
            scripts.append(json.loads(f.read_text()))
    ctx.cov['corpus_scripts'] = len(scripts)
    # directed scripts: the decision points the mutants of DESIGN live on
    scripts += [
        dict(variant='q', thr=3, maxl=-1, minp=1, regmode='s', nsucc=[2, 2, 0], costs=[5, 3, 4, 3, 2], keys=[0] * 12, regs=[]),          # cost == threshold is not success
        dict(variant='q', thr=0, maxl=-1, minp=1, regmode='s', nsucc=[1, 1, 0], costs=[1, 0, 0], keys=[0] * 8, regs=[]),                  # threshold 0: never succeeds at 0
        dict(variant='q', thr=2, maxl=-1, minp=1, regmode='s', nsucc=[3, 0, 0, 0], costs=[9, 4, 1, 0], keys=[0] * 8, regs=[]),            # first below-threshold wins, not the best
        dict(variant='l', thr=2, maxl=-1, minp=1, regmode='s', nsucc=[2, 2, 2, 0, 0, 0, 0], costs=[9, 8, 7, 6, 5, 4, 3], keys=[0, 3, 2, 1, 0, 1, 2, 3, 0, 1, 2, 3, 0, 0], regs=['n', '1', '0', '1', '1', '1', '1']),
        dict(variant='l', thr=2, maxl=2, minp=1, regmode='s', nsucc=[2, 2, 2, 0, 0, 0, 0], costs=[9, 8, 7, 6, 5, 4, 3], keys=[1] * 16, regs=['n', '1', '1', '1', '1', '1', '1']),
        dict(variant='l', thr=1, maxl=-1, minp=2, regmode='x', nsucc=[1, 1, 1, 1, 1, 0], costs=[100, 90, 50, 40, 39, 2], keys=[0] * 14, regs=[]),
        dict(variant='q', thr=5, maxl=-1, minp=1, regmode='s', nsucc=[2], costs=[4, 9, 9], keys=[0] * 4, regs=[]),                          # success at layer 0
    ]
    for _ in range(ctx.n(400, 4000)):
        scripts.append(gen_script(rng))
    lines, reals = [], []
    for s in scripts:
        try:
            tr, st, extra = run_real_script(s)
        except Exception as e:  # noqa
            ctx.broken_obligation('oracle injection: real synthesize() raised on a script', f'{type(e).__name__}: {e} on {s}')
            continue
        if st['tie']:
            ctx.count('script_skipped_exact_regression_tie')
            continue
        lines.append(script_line(s))
        reals.append((s, tr, st, extra))
    outs = vf.run_model('skeleton', lines) if lines else []
    if len(outs) != len(lines):
        ctx.broken_obligation('correspondence skeleton model: wrong number of answers', f'{len(outs)} vs {len(lines)}')
        return
    n_pref = n_succ = n_empt = 0
    for (s, tr, st, extra), mo in zip(reals, outs):
        mtrace = mo.split()
        ret = mtrace[-1]
        rt = finish_real_trace(tr, st)
        nontrivial = any(t.startswith('eval:') for t in rt)
        ctx.case(('script', json.dumps(s, sort_keys=True)), nontrivial=nontrivial)
        ctx.count('script_' + ('qsearch' if s['variant'] == 'q' else 'leap_' + s['regmode']))
        n_pref += any(t.startswith('prefix:') for t in rt)
        n_succ += ret.startswith('ret:success')
        n_empt += ret.startswith('ret:emptied')
        if len(ctx.samples) < 3 and any(t.startswith('prefix:') for t in rt):
            ctx.sample(dict(script=s, model_trace=mo))
        if ret == 'ret:outoffuel':
            ctx.broken_obligation('model ran out of fuel on a terminating script', script_line(s))
            continue
        if rt != mtrace:
            first = next((i for i, (a, b) in enumerate(zip(rt, mtrace)) if a != b), min(len(rt), len(mtrace)))
            ctx.violation(dict(call=('QSearchSynthesisPass' if s['variant'] == 'q' else 'LEAPSynthesisPass') + '.synthesize', kind='model-mismatch'),
                          dict(script=s), ' '.join(mtrace[max(0, first - 2):first + 3]), ' '.join(rt[max(0, first - 2):first + 3]),
                          f'decision trace of the real synthesize() differs from the Coq model at step {first}',
                          kind='correspondence', corr='coq/pass/Skeleton.v search vs passes/synthesis/{qsearch,leap}.py')
            # property oracle on the real trace: did the real code break the property itself?
        property_on_trace(ctx, s, rt)
        if not extra['target_is_marker']:
            ctx.violation(dict(call='SetTargetPass.run'), dict(script=s), 'data.target is the SetTargetPass argument', 'different',
                          'SetTargetPass did not install its target')
    ctx.cov['scripts'] = len(lines)
    ctx.cov['scripts_with_prefix'] = n_pref
    ctx.cov['scripts_success_exit'] = n_succ
    ctx.cov['scripts_emptied_exit'] = n_empt


def property_on_trace(ctx, s, rt):
    """C03 evaluated directly on what the real synthesize() did (independent of the model)."""
    thr = s['thr']
    evals = [(int(t.split(':')[1]), int(t.split(':')[2])) for t in rt if t.startswith(('eval:', 'init:'))]
    succ = [t for t in rt if t.startswith('success:')]
    name = ('QSearchSynthesisPass' if s['variant'] == 'q' else 'LEAPSynthesisPass') + '.synthesize'
    ret = [t for t in rt if t.startswith('ret:')]
    ret_vid = ret[-1].split(':')[2] if ret else 'None'
    if succ:
        vid = int(succ[-1].split(':')[1])
        if ret_vid != str(vid):
            ctx.violation(dict(call=name, symptom='wrong_success_circuit'), dict(script=s), vid, ret_vid,
                          'success exit: the circuit installed by SynthesisPass.run is not the one that passed the success test')
        d = dict(evals)[vid]
        if not d < thr:
            ctx.violation(dict(call=name, symptom='success_above_threshold'), dict(script=s), f'cost < {thr}', d,
                          'synthesize() returned through the success exit with cost >= success_threshold')
        firsts = [v for v, dd in evals if dd < thr]
        if firsts and firsts[0] != vid:
            ctx.violation(dict(call=name, symptom='wrong_success_circuit'), dict(script=s), firsts[0], vid,
                          'synthesize() did not return the circuit that passed the success test')
    else:
        below = [v for v, dd in evals if dd < thr]
        if below:
            ctx.violation(dict(call=name, symptom='missed_success'), dict(script=s), f'return circuit {below[0]}', 'kept searching',
                          'a circuit below the threshold was evaluated but not returned')
        emp = [t for t in rt if t.startswith('emptied:')]
        if emp and evals:
            vid = int(emp[-1].split(':')[1]) if emp[-1].split(':')[1] != 'None' else -1
            dm = min(dd for _, dd in evals)
            first_min = next(v for v, dd in evals if dd == dm)
            if vid != first_min:
                ctx.violation(dict(call=name, symptom='best_not_min'), dict(script=s), first_min, vid,
                              'frontier-emptied exit did not return the earliest circuit of least cost')


# =======================================================================================
# C. list path of compile() against a scripted Compiler
# =======================================================================================
def list_correspondence(ctx):
    import uuid
    import numpy as np  # noqa: F401
    from bqskit.ir.circuit import Circuit
    from bqskit.ir.gates import XGate
    from bqskit.compiler.compiler import Compiler
    from bqskit.compiler.passdata import PassData
    from bqskit.compiler.workflow import Workflow
    from bqskit.passes.synthesis.target import SetTargetPass
    from bqskit import compile as bq_compile
    from bqskit.qis.state import StateVector

    rng = ctx.rng

    class Fake(Compiler):
        def __init__(self, ids, order):
            self.p = None
            self.conn = None
            self.ids = list(ids)
            self.order = order
            self.submitted = []
            self.done = None

        def submit(self, circuit, workflow, request_data=False, *a, **k):
            j = self.ids[len(self.submitted)]
            self.submitted.append((j, circuit, Workflow(workflow)))
            return j

        def _finish(self):
            # the server finishes the jobs in the scripted order; each result is tagged with its job's position
            self.done = {}
            for pos in self.order:
                j, circ, wfl = self.submitted[pos]
                out = Circuit(1)
                for _ in range(pos):
                    out.append_gate(XGate(), 0)
                d = PassData(out)
                d['job_pos'] = pos
                self.done[j] = (out, d)

        def result(self, task_id):
            if self.done is None:
                self._finish()
            return self.done[task_id]

        def close(self):
            pass

        def __del__(self):
            pass

    from bqskit.qis.unitary import UnitaryMatrix
    from bqskit.qis.state import StateSystem
    lines, expect = [], []
    nrand = ctx.n(40, 400)
    directed = [
        [('state', make_input(dict(kind='state', family='random', n=1, radix=2, seed=11)))],                  # [state]
        [('state', make_input(dict(kind='state', family='random', n=2, radix=2, seed=12)))],
        [('state', StateVector([1, 0])), ('state', StateVector([0, 1]))],                                       # a full basis: looks like a unitary
        [('state', StateVector([0, 1])), ('state', StateVector([1, 0]))],
        [('unitary', make_input(dict(kind='unitary', family='haar', n=1, radix=2, seed=13)))],                  # [unitary]
        [('system', make_input(dict(kind='system', family='haar', n=1, radix=2, seed=14, k=1)))],               # [system]
    ]
    for t in range(nrand + len(directed)):
        n = rng.randint(1, 6)
        if t >= nrand:
            n = len(directed[t - nrand])
        ids = []
        while len(ids) < n:
            x = rng.randrange(1, 60)
            if x not in ids:
                ids.append(x)
        order = list(range(n))
        rng.shuffle(order)
        inputs = []
        if t >= nrand:
            inputs = directed[t - nrand]
        else:
            for i in range(n):
                kind = rng.choice(['unitary', 'state', 'system'])
                inputs.append((kind, make_input(dict(kind=kind, family={'unitary': 'haar', 'state': 'random', 'system': 'haar'}[kind],
                                                     n=rng.choice([1, 2]), radix=2, seed=rng.randrange(2 ** 31), k=1))))
        uu = [uuid.UUID(int=x) for x in ids]
        fk = Fake(uu, order)
        with_mapping = rng.random() < 0.3
        xs = [x for _, x in inputs]
        shape = [f'{k}{x.num_qudits}' for k, x in inputs]
        # compile() decides "sequence of inputs" by asking whether the whole list is itself a unitary / state / system
        misread = ('unitary' if UnitaryMatrix.is_unitary(xs) else 'state' if StateVector.is_pure_state(xs)
                   else 'system' if StateSystem.is_state_system(xs) else None)
        ctx.count('list_shape_looks_like_' + str(misread))
        try:
            res = bq_compile(xs, optimization_level=rng.randint(1, 4), compiler=fk, with_mapping=with_mapping)
        except Exception as e:  # noqa
            ctx.case(('list', tuple(shape), tuple(ids), tuple(order)), nontrivial=True)
            ctx.violation(dict(call='compile', symptom='list_misread' if misread else 'list_exception', misread_as=misread),
                          dict(ids=ids, order=order, shape=shape), 'a list with one circuit per input', f'{type(e).__name__}: {str(e)[:160]}',
                          'compile() takes a list of inputs for a single input and raises' if misread else
                          'compile() list branch raised with a scripted compiler')
            continue
        if not isinstance(res, list):
            ctx.case(('list', tuple(shape), tuple(ids), tuple(order)), nontrivial=True)
            ctx.violation(dict(call='compile', symptom='list_misread', misread_as=misread),
                          dict(ids=ids, order=order, shape=shape), f'a list of {n} circuits', f'a single {type(res).__name__}',
                          'compile() takes a list of inputs for a single input and returns ONE circuit')
            continue
        got = [(r[0] if with_mapping else r).num_operations for r in res]
        # each workflow must carry its own input as SetTargetPass target, in submission order
        tgt_ok = True
        for (j, circ, wfl), (_, inp) in zip(fk.submitted, inputs):
            sts = [p for p in wfl._passes if isinstance(p, SetTargetPass)]
            if len(sts) != 1 or not _same(sts[0].target, inp):
                tgt_ok = False
        ctx.case(('list', tuple(shape), tuple(ids), tuple(order)), nontrivial=n > 1 and order != sorted(order))
        ctx.count('list_cases')
        if not tgt_ok:
            ctx.violation(dict(call='compile', symptom='list_workflow_target'), dict(ids=ids, order=order), 'workflow i targets input i', 'mismatch',
                          'list input: a submitted workflow does not carry its own input as target')
        if got != list(range(n)):
            ctx.violation(dict(call='compile', symptom='list_order'), dict(ids=ids, order=order, n=n), list(range(n)), got,
                          'list input: results are not returned in submission order')
        lines.append(f"list {n} [{' '.join(map(str, ids))}] [{' '.join(map(str, order))}]")
        expect.append(got)
    outs = vf.run_model('skeleton', lines)
    for ln, mo, got in zip(lines, outs, expect):
        if mo != '[' + ' '.join(map(str, got)) + ']':
            ctx.violation(dict(call='compile', kind='model-mismatch', symptom='list'), dict(query=ln), mo, got,
                          'list branch of compile() and the Coq client-loop model disagree', kind='correspondence',
                          corr='coq/pass/Skeleton.v compile_list vs compiler/compile.py')


def _same(a, b):
    import numpy as np
    from bqskit.qis.state.system import StateSystem
    if type(a) is not type(b):
        return False
    if isinstance(a, StateSystem):
        ka, kb = list(a.keys()), list(b.keys())
        return len(ka) == len(kb) and all(np.array_equal(x.numpy, y.numpy) and np.array_equal(a[x].numpy, b[y].numpy) for x, y in zip(ka, kb))
    return np.array_equal(a.numpy, b.numpy)


# =======================================================================================
# E. permutation bookkeeping of PermutationAwareSynthesisPass / EmbedAllPermutationsPass
# =======================================================================================
def perm_matrix(n, r, loc):
    """Textbook matrix of the qudit relabelling: position i of the output index receives qudit loc[i]
    (the convention of PermutationMatrix.from_qudit_location, re-derived here; cross-checked below)."""
    import numpy as np
    dim = r ** n
    m = np.zeros((dim, dim))
    for col in range(dim):
        digs = [(col // r ** (n - 1 - q)) % r for q in range(n)]
        out = [digs[loc[i]] for i in range(n)]
        m[sum(dg * r ** (n - 1 - i) for i, dg in enumerate(out)), col] = 1
    return m


def pas_probe(ctx):
    """Pass-level: the REAL PermutationAwareSynthesisPass.synthesize / EmbedAllPermutationsPass.run with an exact inner
    synthesis and a scripted scoring function that makes EVERY candidate permutation win in turn.  Property (documented
    meaning of the mappings, tests/compiler/compile/test_with_mapping.py):  circuit == PF^T . U . PI  for the
    (initial_mapping, final_mapping) = (PI, PF) the pass reports - never 'up to some permutation'.  The winner and the
    reported mapping are also compared with the extracted Coq model `pas`."""
    import itertools as it
    import numpy as np
    from bqskit.ir.circuit import Circuit
    from bqskit.compiler.passdata import PassData
    from bqskit.passes.synthesis.pas import PermutationAwareSynthesisPass
    from bqskit.passes.mapping.embed import EmbedAllPermutationsPass
    from bqskit.passes.synthesis.synthesis import SynthesisPass
    import bqskit.passes.synthesis.pas as pmod
    import bqskit.passes.mapping.embed as emod
    from bqskit.qis.unitary import UnitaryMatrix
    from bqskit.qis.permutation import PermutationMatrix
    rng = ctx.rng
    st = dict(n=0, scores=[])

    class Exact(SynthesisPass):
        async def synthesize(self, target, data):
            c = Circuit.from_unitary(UnitaryMatrix(np.array(target), target.radixes))
            c._idx = st['n']
            st['n'] += 1
            return c

    class RT:
        async def map(self, fn, *its, **kw):
            return [await fn(*a) for a in zip(*its)]

    def drive(coro):
        try:
            coro.send(None)
        except StopIteration as e:
            return e.value
        raise RuntimeError('pass suspended')

    def score(c):
        i = getattr(c, '_idx', None)
        return st['scores'][i] if i is not None and i < len(st['scores']) else 10 ** 6

    def local_perm_target(n, r, perm, seed):
        loc = np.array([[1]], dtype=complex)
        for q in range(n):
            loc = np.kron(loc, np.array(make_input(dict(kind='unitary', family='haar', n=1, radix=r, seed=seed + q)).numpy))
        return UnitaryMatrix(perm_matrix(n, r, perm) @ loc, [r] * n)

    o_q, o_e = pmod.get_runtime, emod.get_runtime
    pmod.get_runtime = emod.get_runtime = lambda: RT()
    import logging
    plog = logging.getLogger('bqskit.passes.synthesis.pas')
    plevel = plog.level
    plog.setLevel(logging.ERROR)          # "No permutation is being used in PAS."
    lines, expect = [], []
    try:
        for n, r in ((3, 2), (3, 3), (2, 2)) if ctx.quick() else ((3, 2), (3, 3), (2, 2), (2, 3), (1, 2)):
            perms = list(it.permutations(range(n)))
            for p in perms:        # the harness' own permutation matrices agree with the library's
                if not np.array_equal(perm_matrix(n, r, p), np.array(PermutationMatrix.from_qudit_location(n, r, p).numpy).real):
                    ctx.violation(dict(call='from_qudit_location'), dict(n=n, radix=r, perm=p), 'relabelling matrix', 'different', 'permutation matrix convention')
            targets = [('haar', make_input(dict(kind='unitary', family='haar', n=n, radix=r, seed=rng.randrange(2 ** 31))))]
            if not ctx.quick():
                tperms = perms
            elif (n, r) == (3, 2):
                tperms = [perms[3], perms[4], rng.choice([perms[1], perms[2], perms[5]])]   # both 3-cycles + a transposition
            else:
                tperms = []
            for p in tperms:
                targets.append((f'perm{p}.local', local_perm_target(n, r, p, rng.randrange(2 ** 30))))
            for tname, U in targets:
                Un = np.array(U.numpy)
                for ip, op in ((False, True), (True, False), (True, True), (False, False)):
                    if ctx.quick() and ((not ip and not op and tname != 'haar') or ((n, r) != (3, 2) and ip and not op)):
                        continue
                    ncand = len(perms) ** (int(ip) + int(op))
                    winners = list(range(ncand))
                    if ncand > 6 and ctx.quick():
                        winners = rng.sample(winners, 8 if (n, r) == (3, 2) else 3)
                    scripts = [[5 if j != w else 1 for j in range(ncand)] for w in winners]
                    scripts.append([3] * ncand)                                   # all tied: the first wins
                    if ncand > 2:
                        a, b = sorted(rng.sample(range(ncand), 2))
                        scripts.append([2 if j in (a, b) else 4 for j in range(ncand)])   # tie of two minima
                    for sc in scripts:
                        st['n'], st['scores'] = 0, sc
                        pas = PermutationAwareSynthesisPass(input_perm=ip, output_perm=op, inner_synthesis=Exact(), scoring_fn=score)
                        data = PassData(Circuit(n, [r] * n))
                        case = dict(n=n, radix=r, target=tname, input_perm=ip, output_perm=op, scores=sc)
                        ctx.case(('pas', n, r, tname, ip, op, tuple(sc)), nontrivial=ncand > 1)
                        ctx.count('pas_probe')
                        try:
                            circ = drive(pas.synthesize(U, data))
                        except Exception as e:  # noqa
                            ctx.violation(dict(call='PermutationAwareSynthesisPass.synthesize', symptom='exception'), case, 'a circuit',
                                          f'{type(e).__name__}: {e}', 'PAS raised on a unitary target')
                            continue
                        pi = tuple(data.get('initial_mapping', tuple(range(n))))
                        pf = tuple(data.get('final_mapping', tuple(range(n))))
                        want = perm_matrix(n, r, pf).T @ Un @ perm_matrix(n, r, pi)
                        got = np.array(circ.get_unitary().numpy)
                        cost = hs_cost_np(got, want)
                        if not cost <= 1e-9:
                            alt = hs_cost_np(got, perm_matrix(n, r, pf) @ Un @ perm_matrix(n, r, pi).T)
                            ctx.violation(dict(call='PermutationAwareSynthesisPass.synthesize', symptom='reported_mapping_wrong'),
                                          dict(case, initial_mapping=pi, final_mapping=pf), 'circuit == PF^T . U . PI (cost 0)',
                                          dict(cost=float(cost), cost_if_inverse_mapping=float(alt)),
                                          'PAS: the returned circuit is not the target under the mapping the pass reports')
                        lines.append(f"pas {int(ip)} {int(op)} {len(perms)} [{' '.join(map(str, sc))}]")
                        expect.append((case, [getattr(circ, '_idx', -1), perms.index(pi), perms.index(pf)]))
                # EmbedAllPermutationsPass: every stored (pi, pf) entry obeys the same equation
                for ip, op in ((False, True), (True, True)):
                    if ctx.quick() and ((n, r) != (3, 2) or (tname != 'haar' and ip)):
                        continue
                    st['n'], st['scores'] = 0, []
                    emb = EmbedAllPermutationsPass(inner_synthesis=Exact(), input_perm=ip, output_perm=op, vary_topology=False)
                    c0 = Circuit.from_unitary(U)
                    data = PassData(c0)
                    try:
                        drive(emb.run(c0, data))
                    except Exception as e:  # noqa
                        ctx.violation(dict(call='EmbedAllPermutationsPass.run', symptom='exception'), dict(n=n, radix=r, target=tname),
                                      'permutation_data', f'{type(e).__name__}: {e}', 'embed pass raised')
                        continue
                    ctx.case(('embed', n, r, tname, ip, op))
                    ctx.count('embed_probe')
                    for graph, gd in data['permutation_data'].items():
                        for (pi, pf), circ in gd.items():
                            want = perm_matrix(n, r, pf).T @ Un @ perm_matrix(n, r, pi)
                            cost = hs_cost_np(np.array(circ.get_unitary().numpy), want)
                            if not cost <= 1e-9:
                                ctx.violation(dict(call='EmbedAllPermutationsPass.run', symptom='reported_mapping_wrong'),
                                              dict(n=n, radix=r, target=tname, input_perm=ip, output_perm=op, pi=pi, pf=pf),
                                              'entry (pi, pf) == PF^T . U . PI', float(cost),
                                              'embed pass: a stored circuit is not the target under its own (pi, pf) key')
    finally:
        pmod.get_runtime, emod.get_runtime = o_q, o_e
        plog.setLevel(plevel)
    outs = vf.run_model('skeleton', lines) if lines else []
    for ln, mo, (case, got) in zip(lines, outs, expect):
        if mo != '[' + ' '.join(map(str, got)) + ']':
            ctx.violation(dict(call='PermutationAwareSynthesisPass.synthesize', kind='model-mismatch'), dict(case, query=ln), mo, got,
                          'PAS winner / reported mapping differ from the Coq model', kind='correspondence',
                          corr='coq/pass/Skeleton.v pas vs passes/synthesis/pas.py')
    ctx.cov['pas_model_queries'] = len(lines)


# =======================================================================================
# D. real numerics
# =======================================================================================
U_FAMILIES = ['haar', 'identity', 'permutation', 'qudit_permutation', 'diagonal', 'clifford', 'near_identity']
S_FAMILIES = ['random', 'basis', 'ghz', 'w', 'zero']


def real_cases(ctx):
    """Seeded case list.  Quick: a small subset, three children in parallel.  Thorough: ~150 inputs."""
    rng = ctx.rng
    cases = []

    def add(kind, family, n, radix, level, timeout, **kw):
        c = dict(kind=kind, family=family, n=n, radix=radix, level=level, seed=rng.randrange(2 ** 31), timeout=timeout, **kw)
        c['id'] = (f"{kind}-{family}-r{radix}w{n}-L{level}-{c['seed']}" + (f"-k{kw['k']}" if 'k' in kw else '')
                   + (f"-{kw['model']}" if 'model' in kw else '') + (f"-eps{kw['eps']}" if 'eps' in kw else '')
                   + (f"-p{''.join(map(str, kw['perm']))}" if 'perm' in kw else ''))
        cases.append(c)
        return c

    if ctx.quick():
        t = 45
        # level 4 on 3 qudits where the winning output permutation is a 3-cycle (the only permutations that differ from
        # their inverse): the reported final_mapping must be the one the circuit was synthesized for
        add('unitary', 'perm_local', 3, 2, 4, 100, perm=[1, 2, 0], model='swapu3', priority=1)
        add('unitary', 'perm_local', 3, 2, 4, 100, perm=[2, 0, 1], model='swapu3', priority=1)
        add('unitary', 'haar', 1, 2, 1, t)
        add('unitary', 'near_identity', 1, 2, 3, t)
        add('unitary', 'haar', 2, 2, 1, t)
        add('unitary', rng.choice(['diagonal', 'clifford']), 2, 2, 2, t)
        add('unitary', 'qudit_permutation', 2, 2, 4, t)
        add('unitary', 'identity', 3, 2, 1, t)
        add('unitary', 'haar', 1, 3, rng.choice([1, 2]), t)
        add('unitary', 'haar', 1, 2, 2, t, model='czrzsx')
        add('state', 'random', 2, 2, 1, t)
        add('state', rng.choice(['ghz', 'w']), 2, 2, 1, t)
        add('unitary', rng.choice(['permutation', 'diagonal']), 1, 3, rng.choice([3, 4]), t)
        add('system', 'haar', 2, 2, 1, t, k=2)
        add('system', 'haar', 2, 2, 2, t, k=1)
        add('system', 'haar', 2, 2, 3, t, k=4)
        # state workflow at level >= 2: does not converge (open finding C03-F5; the other open findings are in the corpus)
        add('state', 'random', 2, 2, 2, 30)
        items = [dict(kind='unitary', family='haar', n=2, radix=2, seed=rng.randrange(2 ** 31)),
                 dict(kind='unitary', family='haar', n=1, radix=2, seed=rng.randrange(2 ** 31)),
                 dict(kind='state', family='random', n=2, radix=2, seed=rng.randrange(2 ** 31)),
                 dict(kind='unitary', family='diagonal', n=1, radix=2, seed=rng.randrange(2 ** 31))]
        cases.append(dict(kind='list', id=f"list-{items[0]['seed']}", items=items, level=1, timeout=60))
    else:
        t = 240
        for fam in U_FAMILIES:
            for n in (1, 2):
                for lvl in (1, 2, 3, 4):
                    add('unitary', fam, n, 2, lvl, t)
            add('unitary', fam, 3, 2, 1, 600)
        for lvl in (2, 3):
            add('unitary', 'haar', 3, 2, lvl, 900)
            add('unitary', 'clifford', 3, 2, lvl, 900)
        add('unitary', 'identity', 3, 2, 4, 900)
        for fam in ('haar', 'permutation', 'diagonal', 'identity'):
            for lvl in (1, 2, 3, 4):
                add('unitary', fam, 1, 3, lvl, t)
            add('unitary', fam, 2, 3, 1, 900)
        for n in (1, 2):
            for lvl in (1, 2, 3, 4):
                add('unitary', 'haar', n, 2, lvl, t, model='czrzsx')
        add('unitary', 'haar', 2, 2, 1, t, model='wide')
        import itertools as _it
        for pm in _it.permutations(range(3)):
            add('unitary', 'perm_local', 3, 2, 4, 600, perm=list(pm), model='swapu3')
        add('unitary', 'perm_local', 3, 2, 4, 900, perm=[1, 2, 0])
        add('unitary', 'perm_local', 3, 2, 4, 900, perm=[2, 0, 1])
        add('unitary', 'perm_local', 2, 3, 4, 900, perm=[1, 0])
        # other budgets: the bound scales with synthesis_epsilon
        add('unitary', 'haar', 2, 2, 1, t, eps=1e-4)
        add('unitary', 'clifford', 2, 2, 2, t, eps=1e-12)
        add('state', 'random', 2, 2, 1, t, eps=1e-5)
        add('system', 'haar', 2, 2, 1, t, k=2, eps=1e-5)
        for fam in S_FAMILIES:
            for n in (1, 2, 3):
                add('state', fam, n, 2, 1, t)
            add('state', fam, 2, 2, rng.choice([2, 3, 4]), 90)
        for n in (1, 2):
            add('state', 'random', n, 3, 1, t)
            add('state', 'ghz', n, 3, 1, t)
        for lvl in (1, 2, 3, 4):
            for k in (1, 2, 4):
                add('system', 'haar', 2, 2, lvl, 300, k=k)
            add('system', 'haar', 1, 2, lvl, t, k=rng.choice([1, 2]))
        add('system', 'basis_in', 2, 2, 1, 300, k=3)
        add('system', 'haar', 3, 2, 1, 900, k=2)
        add('system', 'haar', 1, 3, 1, t, k=2)
        for _ in range(4):
            items = []
            for _ in range(rng.randint(3, 5)):
                kind = rng.choice(['unitary', 'unitary', 'state', 'system'])
                fam = {'unitary': rng.choice(['haar', 'diagonal', 'clifford']), 'state': 'random', 'system': 'haar'}[kind]
                # 1-qudit states / systems hit the open finding C03-F1: keep them out of the ordering test
                items.append(dict(kind=kind, family=fam, n=rng.choice([1, 2]) if kind == 'unitary' else 2, radix=2,
                                  seed=rng.randrange(2 ** 31), k=rng.choice([1, 2])))
            # slow first, fast later: a completion-ordered result list would differ
            items.sort(key=lambda c: -c['n'])
            cases.append(dict(kind='list', id=f"list-{items[0]['seed']}", items=items, level=1, timeout=600))
    return cases


def real_numerics(ctx, extra_cases=()):
    main_cases = real_cases(ctx)
    cases = list(extra_cases) + main_cases
    nb = 3 if ctx.quick() else 5

    def weight(c):
        if c['kind'] == 'list':
            return 30
        return (c['n'] ** 3) * c['radix'] * (1 + c['level'])

    # child 0: the corpus (open findings: every exception costs a Compiler restart) and short-timeout cases;
    # the other children: the ordinary cases, cheapest first, balanced by expected cost
    batches = [[] for _ in range(nb)]
    loads = [0] * nb
    special = list(extra_cases) + [c for c in main_cases if c.get('timeout', 999) <= 30]
    batches[0] = special
    loads[0] = sum(weight(c) for c in special) + 25 * len(special)
    for c in sorted((c for c in main_cases if c not in special), key=lambda c: (c.get('priority', 0), weight(c)), reverse=True):
        i = 1 + loads[1:].index(min(loads[1:])) if c.get('priority') and nb > 1 else loads.index(min(loads))
        batches[i].append(c)
        loads[i] += weight(c)
    for b in batches[1:]:
        b.sort(key=lambda c: (-c.get('priority', 0), weight(c)))
    budget = float(os.environ.get('C03_REAL_BUDGET', 100 if ctx.quick() else 1700))
    t0 = time.time()
    results, used_ns = run_workers(batches, budget)
    ctx.cov['real_runs_wall_s'] = round(time.time() - t0, 1)
    ctx.cov['real_runs_private_netns'] = used_ns
    unanswered = 0
    for c in cases:
        r = results.get(c['id'])
        key = ('real', c['id'])
        ctx.case(key, nontrivial=True)
        ctx.count(f"real_{c['kind']}_L{c['level']}")
        if r is None:
            # the time budget of the tier ran out (loaded machine): nothing is concluded from it
            unanswered += 1
            ctx.count('real_unanswered_budget')
            continue
        ctx.count('real_status_' + r['status'])
        if r['status'] == 'ok' and c.get('family') == 'perm_local' and sorted(r.get('pf', [])) == list(range(c['n'])) \
                and c['n'] == 3 and all(r['pf'][i] != i for i in range(3)):
            ctx.count('real_level4_winner_is_3cycle')
        judge(ctx, c, r)
        if r['status'] == 'ok' and c['kind'] != 'list' and len(ctx.samples) < 6:
            ctx.sample(dict(case=c['id'], cost=r.get('cost_mapped'), ops=r.get('ops'), pf=r.get('pf'), wall=r.get('wall')))
    ctx.cov['real_cases'] = len(cases)
    ctx.cov['real_unanswered'] = unanswered
    return results


# =======================================================================================
# D11 re-confirmation (pass level; and through compile())
# =======================================================================================
def d11_probe(ctx):
    """GeneralSQDecomposition on a qutrit block (design finding D11), called directly."""
    from bqskit.ir.circuit import Circuit
    from bqskit.compiler.passdata import PassData
    from bqskit.compiler.machine import MachineModel
    from bqskit.ir.gates import VariableUnitaryGate, CSUMGate
    from bqskit.passes.retarget.general import GeneralSQDecomposition
    g = VariableUnitaryGate(1, [3])
    c = Circuit(1, [3])
    c.append_gate(g, 0, [ctx.rng.uniform(-1, 1) for _ in range(g.num_params)])
    c.append_gate(g, 0, [ctx.rng.uniform(-1, 1) for _ in range(g.num_params)])
    U = c.get_unitary()
    data = PassData(c)
    data.model = MachineModel(1, radixes=[3], gate_set={g, CSUMGate(3)})
    coro = GeneralSQDecomposition().run(c, data)
    try:
        coro.send(None)
    except StopIteration:
        ok = tuple(c.radixes) == (3,) and c.get_unitary().get_distance_from(U) < 1e-6
        ctx.cov['D11_pass_level'] = 'not reproduced (qutrit block decomposed correctly)' if ok else 'wrong result'
    except Exception as e:  # noqa
        ctx.cov['D11_pass_level'] = f'reproduced: {type(e).__name__}: {str(e)[:160]}'


# =======================================================================================
def run(ctx: 'vf.Ctx'):
    ctx.uses_translators = BUILD['translators']
    tb = time.time()
    ctx.build(**BUILD)
    ctx.cov['t_build_s'] = round(time.time() - tb, 1)
    warnings.simplefilter('ignore')
    ctx.rule = ('A: native cost generators vs the three cost formulas on random circuits/targets (qubits, qutrits). '
                'B: scripts (threshold, max_layer, min_prefix, successors per pop, integer cost per circuit, heuristic key per '
                'frontier insertion, regression answers or exact regression) drawn from the seeded PRNG + directed scripts; the real '
                'QSearch/LEAP synthesize() run on the scripted oracles and the extracted Coq model must produce the same decision trace '
                '(adds with ids/keys/layers, pops, evaluations, new-best, prefix, success/emptied, returned circuit); non-trivial = at least '
                'one successor evaluated. C: compile() list branch with a scripted Compiler (random job ids, completion orders). '
                'D: real compile() of Haar/permutation/diagonal/identity/Clifford/near-identity unitaries, basis/GHZ/W/random states, '
                'state systems of 1..dim pairs, qubits and qutrits, levels 1-4, list inputs, judged under the reported mapping against a '
                'bound derived from synthesis_epsilon. distinct by canonical case text.')
    ctx.assumptions += [
        'cost and heuristic values are never NaN (the model orders them as integers)',
        'calc_cost and the heuristic are functions of the circuit and the target (no hidden state); instantiate and the layer generator may be stateful (indexed by call)',
        'store_partial_solutions=False (default): psols bookkeeping is not modelled; warnings/logging are not modelled',
        'the numerical optimiser finding a circuit below the threshold is NOT proved: sampled by the real-numerics runs only',
        'level-4 results are judged under the reported final_mapping (PermutationAwareSynthesisPass synthesizes Po^T * target)',
    ]
    ctx.trusted = ['Coq 8.16.1 kernel + vm_compute', 'Coquelicot 3 (reals, complex numbers) with the standard real-number axioms',
                   'ExtrOcamlBasic extraction, OCaml 4.13.1, coq/extract/skeleton_driver.ml',
                   'harness/gen/gen_wf_target.py (walk of live Workflow objects, ast scan for data.target accesses)',
                   'harness/props/c03.py: oracle injection (monkeypatched Circuit.instantiate/get_runtime/linregress/Frontier.add,pop), numpy evaluation of results',
                   'abstract leaf contracts of pass/SkeletonWf.v (KSynth/KReadsTarget keep the circuit on data.target: C10)']
    try:
        d11_probe(ctx)
    except Exception as e:  # noqa
        ctx.cov['D11_pass_level'] = f'probe failed: {type(e).__name__}: {e}'
    tb = time.time()
    cost_probes(ctx)
    ctx.cov['t_cost_probes_s'] = round(time.time() - tb, 1)
    tb = time.time()
    scripted_correspondence(ctx)
    ctx.cov['t_scripts_s'] = round(time.time() - tb, 1)
    tb = time.time()
    list_correspondence(ctx)
    ctx.cov['t_list_s'] = round(time.time() - tb, 1)
    tb = time.time()
    pas_probe(ctx)
    ctx.cov['t_pas_probe_s'] = round(time.time() - tb, 1)
    extra = []
    cdir = vf.ROOT / 'corpus' / 'C03'
    if cdir.exists():
        for f in sorted(cdir.glob('case-*.json')):
            extra.append(json.loads(f.read_text()))
    ctx.cov['corpus_cases'] = len(extra)
    if not os.environ.get('C03_SKIP_REAL'):
        real_numerics(ctx, extra)
    if ctx.broken and not ctx.violations:
        search_harder(ctx)
    ctx.cov['theorem_backed'] = ['search (QSearch+LEAP skeleton)', 'pop_min', 'check_new_best', 'check_leap_condition', 'set_target',
                                 'synthesis_run', 'compile_list', 'check (workflow target flow)', 'hs/state/system cost meaning']
    ctx.cov['correspondence_only'] = ['linreg_delta_neg (exact regression vs scipy linregress)', 'PermutationAwareSynthesisPass (real runs only)']
    ctx.cov['uncovered'] = ['store_partial_solutions bookkeeping', 'SeedLayerGenerator', '3-qutrit inputs', 'mixed-radix inputs (rejected by compile())']


def search_harder(ctx):
    """A theorem / translator no longer checks: look for a concrete failing input around it."""
    # which generated workflows fail the checker?  -> run those configurations for real
    d = vf.BUILD / 'pa'
    d.mkdir(parents=True, exist_ok=True)
    f = d / 'C03_diag.v'
    f.write_text('From Coq Require Import List String.\nFrom BQ Require Import pass.SkeletonWf gen.WfTarget.\n'
                 'Eval vm_compute in (map fst (filter (fun nw => negb (check (snd nw))) named_workflows)).\n')
    rc, out, err = vf.sh(['coqc', '-Q', str(vf.COQ), 'BQ', str(f)], cwd=d, timeout=600)
    bad = []
    if rc == 0:
        import re
        bad = re.findall(r'"([a-z]+_r\d_w\d_[a-z]+_L\d_seed\w+_et\w)"', out)
    ctx.cov['failing_workflow_configs'] = bad[:20]
    cases = []
    seen = set()
    for name in bad:
        kind, r, w, model, lvl = name.split('_')[:5]
        key = (kind, r, w, lvl)
        if key in seen or len(cases) >= 8 or int(w[1:]) > 2 or int(r[1:]) != 2 or int(lvl[1:]) > 2:
            continue
        seen.add(key)
        fam = {'unitary': 'haar', 'state': 'random', 'system': 'haar'}[kind]
        c = dict(kind=kind, family=fam, n=int(w[1:]), radix=int(r[1:]), level=int(lvl[1:]), seed=ctx.rng.randrange(2 ** 31), timeout=60, k=1)
        if model != 'dflt':
            c['model'] = model
        c['id'] = 'directed-' + name
        cases.append(c)
        # the same input inside a list: compile() then starts from a placeholder Circuit(1), so a workflow that
        # synthesizes before SetTargetPass has nothing of the user's input to fall back on
        items = [dict(kind=kind, family=fam, n=int(w[1:]), radix=int(r[1:]), seed=ctx.rng.randrange(2 ** 31), k=1) for _ in range(2)]
        cases.append(dict(kind='list', id='directed-list-' + name, items=items, level=int(lvl[1:]), timeout=90))
    if not cases:
        for kind, fam in (('unitary', 'haar'), ('state', 'random'), ('system', 'haar')):
            c = dict(kind=kind, family=fam, n=2, radix=2, level=1, seed=ctx.rng.randrange(2 ** 31), timeout=60, k=2)
            c['id'] = f'directed-{kind}-L1'
            cases.append(c)
            items = [dict(kind=kind, family=fam, n=n_, radix=2, seed=ctx.rng.randrange(2 ** 31), k=1) for n_ in (2, 1 if kind == 'unitary' else 2)]
            cases.append(dict(kind='list', id=f'directed-list-{kind}-L1', items=items, level=1, timeout=90))
    results, _ = run_workers([cases[0::3], cases[1::3], cases[2::3]], float(os.environ.get('C03_DIRECTED_BUDGET', 240)))
    for c in cases:
        ctx.case(('directed', c['id']))
        ctx.count('directed_real_runs')
        r = results.get(c['id'])
        if r is not None:
            judge(ctx, c, r)
    # more scripts for the skeleton
    for _ in range(1500):
        s = gen_script(ctx.rng)
        try:
            tr, st, extra = run_real_script(s)
        except Exception:
            continue
        property_on_trace(ctx, s, finish_real_trace(tr, st))


def replay(ctx: 'vf.Ctx', data):
    warnings.simplefilter('ignore')
    case = data.get('case')
    if isinstance(case, dict) and 'script' in case:
        s = case['script']
        tr, st, extra = run_real_script(s)
        rt = finish_real_trace(tr, st)
        mo = vf.run_model('skeleton', [script_line(s)])[0].split()
        ctx.case(('script', json.dumps(s, sort_keys=True)))
        if rt != mo:
            ctx.violation(data['signature'], case, ' '.join(mo), ' '.join(rt), data.get('what', 'trace mismatch'), kind='correspondence')
        property_on_trace(ctx, s, rt)
    elif isinstance(case, dict) and 'kind' in case and 'id' in case:
        results, _ = run_workers([[case]], case.get('timeout', 120) + 60)
        ctx.case(('real', case['id']))
        judge(ctx, case, results.get(case['id']))
    elif isinstance(case, dict) and 'ids' in case:
        list_correspondence(ctx)
    elif isinstance(case, dict) and ('input_perm' in case or 'pf' in case):
        pas_probe(ctx)
    else:
        run(ctx)


if __name__ == '__main__':
    if '--worker' in sys.argv:
        worker_main()
