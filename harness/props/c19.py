"""C19 - cost functions and instantiation are faithful to circuit semantics.

(a) correspondence: the extracted Coq model (coq/cost/MultiStart.v) of
    Circuit.instantiate / multi_start_instantiate_inplace / set_params against
    the real classes driven with scripted (monkeypatched) start generators,
    instantiaters, minimisers and cost functions.
(b) property oracle on the real implementation (native bqskitrs engine included):
    Hilbert-Schmidt cost / residual values and gradients against the textbook
    formulas of coq/cost/HS.v evaluated by the harness on circuit.get_unitary(x),
    finite differences, zero-iff-global-phase, and real instantiaters/minimisers:
    structure preserved, same object returned, arg-min over the recorded starts.
"""
from __future__ import annotations

import contextlib
import json
import math
import os
import subprocess
import sys
import time
import warnings

import vf

BUILD = dict(extracted=['cost'], translators=set())

CORPUS = vf.ROOT / 'corpus' / 'C19'


# ----------------------------------------------------------------------------
# value syntax of the model driver
# ----------------------------------------------------------------------------
def fmt(x) -> str:
    if isinstance(x, (list, tuple)):
        return '[' + ' '.join(fmt(y) for y in x) + ']'
    if isinstance(x, bool):
        return '1' if x else '0'
    return str(x)


def pv(val: str):
    """parse the driver's answer into python lists / ints / atoms"""
    toks = val.replace('[', ' [ ').replace(']', ' ] ').split()
    pos = 0

    def rd():
        nonlocal pos
        t = toks[pos]
        pos += 1
        if t == '[':
            out = []
            while toks[pos] != ']':
                out.append(rd())
            pos += 1
            return out
        try:
            return int(t)
        except ValueError:
            return t
    return rd()


# ----------------------------------------------------------------------------
# (a) scripted world
# ----------------------------------------------------------------------------
COST_POOL = [0.0, -0.0, 1e-17, 0.25, 0.25, 0.5, 1.0, -1.0, float('inf'), 2.0 ** -1074, 0.9999999999999999]


def ikey(x):
    out = []
    for v in x:
        f = float(v)
        if f != int(f):
            raise ValueError('scripted parameter is not an integer: %r' % (v,))
        out.append(int(f))
    return tuple(out)


def rank_table(float_table: dict) -> dict:
    """order-preserving integer ranks of the scripted float costs (ties -> equal ranks)"""
    vals = sorted(set(float_table.values()))
    return {k: vals.index(v) for k, v in float_table.items()}


@contextlib.contextmanager
def patched(*triples):
    olds = []
    try:
        for obj, name, new in triples:
            olds.append((obj, name, getattr(obj, name)))
            setattr(obj, name, new)
        yield
    finally:
        for obj, name, old in reversed(olds):
            setattr(obj, name, old)


class World:
    """lazy imports of the implementation + scripted classes"""

    def __init__(self):
        from bqskit.ir.circuit import Circuit
        import bqskit.ir.circuit as circuit_mod
        import bqskit.ir.opt.instantiater as inst_mod
        import bqskit.ir.opt.instantiaters.minimization as min_mod
        import bqskit.ir.opt.instantiaters.qfactor as qf_mod
        from bqskit.ir.opt.instantiater import Instantiater
        from bqskit.ir.opt.cost.function import CostFunction
        from bqskit.ir.opt.cost.residual import ResidualsFunction
        from bqskit.ir.opt.cost.generator import CostFunctionGenerator
        from bqskit.ir.opt.minimizer import Minimizer
        from bqskit.ir.opt.multistartgens.random import RandomStartGenerator
        import bqskit.ir.gates as gates
        import numpy as np
        self.__dict__.update(locals())
        self.np = np


def gen_script_case(rng, malformed: bool):
    """one scripted instantiate() scenario (pure data, json-able)"""
    gate_pool = [('U3Gate', 3, 1), ('RXGate', 1, 1), ('RZZGate', 1, 2), ('CNOTGate', 0, 2), ('HGate', 0, 1),
                 ('U2Gate', 2, 1), ('CRYGate', 1, 2)]
    nq = rng.randint(1, 3)
    ops = []
    for _ in range(rng.randint(0 if rng.random() < 0.1 else 1, 5)):
        cand = [g for g in gate_pool if g[2] <= nq]
        g = rng.choice(cand)
        loc = rng.sample(range(nq), g[2])
        ops.append([g[0], loc, [rng.randint(-3, 3) for _ in range(g[1])]])
    npar = sum(len(o[2]) for o in ops)
    k = rng.randint(1, 8)
    starts, seen = [], set()
    while len(starts) < k:
        s = tuple(rng.randint(-50, 50) for _ in range(npar)) if npar else ()
        if npar == 0 or s not in seen:
            seen.add(s)
            starts.append(list(s))
    # instantiaters of the scripted order
    names = rng.sample(['minimization', 'qfactor', 'alpha', 'beta'], rng.randint(1, 3))
    if rng.random() < 0.15:
        names.append(names[0])          # two entries of the same name: the first one wins
    order = []
    cands_all = set()
    for nm in names:
        run = {}
        for s in starts:
            if rng.random() < 0.25 and run:
                r = list(rng.choice(list(run.values())))      # two starts converge to the same point
            else:
                r = [rng.randint(-99, 99) for _ in range(npar)]
            run[tuple(s)] = r
            cands_all.add(tuple(r))
        order.append(dict(name=nm, cap=rng.random() < (0.85 if not malformed else 0.5), run=[[list(a), b] for a, b in run.items()]))
    pool = rng.sample(COST_POOL, rng.randint(1, len(COST_POOL)))
    cost = {c: rng.choice(pool) for c in cands_all}
    kind = rng.choice(['none', 'none', 'name', 'name', 'inst', 'inst'] if not malformed else ['name', 'bad', 'inst', 'none'])
    case = dict(nq=nq, ops=ops, starts=starts, order=order, cost=[[list(a), repr(b)] for a, b in cost.items()],
                method=kind, ms=k, seed='none', target='ok', gen_len=k)
    if kind == 'name':
        nm = rng.choice(names + (['gamma'] if malformed or rng.random() < 0.1 else []))
        case['mname'] = rng.choice([nm, nm.upper(), nm.capitalize()])
    if kind == 'inst':
        case['minst'] = rng.randrange(len(order))
    if rng.random() < 0.3:
        case['seed'] = 'int'
    if malformed:
        what = rng.choice(['ms0', 'msneg', 'msnonint', 'seedbad', 'targetbad', 'genshort', 'genempty', 'wronglen', 'nocap'])
        case['malformed'] = what
        if what == 'ms0':
            case['ms'] = 0
        elif what == 'msneg':
            case['ms'] = -rng.randint(1, 3)
        elif what == 'msnonint':
            case['ms'] = rng.choice(['1.5', "'2'"])
        elif what == 'seedbad':
            case['seed'] = rng.choice(['1.5', "'x'"])
        elif what == 'targetbad':
            case['target'] = rng.choice(['str', 'nonunitary', 'none'])
        elif what == 'genshort':                      # generator returns fewer starts than asked
            case['gen_len'] = max(1, k - rng.randint(1, 3)) if k > 1 else 1
        elif what == 'genempty':
            case['gen_len'] = 0
        elif what == 'wronglen' and npar > 0:          # an instantiater returns a vector of the wrong length
            for o in order:
                for pr in o['run']:
                    if rng.random() < 0.5:
                        pr[1] = pr[1][:-1]
            cost = {}
            for o in order:
                for _, r in o['run']:
                    cost[tuple(r)] = rng.choice(pool)
            case['cost'] = [[list(a), repr(b)] for a, b in cost.items()]
        elif what == 'nocap':
            for o in order:
                o['cap'] = False
    return case


def script_model_line(W, case) -> str:
    circ = observe_circuit(W, build_circuit(W, case), [])     # the implementation's iteration order
    ctab = {tuple(a): float(b) for a, b in case['cost']}
    ranks = rank_table(ctab)
    rank = [[list(a), r] for a, r in ranks.items()]
    names = []

    def nid(nm):
        nm = nm.lower()
        if nm not in names:
            names.append(nm)
        return names.index(nm)
    order = [[nid(o['name']), 1 if o['cap'] else 0, o['run'], rank] for o in case['order']]
    m = case['method']
    if m == 'none':
        ms = 'none'
    elif m == 'bad':
        ms = 'bad'
    elif m == 'name':
        ms = fmt(['name', nid(case['mname'])])
    else:
        ms = fmt(['inst', order[case['minst']]])
    seed_ok = case['seed'] in ('none', 'int')
    target_ok = case['target'] == 'ok'
    starts = case['starts'][:case['gen_len']]
    msv = case['ms'] if isinstance(case['ms'], int) else 'nonint'
    return f'inst {fmt(seed_ok)} {fmt(target_ok)} {fmt(order)} {ms} {fmt(starts)} {fmt(circ)} {msv}'


def build_circuit(W, case):
    c = W.Circuit(case['nq'])
    for g, loc, p in case['ops']:
        c.append_gate(getattr(W.gates, g)(), loc, [float(v) for v in p])
    return c


def observe_circuit(W, c, gate_names):
    out = []
    for op in c:
        nm = type(op.gate).__name__
        if nm not in gate_names:
            gate_names.append(nm)
        out.append([gate_names.index(nm), op.gate.num_params, list(op.location), list(ikey(op.params))])
    return out


def run_script_impl(W, case):
    """drive the real Circuit.instantiate with scripted parts; returns (observation, extra)"""
    np = W.np
    ctab = {tuple(a): float(b) for a, b in case['cost']}
    log = []

    class ScriptCost(W.CostFunction):
        def get_cost(self, params):
            log.append(('cost', ikey(params)))
            return ctab[ikey(params)]

    class ScriptHSGen(W.CostFunctionGenerator):
        def gen_cost(self, circuit, target):
            return ScriptCost()

    starts = [np.array(s, dtype=np.float64) for s in case['starts'][:case['gen_len']]]

    class ScriptStarts(W.RandomStartGenerator):
        def gen_starting_points(self, multistarts, circuit, target):
            real = super().gen_starting_points(multistarts, circuit, target)   # the real validation
            log.append(('gen', multistarts, len(real)))
            return list(starts)

    classes = []
    for idx, o in enumerate(case['order']):
        run = {tuple(a): b for a, b in o['run']}

        def mk(idx=idx, o=o, run=run):
            class S(W.Instantiater):
                def __init__(self, **kwargs):
                    pass

                def instantiate(self, circuit, target, x0):
                    log.append(('inst', idx, ikey(x0)))
                    return np.array(run[ikey(x0)], dtype=np.float64)

                @staticmethod
                def is_capable(circuit):
                    return o['cap']

                @staticmethod
                def get_violation_report(circuit):
                    return 'scripted: not capable'

                @staticmethod
                def get_method_name():
                    return o['name']
            S.__name__ = 'Scripted_%s_%d' % (o['name'], idx)
            return S
        classes.append(mk())

    c = build_circuit(W, case)
    before = [(op.gate, tuple(op.location)) for op in c]
    m = case['method']
    if m == 'none':
        method = None
    elif m == 'bad':
        method = 3
    elif m == 'name':
        method = case['mname']
    else:
        method = classes[case['minst']]()
    target = dict(ok=np.eye(2 ** case['nq']), str='abc', nonunitary=np.ones((2 ** case['nq'],) * 2), none=None)[case['target']]
    seed = dict(none=None, int=7)[case['seed']] if case['seed'] in ('none', 'int') else eval(case['seed'])
    msv = case['ms'] if isinstance(case['ms'], int) else eval(case['ms'])
    gate_names = []
    observe_circuit(W, c, gate_names)
    ret = None
    rs = np.random.get_state()
    try:
        with patched((W.circuit_mod, 'instantiater_order', classes),
                     (W.inst_mod, 'HilbertSchmidtCostGenerator', ScriptHSGen),
                     (W.inst_mod, 'RandomStartGenerator', ScriptStarts)):
            ret = c.instantiate(target, method=method, multistarts=msv, seed=seed)
        obs = ['ok', observe_circuit(W, c, gate_names)]
    except (TypeError, ValueError, IndexError) as e:
        obs = ['err', type(e).__name__]
    finally:
        np.random.set_state(rs)
    extra = dict(same_object=(ret is c) if obs[0] == 'ok' else None,
                 structure=[(op.gate, tuple(op.location)) for op in c] == before,
                 log=log)
    return obs, extra


def script_oracle(ctx, case, obs, extra):
    """the property itself, evaluated on the implementation's observation (independent of the model)"""
    sig = None
    if not extra['structure']:
        sig = dict(call='Circuit.instantiate', symptom='structure-changed', world='scripted')
        what = 'instantiate changed gates or locations'
    elif obs[0] == 'ok':
        if extra['same_object'] is not True:
            sig = dict(call='Circuit.instantiate', symptom='not-same-object', world='scripted')
            what = 'instantiate did not return the circuit it was called on'
        else:
            ctab = {tuple(a): float(b) for a, b in case['cost']}
            insts = [e for e in extra['log'] if e[0] == 'inst']
            used = {e[1] for e in insts}
            final = tuple(v for o in obs[1] for v in o[3])
            exp_starts = [tuple(s) for s in case['starts'][:case['gen_len']]]
            if len(used) != 1 or [e[2] for e in insts] != exp_starts:
                sig = dict(call='multi_start_instantiate_inplace', symptom='starts-not-all-instantiated', world='scripted')
                what = 'not every generated start was instantiated exactly once, in order, by one instantiater'
            else:
                idx = used.pop()
                run = {tuple(a): tuple(b) for a, b in case['order'][idx]['run']}
                cands = [run[s] for s in exp_starts]
                best = min(ctab[p] for p in cands)
                first = next(p for p in cands if ctab[p] == best)
                if final != first:
                    sig = dict(call='multi_start_instantiate_inplace', symptom='not-argmin', world='scripted')
                    what = 'kept candidate is not the first candidate of least cost'
                if not case['order'][idx]['cap']:
                    sig = dict(call='Circuit.instantiate', symptom='incapable-instantiater-used', world='scripted')
                    what = 'an instantiater whose is_capable() is False was run'
    if sig:
        ctx.violation(sig, dict(kind='script', case=case), 'property C19 on the scripted run', dict(obs=obs, log=extra['log'][:40]), what)
        return False
    return True


def check_script_cases(ctx, W, cases, tag):
    lines = [script_model_line(W, c) for c in cases]
    impl = [run_script_impl(W, c) for c in cases]
    out = vf.run_model('cost', lines)
    if len(out) != len(lines):
        ctx.broken_obligation('correspondence cost model: wrong number of answers', f'{len(out)} vs {len(lines)}')
        return
    for case, line, mo, (obs, extra) in zip(cases, lines, out, impl):
        ctx.case(('script', line), nontrivial=(obs[0] == 'ok' and len(case['starts']) > 1))
        ctx.count(f'{tag}:{obs[0]}:{obs[1] if obs[0] == "err" else "starts=%d" % case["gen_len"]}')
        if case.get('malformed'):
            ctx.count(f'{tag}:malformed:{case["malformed"]}')
        ok = script_oracle(ctx, case, obs, extra)
        if mo.startswith('EXN') or mo == 'BADCMD':
            ctx.broken_obligation('cost model driver failed on a case', mo + ' :: ' + line[:300])
            continue
        mobs = pv(mo)
        if case['gen_len'] == 0 and mobs[0] == 'err' and obs[0] == 'err':
            # a generator returning no start breaks its contract; which exception sorted([])[0] / min([]) raises is not specified
            mobs = obs
        if mobs != obs and ok:
            ctx.violation(dict(call='Circuit.instantiate', kind='model-mismatch', world='scripted'),
                          dict(kind='script', case=case), mo, fmt(obs),
                          'Coq model of instantiate/multi_start and the implementation disagree',
                          kind='correspondence', corr='coq/cost/MultiStart.v vs bqskit/ir/circuit.py + ir/opt/instantiater.py')
        ctx.sample(dict(query=line[:400], impl=fmt(obs)), limit=2)


# ---- Minimization override: which cost ranks the starts ---------------------------
def gen_min_case(rng):
    npar_ops = [('U3Gate', 3, 1), ('RXGate', 1, 1), ('RZZGate', 1, 2), ('CNOTGate', 0, 2)]
    nq = rng.randint(1, 2)
    ops = []
    for _ in range(rng.randint(1, 4)):
        g = rng.choice([g for g in npar_ops if g[2] <= nq])
        ops.append([g[0], rng.sample(range(nq), g[2]), [0] * g[1]])
    npar = sum(len(o[2]) for o in ops)
    k = rng.randint(1, 8)
    starts = []
    while len(starts) < k:
        s = [rng.randint(-50, 50) for _ in range(npar)]
        if npar == 0 or s not in starts:
            starts.append(s)
    run = [[s, [rng.randint(-9, 9) for _ in range(npar)]] for s in starts]
    cands = {tuple(r) for _, r in run}
    own = {c: rng.choice(COST_POOL) for c in cands}
    hs = {c: rng.choice(COST_POOL) for c in cands}
    return dict(nq=nq, ops=ops, starts=starts, run=run, own=[[list(a), repr(b)] for a, b in own.items()],
                hs=[[list(a), repr(b)] for a, b in hs.items()], residuals=rng.random() < 0.5, ms=k)


def min_model_line(W, case) -> str:
    circ = observe_circuit(W, build_circuit(W, case), [])
    own = rank_table({tuple(a): float(b) for a, b in case['own']})
    hs = rank_table({tuple(a): float(b) for a, b in case['hs']})
    return (f"ms 1 {fmt(case['run'])} {fmt([[list(a), r] for a, r in own.items()])} {fmt(case['residuals'])} "
            f"{fmt([[list(a), r] for a, r in hs.items()])} {fmt(case['starts'])} {fmt(circ)} {case['ms']}")


def run_min_impl(W, case):
    """the real Minimization (instantiate + its multi_start override) with a scripted minimiser and costs"""
    np = W.np
    own = {tuple(a): float(b) for a, b in case['own']}
    hs = {tuple(a): float(b) for a, b in case['hs']}
    run = {tuple(a): b for a, b in case['run']}
    log = []

    class OwnCost(W.CostFunction):
        def get_cost(self, params):
            log.append(('own', ikey(params)))
            return own[ikey(params)]

    class OwnResiduals(W.ResidualsFunction):
        def get_cost(self, params):
            log.append(('own-res-cost', ikey(params)))
            return own[ikey(params)]

        def get_residuals(self, params):
            log.append(('own-res', ikey(params)))
            return np.array([own[ikey(params)]])

    class OwnGen(W.CostFunctionGenerator):
        def gen_cost(self, circuit, target):
            return OwnResiduals() if case['residuals'] else OwnCost()

    class HSCost(W.CostFunction):
        def get_cost(self, params):
            log.append(('hs', ikey(params)))
            return hs[ikey(params)]

    class HSGen(W.CostFunctionGenerator):
        def gen_cost(self, circuit, target):
            return HSCost()

    class Mini(W.Minimizer):
        def minimize(self, cost, x0):
            log.append(('min', ikey(x0), type(cost).__name__))
            return np.array(run[ikey(x0)], dtype=np.float64)

    starts = [np.array(s, dtype=np.float64) for s in case['starts']]

    class ScriptStarts(W.RandomStartGenerator):
        def gen_starting_points(self, multistarts, circuit, target):
            super().gen_starting_points(multistarts, circuit, target)
            return list(starts)

    c = build_circuit(W, case)
    before = [(op.gate, tuple(op.location)) for op in c]
    gate_names = []
    observe_circuit(W, c, gate_names)
    inst = W.min_mod.Minimization(cost_fn_gen=OwnGen(), minimizer=Mini())
    rs = np.random.get_state()
    try:
        with patched((W.min_mod, 'HilbertSchmidtCostGenerator', HSGen), (W.min_mod, 'RandomStartGenerator', ScriptStarts)):
            ret = c.instantiate(np.eye(2 ** case['nq']), method=inst, multistarts=case['ms'])
        obs = ['ok', observe_circuit(W, c, gate_names)]
    except (TypeError, ValueError, IndexError) as e:
        ret = None
        obs = ['err', type(e).__name__]
    finally:
        np.random.set_state(rs)
    extra = dict(same_object=ret is c, structure=[(op.gate, tuple(op.location)) for op in c] == before, log=log)
    return obs, extra


def check_min_cases(ctx, W, cases):
    lines = [min_model_line(W, c) for c in cases]
    impl = [run_min_impl(W, c) for c in cases]
    out = vf.run_model('cost', lines)
    for case, line, mo, (obs, extra) in zip(cases, lines, out, impl):
        ctx.case(('min', line), nontrivial=len(case['starts']) > 1)
        ctx.count('min-script:%s:residuals=%s' % (obs[0], case['residuals']))
        # oracle: ranked by its own cost unless that is a residuals function
        tab = {tuple(a): float(b) for a, b in (case['hs'] if case['residuals'] else case['own'])}
        run = {tuple(a): tuple(b) for a, b in case['run']}
        cands = [run[tuple(s)] for s in case['starts']]
        best = min(tab[p] for p in cands)
        first = next(p for p in cands if tab[p] == best)
        final = tuple(v for o in obs[1] for v in o[3]) if obs[0] == 'ok' else None
        bad = None
        if obs[0] != 'ok' or final != first:
            bad = 'not-argmin'
        elif not extra['same_object']:
            bad = 'not-same-object'
        elif not extra['structure']:
            bad = 'structure-changed'
        elif [e[1] for e in extra['log'] if e[0] == 'min'] != [tuple(s) for s in case['starts']]:
            bad = 'starts-not-all-instantiated'
        if bad:
            ctx.violation(dict(call='Minimization.multi_start_instantiate_inplace', symptom=bad, world='scripted'),
                          dict(kind='min', case=case), fmt(first), dict(obs=obs, log=extra['log'][:40]),
                          'Minimization multi-start: ' + bad)
        elif mo.startswith('EXN') or pv(mo) != obs:
            ctx.violation(dict(call='Minimization.multi_start_instantiate_inplace', kind='model-mismatch', world='scripted'),
                          dict(kind='min', case=case), mo, fmt(obs), 'Coq model (rank_cost/multi_start) and Minimization disagree',
                          kind='correspondence', corr='coq/cost/MultiStart.v vs bqskit/ir/opt/instantiaters/minimization.py')


def check_nan_cases(ctx, W):
    """the witness of C19_multistart_nan_refuted (and its mirror image) replayed on the real multi-start code:
    NaN cost keys are outside the theorems' hypothesis; the model with float `<` predicts what sorted()[0] keeps"""
    for first_nan in (True, False):
        costs = ['nan', '0.5'] if first_nan else ['0.5', 'nan']
        case = dict(nq=1, ops=[['RXGate', [0], [0]]], starts=[[1], [2]], gen_len=2, ms=2, seed='none', target='ok', method='none',
                    order=[dict(name='alpha', cap=True, run=[[[1], [10]], [[2], [20]]])], cost=[[[10], costs[0]], [[20], costs[1]]])
        obs, extra = run_script_impl(W, case)
        line = 'choosenan [[10] [20]] [[[10] %s] [[20] %s]]' % tuple('nan' if c == 'nan' else '1' for c in costs)
        mo = vf.run_model('cost', [line])[0]
        kept = [v for o in obs[1] for v in o[3]] if obs[0] == 'ok' else obs
        ctx.case(('nan', first_nan), nontrivial=True)
        ctx.count('directed:nan-cost:%s' % ('nan-first-kept' if kept == [10] and first_nan else 'finite-kept' if kept != [10 if first_nan else 20] else 'nan-kept'))
        if pv(mo) != ['ok', kept]:
            ctx.violation(dict(call='multi_start_instantiate_inplace', kind='model-mismatch', world='scripted-nan'), dict(kind='nan', first_nan=first_nan),
                          mo, fmt(kept), 'float-with-NaN model of sorted()[0] and the implementation disagree', kind='correspondence',
                          corr='coq/cost/MultiStart.v (fltb) vs sorted() in instantiater.py')
    ctx.cov['nan_observation'] = 'a NaN-cost candidate in first position is kept over a finite-cost one (C19_multistart_nan_refuted; not reproduced with a real instantiater)'


def check_overrides(ctx, W):
    """the model covers two definitions of multi_start_instantiate_inplace; any other override is not modelled"""
    base = W.Instantiater.multi_start_instantiate_inplace
    order = list(W.circuit_mod.instantiater_order)
    names = [c.get_method_name() for c in order]
    if names != ['minimization', 'qfactor']:
        ctx.broken_obligation('instantiater_order is not [minimization, qfactor] as modelled', str(names))
    for cls in order:
        f = cls.multi_start_instantiate_inplace
        if f is not base and not (cls is W.min_mod.Minimization and f.__qualname__.startswith('Minimization.')):
            ctx.broken_obligation('an instantiater overrides multi_start_instantiate_inplace in a way the model does not cover', cls.__name__)
    ctx.cov['instantiater_order'] = names


# ============================================================================
# (b) property oracle on the real implementation
# ============================================================================
_PY = {}


def py_gates():
    """harness-defined Gate subclasses: unknown to the native engine, so every
    evaluation of a circuit containing one calls back into Python"""
    if _PY:
        return _PY
    import numpy as np
    from bqskit.ir.gate import Gate
    from bqskit.qis.unitary.optimizable import LocallyOptimizableUnitary
    from bqskit.qis.unitary.unitarymatrix import UnitaryMatrix

    class PyRZ(Gate):
        _num_qudits, _num_params, _radixes, _name = 1, 1, (2,), 'PyRZ'

        def get_unitary(self, params=[]):
            self.check_parameters(params)
            t = params[0]
            return UnitaryMatrix(np.diag([np.exp(-0.5j * t), np.exp(0.5j * t)]))

        def get_grad(self, params=[]):
            t = params[0]
            return np.array([np.diag([-0.5j * np.exp(-0.5j * t), 0.5j * np.exp(0.5j * t)])])

        def is_differentiable(self):
            return True

    class PyRXY(Gate):           # rotation by t about the axis cos(p) X + sin(p) Y
        _num_qudits, _num_params, _radixes, _name = 1, 2, (2,), 'PyRXY'

        def get_unitary(self, params=[]):
            self.check_parameters(params)
            t, p = params
            c, s = np.cos(t / 2), np.sin(t / 2)
            return UnitaryMatrix(np.array([[c, -1j * s * np.exp(-1j * p)], [-1j * s * np.exp(1j * p), c]]))

        def get_grad(self, params=[]):
            t, p = params
            c, s = np.cos(t / 2), np.sin(t / 2)
            dt = np.array([[-s / 2, -0.5j * c * np.exp(-1j * p)], [-0.5j * c * np.exp(1j * p), -s / 2]])
            dp = np.array([[0, -s * np.exp(-1j * p)], [s * np.exp(1j * p), 0]])
            return np.array([dt, dp])

        def is_differentiable(self):
            return True

    class PyPhase3(Gate):
        _num_qudits, _num_params, _radixes, _name = 1, 2, (3,), 'PyPhase3'

        def get_unitary(self, params=[]):
            self.check_parameters(params)
            a, b = params
            return UnitaryMatrix(np.diag([1, np.exp(1j * a), np.exp(1j * b)]), (3,))

        def get_grad(self, params=[]):
            a, b = params
            return np.array([np.diag([0, 1j * np.exp(1j * a), 0]), np.diag([0, 0, 1j * np.exp(1j * b)])])

        def is_differentiable(self):
            return True

    class PyRot02(Gate):          # real rotation of qutrit levels 0 and 2
        _num_qudits, _num_params, _radixes, _name = 1, 1, (3,), 'PyRot02'

        def get_unitary(self, params=[]):
            self.check_parameters(params)
            c, s = np.cos(params[0]), np.sin(params[0])
            return UnitaryMatrix(np.array([[c, 0, -s], [0, 1, 0], [s, 0, c]], dtype=complex), (3,))

        def get_grad(self, params=[]):
            c, s = np.cos(params[0]), np.sin(params[0])
            return np.array([np.array([[-s, 0, -c], [0, 0, 0], [c, 0, -s]], dtype=complex)])

        def is_differentiable(self):
            return True

    class PyCPhase(Gate):
        _num_qudits, _num_params, _radixes, _name = 2, 1, (2, 2), 'PyCPhase'

        def get_unitary(self, params=[]):
            self.check_parameters(params)
            return UnitaryMatrix(np.diag([1, 1, 1, np.exp(1j * params[0])]))

        def get_grad(self, params=[]):
            return np.array([np.diag([0, 0, 0, 1j * np.exp(1j * params[0])])])

        def is_differentiable(self):
            return True

    class PyCRot23(Gate):         # qubit-controlled qutrit rotation: radixes (2, 3)
        _num_qudits, _num_params, _radixes, _name = 2, 1, (2, 3), 'PyCRot23'

        def get_unitary(self, params=[]):
            self.check_parameters(params)
            c, s = np.cos(params[0]), np.sin(params[0])
            m = np.eye(6, dtype=complex)
            m[3:, 3:] = [[c, 0, -s], [0, 1, 0], [s, 0, c]]
            return UnitaryMatrix(m, (2, 3))

        def get_grad(self, params=[]):
            c, s = np.cos(params[0]), np.sin(params[0])
            m = np.zeros((6, 6), dtype=complex)
            m[3:, 3:] = [[-s, 0, -c], [0, 0, 0], [c, 0, -s]]
            return np.array([m])

        def is_differentiable(self):
            return True

    class PyShift3(Gate):         # constant monomial qutrit gate |k> -> |k+1>
        _num_qudits, _num_params, _radixes, _name = 1, 0, (3,), 'PyShift3'

        def get_unitary(self, params=[]):
            return UnitaryMatrix(np.array([[0, 0, 1], [1, 0, 0], [0, 1, 0]], dtype=complex), (3,))

        def get_grad(self, params=[]):
            return np.zeros((0, 3, 3), dtype=complex)

        def is_differentiable(self):
            return True

    class PyCShift23(Gate):       # constant monomial: qubit-controlled qutrit shift with phase i
        _num_qudits, _num_params, _radixes, _name = 2, 0, (2, 3), 'PyCShift23'

        def get_unitary(self, params=[]):
            m = np.eye(6, dtype=complex)
            m[3:, 3:] = 1j * np.array([[0, 0, 1], [1, 0, 0], [0, 1, 0]])
            return UnitaryMatrix(m, (2, 3))

        def get_grad(self, params=[]):
            return np.zeros((0, 6, 6), dtype=complex)

        def is_differentiable(self):
            return True

    class PyPhaseOpt(Gate, LocallyOptimizableUnitary):    # diag(e^{ia}, e^{ib}) with a closed-form optimize()
        _num_qudits, _num_params, _radixes, _name = 1, 2, (2,), 'PyPhaseOpt'

        def get_unitary(self, params=[]):
            self.check_parameters(params)
            return UnitaryMatrix(np.diag([np.exp(1j * params[0]), np.exp(1j * params[1])]))

        def get_grad(self, params=[]):
            a, b = params
            return np.array([np.diag([1j * np.exp(1j * a), 0]), np.diag([0, 1j * np.exp(1j * b)])])

        def optimize(self, env_matrix):
            self.check_env_matrix(env_matrix)
            return [float(-np.angle(env_matrix[0, 0])), float(-np.angle(env_matrix[1, 1]))]

        def is_differentiable(self):
            return True

    for cls in (PyRZ, PyRXY, PyPhase3, PyRot02, PyCPhase, PyCRot23, PyShift3, PyCShift23, PyPhaseOpt):
        _PY[cls.__name__] = cls
    return _PY


# gate specs are json-able lists:
#   ['lib', ClassName, *ctor_args] | ['py', Name] | ['dagger', spec] | ['power', spec, k] | ['tagged', spec, tag]
#   ['frozen', spec, {index: value}] | ['ctrl', spec, num_controls, control_radixes, control_levels]
#   ['embedded', spec, radixes, level_maps] | ['circuit', circuit_spec] | ['varu', num_qudits, radixes]
def mk_gate(spec):
    import bqskit.ir.gates as G
    kind = spec[0]
    if kind == 'lib':
        return getattr(G, spec[1])(*spec[2:])
    if kind == 'py':
        return py_gates()[spec[1]]()
    if kind == 'dagger':
        return G.DaggerGate(mk_gate(spec[1]))
    if kind == 'power':
        return G.PowerGate(mk_gate(spec[1]), spec[2])
    if kind == 'tagged':
        return G.TaggedGate(mk_gate(spec[1]), spec[2])
    if kind == 'frozen':
        return G.FrozenParameterGate(mk_gate(spec[1]), {int(k): float(v) for k, v in spec[2].items()})
    if kind == 'ctrl':
        return G.ControlledGate(mk_gate(spec[1]), spec[2], spec[3], spec[4])
    if kind == 'embedded':
        return G.EmbeddedGate(mk_gate(spec[1]), spec[2], spec[3])
    if kind == 'circuit':
        return G.CircuitGate(mk_circuit(spec[1]), True)
    if kind == 'varu':
        return G.VariableUnitaryGate(spec[1], spec[2])
    raise ValueError('unknown gate spec %r' % (spec,))


def mk_circuit(cs):
    from bqskit.ir.circuit import Circuit
    c = Circuit(len(cs['radixes']), cs['radixes'])
    for g, loc, params in cs['ops']:
        gate = mk_gate(g)
        if params is None:
            c.append_gate(gate, loc)
        else:
            c.append_gate(gate, loc, params)
    return c


def spec_has(spec, kinds):
    if spec[0] in kinds:
        return True
    if spec[0] == 'circuit':
        return any(spec_has(o[0], kinds) for o in spec[1]['ops'])
    return any(isinstance(s, list) and s and isinstance(s[0], str) and spec_has(s, kinds) for s in spec[1:2])


# name, radixes it acts on, number of parameters, flags
Q1 = [(['lib', 'U3Gate'], 3), (['lib', 'U2Gate'], 2), (['lib', 'U1Gate'], 1), (['lib', 'RXGate'], 1), (['lib', 'RYGate'], 1),
      (['lib', 'RZGate'], 1), (['lib', 'HGate'], 0), (['lib', 'XGate'], 0), (['lib', 'SGate'], 0), (['lib', 'TGate'], 0),
      (['lib', 'SXGate'], 0), (['lib', 'PhasedXZGate'], 3), (['lib', 'U1qGate'], 2), (['py', 'PyRZ'], 1), (['py', 'PyRXY'], 2),
      (['py', 'PyPhaseOpt'], 2), (['dagger', ['lib', 'U3Gate']], 3), (['power', ['lib', 'RXGate'], 3], 1),
      (['power', ['lib', 'U3Gate'], -2], 3), (['frozen', ['lib', 'U3Gate'], {'1': 0.3}], 2), (['tagged', ['lib', 'RYGate'], 'tag'], 1),
      (['dagger', ['py', 'PyRXY']], 2), (['frozen', ['py', 'PyRXY'], {'0': 1.1}], 1), (['power', ['py', 'PyRZ'], 2], 1),
      (['lib', 'PauliGate', 1], 4),
      (['circuit', dict(radixes=[2], ops=[[['lib', 'HGate'], [0], None], [['lib', 'RZGate'], [0], [0.4]], [['py', 'PyRZ'], [0], [0.2]]])], 2)]
Q3 = [(['embedded', ['lib', 'RXGate'], 3, [0, 2]], 1), (['embedded', ['lib', 'U3Gate'], 3, [1, 2]], 3), (['lib', 'ShiftGate', 3], 0),
      (['lib', 'ClockGate', 3], 0), (['lib', 'HGate', 3], 0), (['py', 'PyPhase3'], 2), (['py', 'PyRot02'], 1), (['py', 'PyShift3'], 0),
      (['lib', 'U8Gate'], 8), (['lib', 'RSU3Gate', 2], 1), (['dagger', ['py', 'PyPhase3']], 2), (['embedded', ['py', 'PyRXY'], 3, [0, 1]], 2),
      (['power', ['py', 'PyRot02'], 2], 1), (['lib', 'PDGate', 1, 3], 0)]
Q22 = [(['lib', 'CNOTGate'], 0), (['lib', 'CZGate'], 0), (['lib', 'SwapGate'], 0), (['lib', 'CRYGate'], 1), (['lib', 'RZZGate'], 1),
       (['lib', 'RXXGate'], 1), (['lib', 'RYYGate'], 1), (['lib', 'CRXGate'], 1), (['lib', 'CRZGate'], 1), (['lib', 'CPGate'], 1),
       (['lib', 'FSIMGate'], 2), (['lib', 'CUGate'], 4), (['lib', 'ISwapGate'], 0), (['lib', 'SqrtCNOTGate'], 0),
       (['ctrl', ['lib', 'RYGate'], 1, 2, None], 1), (['ctrl', ['lib', 'U3Gate'], 1, 2, None], 3), (['ctrl', ['py', 'PyRZ'], 1, 2, None], 1),
       (['py', 'PyCPhase'], 1), (['dagger', ['lib', 'CRZGate']], 1), (['lib', 'DiagonalGate', 2], 3), (['lib', 'PauliZGate', 2], 4),
       (['lib', 'MPRYGate', 2, 1], 2), (['lib', 'ArbitraryCPhaseGate'], 1), (['dagger', ['py', 'PyCPhase']], 1),
       (['circuit', dict(radixes=[2, 2], ops=[[['lib', 'CNOTGate'], [0, 1], None], [['lib', 'RYGate'], [1], [0.3]], [['lib', 'CNOTGate'], [0, 1], None],
                                             [['lib', 'U3Gate'], [0], [0.1, 0.2, 0.3]]])], 4),
       (['frozen', ['lib', 'FSIMGate'], {'0': 0.7}], 1)]
Q33 = [(['lib', 'CSUMGate', 3], 0), (['lib', 'SwapGate', 3], 0), (['ctrl', ['py', 'PyPhase3'], 1, 3, [[2]]], 2),
       (['ctrl', ['embedded', ['lib', 'RYGate'], 3, [0, 1]], 1, 3, [[1, 2]]], 1), (['embedded', ['lib', 'CNOTGate'], [3, 3], [[0, 1], [1, 2]]], 0),
       (['embedded', ['lib', 'RZZGate'], [3, 3], [[0, 2], [0, 1]]], 1)]
Q23 = [(['py', 'PyCRot23'], 1), (['py', 'PyCShift23'], 0), (['ctrl', ['py', 'PyPhase3'], 1, 2, None], 2), (['ctrl', ['lib', 'ShiftGate', 3], 1, 2, None], 0),
       (['embedded', ['lib', 'CNOTGate'], [2, 3], [[0, 1], [0, 2]]], 0), (['ctrl', ['py', 'PyRot02'], 1, 2, None], 1),
       (['embedded', ['lib', 'CRYGate'], [2, 3], [[0, 1], [1, 2]]], 1)]
Q32 = [(['ctrl', ['lib', 'RZGate'], 1, 3, [[1, 2]]], 1), (['ctrl', ['py', 'PyRXY'], 1, 3, [[2]]], 2), (['ctrl', ['lib', 'XGate'], 1, 3, [[1]]], 0),
       (['embedded', ['lib', 'CNOTGate'], [3, 2], [[1, 2], [0, 1]]], 0)]
Q222 = [(['lib', 'CCXGate'], 0), (['lib', 'CCPGate'], 1), (['ctrl', ['lib', 'RYGate'], 2, 2, None], 1), (['ctrl', ['py', 'PyCPhase'], 1, 2, None], 1),
        (['lib', 'MPRZGate', 3, 0], 4)]
CATALOG = {(2,): Q1, (3,): Q3, (2, 2): Q22, (3, 3): Q33, (2, 3): Q23, (3, 2): Q32, (2, 2, 2): Q222}
# monomial gates with entries in {0, +-1, +-i}: every product is exact in floating point
MONO = {(2,): [['lib', 'XGate'], ['lib', 'YGate'], ['lib', 'ZGate'], ['lib', 'SGate'], ['lib', 'SdgGate'], ['dagger', ['lib', 'SGate']]],
        (3,): [['lib', 'ShiftGate', 3], ['py', 'PyShift3'], ['power', ['py', 'PyShift3'], 2]],
        (2, 2): [['lib', 'CNOTGate'], ['lib', 'CZGate'], ['lib', 'CYGate'], ['lib', 'SwapGate'], ['lib', 'ISwapGate'],
                 ['ctrl', ['lib', 'SGate'], 1, 2, None]],
        (3, 3): [['lib', 'CSUMGate', 3], ['lib', 'SwapGate', 3]],
        (2, 3): [['py', 'PyCShift23'], ['ctrl', ['lib', 'ShiftGate', 3], 1, 2, None]],
        (3, 2): [['ctrl', ['lib', 'XGate'], 1, 3, [[1]]]],
        (2, 2, 2): [['lib', 'CCXGate']]}
NONDIFF = ('PauliGate',)


def gen_circuit_spec(rng, mono=False, max_dim=18, want=None, nops=None):
    while True:
        nq = rng.choice([1, 2, 2, 3, 3])
        radixes = [rng.choice([2, 2, 3]) for _ in range(nq)]
        if math.prod(radixes) <= max_dim:
            break
    cat = MONO if mono else CATALOG
    ops = []
    for _ in range(nops or rng.randint(1, 7)):
        for _try in range(20):
            ar = rng.choice([1, 1, 2, 2, 3]) if nq >= 3 else rng.randint(1, nq)
            loc = rng.sample(range(nq), ar)
            key = tuple(radixes[q] for q in loc)
            if key in cat:
                break
        else:
            continue
        entry = rng.choice(cat[key])
        spec, npar = (entry, 0) if mono else entry
        if want and rng.random() < 0.5:
            pool = [e for e in cat[key] if spec_has(e[0], want)] if not mono else []
            if pool:
                spec, npar = rng.choice(pool)
        ops.append([spec, loc, [round(rng.uniform(-3.2, 3.2), 3) for _ in range(npar)] if npar else None])
    return dict(radixes=radixes, ops=ops)


def circuit_classes(cs):
    ks = set()
    for g, _, _ in cs['ops']:
        if spec_has(g, ('py',)):
            ks.add('python-gate')
        if g[0] in ('dagger', 'power', 'tagged', 'frozen', 'ctrl', 'embedded', 'circuit'):
            ks.add('composed')
        if g[0] == 'lib':
            ks.add('library')
    if len(set(cs['radixes'])) > 1:
        ks.add('mixed-radix')
    elif cs['radixes'][0] == 3:
        ks.add('qutrit')
    return sorted(ks)


# ---- textbook formulas (the definitions of coq/cost/HS.v, in numpy) -------------------------
def tb_unitary(np, U, T):
    N = U.shape[0]
    p = np.trace(T.conj().T @ U)
    M = U @ T.conj().T - np.eye(N)
    return dict(cost=1 - abs(p) / N, p=p, scale=N, res=np.concatenate([M.real.ravel(), M.imag.ravel()]))


def tb_state(np, U, t):
    p = t.conj() @ U[:, 0]
    return dict(cost=1 - (p.real ** 2 + p.imag ** 2), p=p, scale=1, res=abs(U[:, 0] - t) ** 2)


def tb_system(np, U, V, W):
    k = V.shape[1]
    N = U.shape[0]
    p = sum(W[:, j].conj() @ (U @ V[:, j]) for j in range(k))
    Tg = W @ V.conj().T
    M = U @ Tg.conj().T - np.eye(N)
    return dict(cost=1 - abs(p) / k, p=p, scale=k, res=np.concatenate([M.real.ravel(), M.imag.ravel()]))


def tb_eval(np, kind, U, tgt):
    if kind == 'unitary':
        return tb_unitary(np, U, tgt)
    if kind == 'state':
        return tb_state(np, U, tgt)
    return tb_system(np, U, tgt[0], tgt[1])


def tb_grads(np, kind, U, dU, tgt):
    """analytic gradient of the cost and jacobian of the residuals from the circuit's own dU"""
    N = U.shape[0]
    if kind == 'unitary':
        T = tgt
        p = np.trace(T.conj().T @ U)
        dp = np.array([np.trace(T.conj().T @ d) for d in dU]) if len(dU) else np.zeros(0)
        g = -(np.conj(p) * dp).real / (N * abs(p)) if abs(p) > 0 else None
        J = np.array([np.concatenate([(d @ T.conj().T).real.ravel(), (d @ T.conj().T).imag.ravel()]) for d in dU]).T if len(dU) else np.zeros((2 * N * N, 0))
    elif kind == 'state':
        t = tgt
        p = t.conj() @ U[:, 0]
        dp = np.array([t.conj() @ d[:, 0] for d in dU]) if len(dU) else np.zeros(0)
        g = -2 * (np.conj(p) * dp).real
        J = np.array([2 * (np.conj(U[:, 0] - t) * d[:, 0]).real for d in dU]).T if len(dU) else np.zeros((N, 0))
    else:
        V, W = tgt
        k = V.shape[1]
        p = np.trace(W.conj().T @ U @ V)
        dp = np.array([np.trace(W.conj().T @ d @ V) for d in dU]) if len(dU) else np.zeros(0)
        g = -(np.conj(p) * dp).real / (k * abs(p)) if abs(p) > 0 else None
        Tg = W @ V.conj().T
        J = np.array([np.concatenate([(d @ Tg.conj().T).real.ravel(), (d @ Tg.conj().T).imag.ravel()]) for d in dU]).T if len(dU) else np.zeros((2 * N * N, 0))
    return g, J


def mk_target(np, kind, tspec, radixes, circuit):
    """returns (bqskit target object, numpy form for the textbook)"""
    from bqskit.qis.unitary.unitarymatrix import UnitaryMatrix
    from bqskit.qis.state.state import StateVector
    from bqskit.qis.state.system import StateSystem
    from scipy.stats import unitary_group
    N = math.prod(radixes)
    rs = np.random.RandomState(tspec['seed'])
    src = tspec['src']
    phase = np.exp(1j * tspec.get('phase', 0.0)) if not tspec.get('exact_phase') else [1, 1j, -1, -1j][tspec['exact_phase'] % 4]
    R = unitary_group.rvs(N, random_state=rs) if N > 1 else np.array([[np.exp(1j * rs.uniform(0, 6))]])
    if src == 'random':
        A = R
    else:                                   # the circuit itself at other parameters (times a global phase)
        A = phase * np.array(circuit.get_unitary(tspec['at'])) if circuit.num_params else phase * np.array(circuit.get_unitary())
        if src == 'near':
            H = R + R.conj().T
            from scipy.linalg import expm
            A = A @ expm(1j * tspec['eps'] * H)
    if kind == 'unitary':
        return UnitaryMatrix(A, radixes, False) if src != 'random' else UnitaryMatrix(A, radixes), A
    if kind == 'state':
        v = A[:, 0]
        return StateVector(v, radixes), np.array(v)
    k = tspec['k']
    Q = unitary_group.rvs(N, random_state=rs) if N > 1 else np.eye(1, dtype=complex)
    V = Q[:, :k]
    if tspec.get('nonorth') and k >= 2:        # unit but non-orthogonal inputs; outputs A V keep the overlaps
        V = V.copy()
        V[:, 1] = (V[:, 0] + V[:, 1]) / np.sqrt(2)
    W = A @ V
    S = StateSystem({StateVector(V[:, j], radixes): StateVector(W[:, j], radixes) for j in range(k)})
    Vn = np.column_stack([np.array(a) for a in S.keys()])
    Wn = np.column_stack([np.array(b) for b in S.values()])
    return S, (Vn, Wn)


def gen_cost_case(rng, idx, deep=False):
    mono = rng.random() < 0.2
    want = rng.choice([None, ('py',), ('dagger', 'power', 'tagged', 'frozen', 'ctrl', 'embedded', 'circuit')])
    cs = gen_circuit_spec(rng, mono=mono, want=want, max_dim=27 if deep else 18, nops=rng.randint(1, 10) if deep else None)
    npar = sum(len(o[2]) for o in cs['ops'] if o[2])
    kind = rng.choice(['unitary', 'unitary', 'state', 'system'])
    N = math.prod(cs['radixes'])
    x = [round(rng.uniform(-6.3, 6.3), 4) for _ in range(npar)]
    src = rng.choice(['random', 'random', 'self', 'self', 'near'])
    if mono:
        src = rng.choice(['self', 'self', 'random'])
    t = dict(seed=rng.randrange(2 ** 31), src=src, at=x if rng.random() < 0.7 else [round(rng.uniform(-6.3, 6.3), 4) for _ in range(npar)],
             phase=round(rng.uniform(0, 6.28), 4), eps=rng.choice([1e-3, 1e-2, 0.1]), k=rng.randint(1, N), nonorth=rng.random() < 0.3)
    if mono and src == 'self':
        t['exact_phase'] = rng.randrange(4) + 4
    return dict(kind='cost', idx=idx, circuit=cs, target_kind=kind, target=t, x=x, mono=mono)


VAL_TOL = 1e-9
GRAD_TOL = 1e-8
FD_H = 1e-5
FD_TOL = 5e-6


def run_cost_case(case):
    """worker: returns dict(counts, problems=[(sig, expected, observed, what)])"""
    import numpy as np
    from bqskit.ir.opt.cost.functions import HilbertSchmidtCostGenerator, HilbertSchmidtResidualsGenerator
    warnings.simplefilter('ignore')
    out = dict(counts=[], problems=[], nontrivial=False)
    P = out['problems']
    cs = case['circuit']
    kind = case['target_kind']
    circuit = mk_circuit(cs)
    stored = np.array(circuit.params)
    x = np.array(case['x'], dtype=float)
    target, tn = mk_target(np, kind, case['target'], cs['radixes'], circuit)
    classes = circuit_classes(cs)
    out['counts'] += ['cost:target=%s' % kind, 'cost:src=%s' % case['target']['src']] + ['cost:class=%s' % k for k in classes]
    if case['mono']:
        out['counts'].append('cost:monomial')
    tolv = 4.5e-16 * 4 if case['mono'] and case['target']['src'] == 'self' else VAL_TOL
    # count python callbacks
    calls = [0]
    restore = []
    for cls in set(type(op.gate) for op in circuit):
        orig = cls.get_unitary

        def wrap(self, params=[], _o=orig):
            calls[0] += 1
            return _o(self, params)
        cls.get_unitary = wrap
        restore.append((cls, orig))
    try:
        cgen, rgen = HilbertSchmidtCostGenerator(), HilbertSchmidtResidualsGenerator()
        cost = cgen.gen_cost(circuit, target)
        res = rgen.gen_cost(circuit, target)
        calls[0] = 0
        v_cost = float(cost.get_cost(x))
        n_cb = calls[0]
    finally:
        for cls, orig in restore:
            cls.get_unitary = orig
    out['counts'].append('cost:path=%s' % ('python-callbacks' if n_cb else 'native-only'))
    U = np.array(circuit.get_unitary(x)) if len(x) else np.array(circuit.get_unitary())
    tb = tb_eval(np, kind, U, tn)
    sigbase = dict(call='HilbertSchmidtCost', target=kind)

    def chk(name, got, exp, tol, what, call='HilbertSchmidtCost'):
        got_a, exp_a = np.asarray(got, dtype=float), np.asarray(exp, dtype=float)
        if got_a.shape != exp_a.shape:
            P.append((dict(call=call, target=kind, symptom=name + '-shape'), list(exp_a.shape), list(got_a.shape), what + ' (shape)'))
            return False
        d = float(np.max(np.abs(got_a - exp_a))) if got_a.size else 0.0
        if not (d <= tol):
            P.append((dict(call=call, target=kind, symptom=name), _short(exp_a), _short(got_a), '%s: differs by %.3g (tolerance %.1g)' % (what, d, tol)))
            return False
        return True

    chk('value', v_cost, tb['cost'], tolv, 'get_cost(x) is not the textbook cost of circuit.get_unitary(x)')
    chk('call-value', cost(x), tb['cost'], tolv, '__call__(x) is not the textbook cost')
    r = np.array(res.get_residuals(x), dtype=float)
    chk('residuals', r, tb['res'], VAL_TOL, 'get_residuals(x) is not [Re;Im] of the textbook residual matrix', call='HilbertSchmidtResiduals')
    chk('residuals-cost', res.get_cost(x), tb['cost'], tolv, 'residual function get_cost(x) is not the textbook cost', call='HilbertSchmidtResiduals')
    # generator entry points use the STORED parameters
    Us = np.array(circuit.get_unitary())
    tbs = tb_eval(np, kind, Us, tn)
    chk('calc-cost', cgen.calc_cost(circuit, target), tbs['cost'], VAL_TOL, 'calc_cost(circuit, target) is not the cost at the stored parameters', call='CostFunctionGenerator.calc_cost')
    chk('calc-cost', rgen(circuit, target), tbs['cost'], VAL_TOL, 'residual generator __call__ is not the cost at the stored parameters', call='CostFunctionGenerator.calc_cost')
    if not np.array_equal(np.array(circuit.params), stored):
        P.append((dict(call='HilbertSchmidtCost', target=kind, symptom='circuit-mutated'), _short(stored), _short(np.array(circuit.params)), 'evaluating a cost changed the stored circuit parameters'))
    # range, zero <-> equal up to a global phase
    if not (-1e-12 <= v_cost <= 1 + 1e-12):
        P.append((dict(call='HilbertSchmidtCost', target=kind, symptom='range'), '[0,1]', v_cost, 'cost outside [0,1]'))
    if kind == 'unitary':
        N = U.shape[0]
        ph = tb['p'] / abs(tb['p']) if abs(tb['p']) > 0 else 1.0
        dist2 = float(np.linalg.norm(U - ph * tn) ** 2)            # min over phi of ||U - e^{i phi} T||_F^2
        chk('phase-distance', 2 * N * v_cost, dist2, 1e-9 * N, '2N cost is not the squared distance to the target up to global phase')
        chk('residual-norm', float(r @ r), 2 * N - 2 * tb['p'].real, 1e-9 * N, 'sum of squared residuals is not 2N - 2 Re tr(T^dagger U)', call='HilbertSchmidtResiduals')
    if case['target']['src'] == 'self' and case['target']['at'] == case['x']:
        out['counts'].append('cost:equal-up-to-phase')
        bound = 0.0 if (case['mono'] and kind != 'system') else 4e-15
        if not (abs(v_cost) <= bound):
            P.append((dict(call='HilbertSchmidtCost', target=kind, symptom='nonzero-at-phase-equal'), 0.0, v_cost, 'cost is not zero although the circuit equals the target up to a global phase'))
    out['nontrivial'] = len(cs['ops']) >= 2
    # gradients
    npar = len(x)
    if npar == 0:
        g = np.array(cost.get_grad(x), dtype=float)
        if g.shape not in ((0,),):
            P.append((dict(call='HilbertSchmidtCost.get_grad', target=kind, symptom='grad-shape'), [0], list(g.shape), 'gradient of a parameterless circuit'))
        return out
    nondiff = any(spec_has(o[0], ('lib',)) and _libname(o[0]) in NONDIFF for o in cs['ops'])
    try:
        Ug, dU = circuit.get_unitary_and_grad(x)
        dU = np.array(dU)
        ga, Ja = tb_grads(np, kind, U, dU, tn)
    except NotImplementedError:          # a gate without a python gradient (VariableUnitaryGate): finite differences only
        ga = Ja = None
        out['counts'].append('grad:no-python-gradient')
    try:
        g = np.array(cost.get_grad(x), dtype=float)
    except BaseException as e:
        if any(spec_has(o[0], ('varu',)) for o in cs['ops']):
            out['counts'].append('grad:unsupported-variable-unitary')     # no gradient, natively or in python; Minimization rejects it
        else:
            P.append((dict(call='HilbertSchmidtCost.get_grad', target=kind, symptom='grad-raised'), 'a gradient', '%s: %s' % (type(e).__name__, str(e)[:120]),
                      'get_grad raised on a differentiable circuit'))
        return out
    c2, g2 = cost.get_cost_and_grad(x)
    chk('cost-and-grad', [c2] + list(g2), [v_cost] + list(g), 1e-12, 'get_cost_and_grad disagrees with get_cost / get_grad', call='HilbertSchmidtCost.get_grad')
    J = np.array(res.get_grad(x), dtype=float)
    r2, J2 = res.get_residuals_and_grad(x)
    chk('residuals-and-grad', np.concatenate([np.ravel(r2), np.ravel(J2)]), np.concatenate([r, J.ravel()]), 1e-12, 'get_residuals_and_grad disagrees with get_residuals / get_grad', call='HilbertSchmidtResiduals.get_grad')
    rel = abs(tb['p']) / tb['scale']
    singular = kind != 'state' and rel < 0.02
    if singular:
        out['counts'].append('grad:near-singular-skipped')
    elif ga is not None:
        amp = 1.0 if kind == 'state' else 1.0 / rel
        chk('grad-analytic', g, ga, GRAD_TOL * amp, 'get_grad(x) is not the analytic gradient built from circuit.get_unitary_and_grad(x)', call='HilbertSchmidtCost.get_grad')
    if Ja is not None:
        chk('jac-analytic', J, Ja, GRAD_TOL, 'residual jacobian is not [Re;Im] of dU T^dagger', call='HilbertSchmidtResiduals.get_grad')
    # central finite differences of the textbook cost / residuals (independent of every get_grad)
    fd_g, fd_J = [], []
    for i in range(npar):
        e = np.zeros(npar)
        e[i] = FD_H
        a = tb_eval(np, kind, np.array(circuit.get_unitary(x + e)), tn)
        b = tb_eval(np, kind, np.array(circuit.get_unitary(x - e)), tn)
        fd_g.append((a['cost'] - b['cost']) / (2 * FD_H))
        fd_J.append((a['res'] - b['res']) / (2 * FD_H))
    if not singular:
        amp = 1.0 if kind == 'state' else 1.0 / rel ** 2
        chk('grad-fd', g, fd_g, FD_TOL * amp * _fd_scale(cs), 'get_grad(x) does not match central finite differences of the textbook cost', call='HilbertSchmidtCost.get_grad')
    chk('jac-fd', J, np.array(fd_J).T, FD_TOL * _fd_scale(cs), 'residual jacobian does not match central finite differences', call='HilbertSchmidtResiduals.get_grad')
    out['counts'].append('grad:checked')
    return out


def _libname(spec):
    return spec[1] if spec[0] == 'lib' else None


def _fd_scale(cs):
    """third-derivative scale of the entries w.r.t. one parameter: PowerGate(g, k) multiplies the frequency by |k|"""
    s = 1.0
    for g, _, _ in cs['ops']:
        k = 1
        sp = g
        while isinstance(sp, list) and sp and sp[0] in ('power', 'dagger', 'tagged', 'frozen', 'ctrl', 'embedded'):
            if sp[0] == 'power':
                k *= abs(sp[2])
            sp = sp[1]
        s = max(s, float(k) ** 3)
    return s


def _short(a, n=12):
    import numpy as np
    a = np.ravel(np.asarray(a, dtype=float))
    return [float(v) for v in a[:n]] + (['... %d values' % a.size] if a.size > n else [])


# ---- real instantiaters -----------------------------------------------------------------------
INST_CONFIGS = ['min-default', 'min-name', 'min-ceres', 'min-lbfgs', 'min-scipy', 'qfactor-name', 'qfactor-obj']


def gen_inst_case(rng, idx):
    cfg = rng.choice(INST_CONFIGS + ['min-default', 'min-lbfgs', 'qfactor-name'])
    if cfg.startswith('qfactor'):
        while True:
            nq = rng.randint(1, 2)
            radixes = [rng.choice([2, 2, 3]) for _ in range(nq)]
            if math.prod(radixes) <= 9:
                break
        ops = []
        for _ in range(rng.randint(1, 4)):
            ar = rng.randint(1, nq)
            loc = rng.sample(range(nq), ar)
            key = tuple(radixes[q] for q in loc)
            choices = [(['varu', ar, list(key)], 2 * math.prod(key) ** 2)] * 2
            if key in MONO and rng.random() < 0.12:       # constant gates QFactor.is_capable rejects (see finding C19-F2)
                choices = [(g, 0) for g in MONO[key][:3]]
            if key == (2,):
                choices += [(['py', 'PyPhaseOpt'], 2), (['lib', 'RXGate'], 1), (['lib', 'RYGate'], 1), (['lib', 'U1Gate'], 1), (['lib', 'HGate'], 0)]
            if key == (3,):
                choices += [(['lib', 'HGate', 3], 0)]
            if key == (2, 2):
                choices += [(['lib', 'RXXGate'], 1), (['lib', 'ArbitraryCPhaseGate'], 1)]
            if key == (3, 3):
                choices += [(['lib', 'CSUMGate', 3], 0)]
            spec, npar = rng.choice(choices)
            ops.append([spec, loc, None])
        cs = dict(radixes=radixes, ops=ops)
        kind = rng.choice(['unitary', 'unitary', 'unitary', 'state', 'system'])
    else:
        cs = gen_circuit_spec(rng, max_dim=9, want=rng.choice([None, ('py',), ('dagger', 'power', 'frozen', 'ctrl', 'embedded', 'circuit')]),
                              nops=rng.randint(1, 5))
        # Minimization cannot take gates without a gradient; keep the scipy (numerical gradient) cases small
        cs['ops'] = [o for o in cs['ops'] if not (o[0][0] == 'lib' and o[0][1] in NONDIFF)] or [[['lib', 'U3Gate'] if cs['radixes'][0] == 2 else ['py', 'PyPhase3'], [0], None]]
        if cfg == 'min-scipy':
            cs['ops'] = cs['ops'][:3]
        kind = rng.choice(['unitary', 'unitary', 'state', 'system'])
    N = math.prod(cs['radixes'])
    starts = rng.randint(1, 8) if cfg != 'min-scipy' else rng.randint(1, 3)
    t = dict(seed=rng.randrange(2 ** 31), src=rng.choice(['random', 'self', 'self']), at=None, phase=round(rng.uniform(0, 6.28), 4),
             eps=0.01, k=rng.randint(1, N), nonorth=False)
    return dict(kind='inst', idx=idx, circuit=cs, config=cfg, target_kind=kind, target=t, starts=starts,
                seed=rng.choice([None, None, rng.randrange(1000)]), npseed=rng.randrange(2 ** 31))


def structure_of(circuit):
    return [(cyc, id(op.gate), repr(op.gate), tuple(op.location), op.num_params) for cyc, op in circuit.operations_with_cycles()]


def run_inst_case(case):
    import numpy as np
    from bqskit.ir.opt.cost.functions import HilbertSchmidtCostGenerator, HilbertSchmidtResidualsGenerator
    from bqskit.ir.opt.instantiaters import Minimization, QFactor
    from bqskit.ir.opt.minimizers import CeresMinimizer, LBFGSMinimizer, ScipyMinimizer
    import bqskit.ir.opt.instantiater as inst_mod
    import bqskit.ir.opt.instantiaters.minimization as min_mod
    from bqskit.ir.opt.multistartgens.random import RandomStartGenerator
    warnings.simplefilter('ignore')
    out = dict(counts=[], problems=[], nontrivial=False)
    P = out['problems']
    cs = case['circuit']
    cfg = case['config']
    kind = case['target_kind']
    np.random.seed(case['npseed'])
    circuit = mk_circuit(cs)
    if circuit.num_params:
        circuit.set_params(np.random.uniform(-3, 3, circuit.num_params))
    tspec = dict(case['target'])
    tspec['at'] = list(np.random.uniform(-3, 3, circuit.num_params))
    target, tn = mk_target(np, kind, tspec, cs['radixes'], circuit)
    before = structure_of(circuit)
    params_before = np.array(circuit.params)
    ref = circuit.copy()
    out['counts'] += ['inst:config=%s' % cfg, 'inst:target=%s' % kind, 'inst:starts=%d' % case['starts']] + ['inst:class=%s' % k for k in circuit_classes(cs)]
    sig0 = dict(call='Circuit.instantiate', config=cfg.split('-')[0], target=kind)

    rec = dict(starts=None, runs=[])

    class RecStarts(RandomStartGenerator):
        def gen_starting_points(self, multistarts, circuit, target):
            s = super().gen_starting_points(multistarts, circuit, target)
            rec['starts'] = [np.array(v, dtype=float).copy() for v in s]
            return s

    def wrap(cls):
        orig = cls.instantiate

        def instantiate(self, circuit, target, x0):
            r = orig(self, circuit, target, x0)
            rec['runs'].append((np.array(x0, dtype=float).copy(), np.array(r, dtype=float).copy(), type(self).__name__))
            return r
        return orig, instantiate

    method = dict([('min-default', None), ('min-name', 'Minimization'), ('qfactor-name', 'qfactor')]).get(cfg, 'obj')
    if method == 'obj':
        method = {'min-ceres': lambda: Minimization(HilbertSchmidtResidualsGenerator(), CeresMinimizer()),
                  'min-lbfgs': lambda: Minimization(HilbertSchmidtCostGenerator(), LBFGSMinimizer()),
                  'min-scipy': lambda: Minimization(HilbertSchmidtCostGenerator(), ScipyMinimizer()),
                  'qfactor-obj': lambda: QFactor()}[cfg]()
    om, wm = wrap(Minimization)
    oq, wq = wrap(QFactor)
    ret, err = None, None
    icls = QFactor if cfg.startswith('qfactor') else Minimization
    capable = bool(icls.is_capable(circuit))
    try:
        with patched((inst_mod, 'RandomStartGenerator', RecStarts), (min_mod, 'RandomStartGenerator', RecStarts),
                     (Minimization, 'instantiate', wm), (QFactor, 'instantiate', wq)):
            ret = circuit.instantiate(target, method=method, multistarts=case['starts'], seed=case['seed'])
    except BaseException as e:        # pyo3 panics derive from BaseException
        err = e
    after = structure_of(circuit)
    if after != before:
        P.append((dict(sig0, symptom='structure-changed'), [b[2:] for b in before], [a[2:] for a in after], 'instantiate changed the operations / gates / locations of the circuit'))
    if err is not None and (not capable or (icls is QFactor and kind != 'unitary')):
        # rejected: not capable -> ValueError ; the native QFactor takes unitary targets only
        ok_exc = isinstance(err, ValueError) if not capable else isinstance(err, (TypeError, AttributeError))
        out['counts'].append('inst:rejected:%s' % ('incapable' if not capable else 'qfactor-nonunitary-target'))
        if not ok_exc:
            P.append((dict(sig0, symptom='raised', exc=type(err).__name__), 'ValueError' if not capable else 'TypeError',
                      '%s: %s' % (type(err).__name__, str(err)[:200]), 'unexpected exception type for a rejected instantiation'))
        if not np.array_equal(np.array(circuit.params), params_before):
            P.append((dict(sig0, symptom='params-changed-on-error'), _short(params_before), _short(np.array(circuit.params)), 'a rejected instantiation changed the stored parameters'))
        return out
    if err is None and not capable:
        P.append((dict(sig0, symptom='incapable-instantiater-used'), 'ValueError', 'completed', 'an instantiater whose is_capable() is False was run'))
    if err is not None:
        out['counts'].append('inst:raised:%s' % type(err).__name__)
        P.append((dict(sig0, symptom='raised', exc=type(err).__name__), 'a result', '%s: %s' % (type(err).__name__, str(err)[:200]), 'instantiate raised on a valid circuit/target'))
        return out
    if ret is not circuit:
        P.append((dict(sig0, symptom='not-same-object'), 'the circuit itself', repr(type(ret)), 'instantiate did not return the circuit it was called on'))
    k = case['starts']
    exp_cls = 'QFactor' if cfg.startswith('qfactor') else 'Minimization'
    runs = rec['runs']
    if rec['starts'] is None or len(rec['starts']) != k or len(runs) != k or any(r[2] != exp_cls for r in runs) \
            or any(not np.array_equal(r[0], s) for r, s in zip(runs, rec['starts'])):
        P.append((dict(sig0, symptom='starts-not-all-instantiated'), '%d starts, each instantiated once in order by %s' % (k, exp_cls),
                  dict(generated=None if rec['starts'] is None else len(rec['starts']), instantiated=[r[2] for r in runs]),
                  'not every generated start was instantiated exactly once, in order, by the selected instantiater'))
        return out
    final = np.array(circuit.params, dtype=float)
    cands = [r[1] for r in runs]
    # the implementation's own ranking function on the untouched copy, and the textbook cost
    own = HilbertSchmidtCostGenerator().gen_cost(ref, target)
    own_costs = [float(own.get_cost(c)) for c in cands]
    tb_costs = [float(tb_eval(np, kind, np.array(ref.get_unitary(c)) if len(c) else np.array(ref.get_unitary()), tn)['cost']) for c in cands]
    if max(abs(a - b) for a, b in zip(own_costs, tb_costs)) > VAL_TOL:
        P.append((dict(call='HilbertSchmidtCost', target=kind, symptom='value'), tb_costs, own_costs, 'cost of an instantiation result is not the textbook cost'))
    hits = [i for i, c in enumerate(cands) if c.shape == final.shape and np.array_equal(c, final)]
    best = min(own_costs)
    first = own_costs.index(best)
    if not hits:
        P.append((dict(sig0, symptom='not-a-candidate'), 'one of the per-start results', _short(final), 'stored parameters are none of the per-start results'))
    elif first not in hits and not (min(tb_costs[i] for i in hits) <= min(tb_costs) + 1e-12 and own_costs[hits[0]] == best):
        P.append((dict(sig0, symptom='not-argmin'), dict(index=first, cost=best, costs=own_costs), dict(index=hits, cost=[own_costs[i] for i in hits]),
                  'kept candidate is not the first candidate of least Hilbert-Schmidt cost'))
    if min(tb_costs[i] for i in hits or [0]) > min(tb_costs) + 1e-9:
        P.append((dict(sig0, symptom='not-argmin-textbook'), min(tb_costs), [tb_costs[i] for i in hits], 'kept candidate does not have the least textbook cost'))
    out['nontrivial'] = k > 1 and circuit.num_params > 0
    out['counts'].append('inst:ok')
    out['counts'].append('inst:final-cost<1e-6' if tb_costs[hits[0] if hits else 0] < 1e-6 else 'inst:final-cost>=1e-6')
    if len(set(np.round(own_costs, 12))) > 1:
        out['counts'].append('inst:distinct-candidate-costs')
    return out


# ---- directed cases: reproduced defects of the unchanged tree (known findings) ---------------------
DIM_CASES = [
    dict(kind='dim-mismatch', call='Circuit.instantiate', radixes=[2], gate=['lib', 'U3Gate'], target='unitary', tdim=4),
    dict(kind='dim-mismatch', call='Circuit.instantiate', radixes=[2], gate=['lib', 'U3Gate'], target='state', tdim=4),
    dict(kind='dim-mismatch', call='calc_cost', radixes=[3], gate=['py', 'PyPhase3'], target='unitary', tdim=2),
]
def _dim_body(case):
    import numpy as np
    from bqskit.ir.circuit import Circuit
    c = Circuit(len(case['radixes']), case['radixes'])
    c.append_gate(mk_gate(case['gate']), list(range(len(case['radixes']))))
    t = np.eye(case['tdim']) if case['target'] == 'unitary' else np.eye(case['tdim'])[0]
    try:
        if case['call'] == 'calc_cost':
            from bqskit.ir.opt.cost.functions import HilbertSchmidtCostGenerator
            from bqskit.qis.unitary.unitarymatrix import UnitaryMatrix
            HilbertSchmidtCostGenerator().calc_cost(c, UnitaryMatrix(t))
        else:
            c.instantiate(t)
        return 'RESULT completed'
    except BaseException as e:
        return 'RESULT raised ' + type(e).__name__


def run_dim_case(case):
    """runs in a forked child: the defect kills the process (SIGABRT from the native engine)"""
    out = dict(counts=['directed:dim-mismatch'], problems=[], nontrivial=True)
    warnings.simplefilter('ignore')
    py_gates()
    r, w = os.pipe()
    pid = os.fork()
    if pid == 0:
        try:
            os.close(r)
            try:
                import resource
                resource.setrlimit(resource.RLIMIT_CORE, (0, 0))
            except Exception:
                pass
            os.write(w, _dim_body(case).encode())
        finally:
            os._exit(0)
    os.close(w)
    data = b''
    while True:
        chunk = os.read(r, 4096)
        if not chunk:
            break
        data += chunk
    os.close(r)
    _, status = os.waitpid(pid, 0)
    res = data.decode()
    obs = res if res.startswith('RESULT') else 'process died: %s' % ('signal %d' % os.WTERMSIG(status) if os.WIFSIGNALED(status) else 'status %d' % status)
    if not res.startswith('RESULT'):
        out['problems'].append((dict(call=case['call'], symptom='process-abort', input='target-dimension-mismatch'),
                                'ValueError (documented: "If `target` dimension doesn\'t match with circuit")', obs,
                                'a target of the wrong dimension kills the interpreter (native abort) instead of raising'))
    elif res == 'RESULT raised PanicException':
        out['problems'].append((dict(call=case['call'], symptom='native-panic', input='target-dimension-mismatch'),
                                'ValueError', obs, 'a target of the wrong dimension makes the native engine panic (PanicException is a BaseException) instead of raising ValueError'))
    elif res not in ('RESULT raised ValueError', 'RESULT raised TypeError'):
        out['problems'].append((dict(call=case['call'], symptom='dimension-mismatch-accepted', input='target-dimension-mismatch'),
                                'ValueError', obs, 'a target of the wrong dimension is not rejected'))
    return out


QF_CONST = [['lib', 'CNOTGate'], ['lib', 'XGate'], ['lib', 'ZGate'], ['lib', 'TGate'], ['lib', 'CZGate'], ['lib', 'SwapGate'],
            ['lib', 'CCXGate'], ['lib', 'ShiftGate', 3], ['lib', 'HGate'], ['lib', 'CSUMGate', 3]]
QF_GENERAL = [['lib', 'U3Gate'], ['lib', 'U8Gate'], ['lib', 'RXGate'], ['lib', 'RYGate'], ['lib', 'U1Gate'], ['lib', 'RXXGate'],
              ['lib', 'ArbitraryCPhaseGate'], ['lib', 'DiagonalGate', 2], ['py', 'PyPhaseOpt']]


def run_qf_case(case):
    """QFactor.is_capable against what the native QFactor actually handles"""
    import numpy as np
    from bqskit.ir.circuit import Circuit
    from bqskit.ir.gates import VariableUnitaryGate
    from bqskit.ir.opt.instantiaters import QFactor
    warnings.simplefilter('ignore')
    out = dict(counts=['directed:' + case['kind']], problems=[], nontrivial=True)
    g = mk_gate(case['gate'])
    np.random.seed(11)
    c = Circuit(g.num_qudits, g.radixes)
    if case['kind'] == 'qf-capable':
        c.append_gate(VariableUnitaryGate(g.num_qudits, g.radixes), list(range(g.num_qudits)))
    c.append_gate(g, list(range(g.num_qudits)))
    if case['kind'] == 'qf-capable':
        c.append_gate(VariableUnitaryGate(g.num_qudits, g.radixes), list(range(g.num_qudits)))
    T = c.get_unitary(np.random.uniform(-1, 1, c.num_params))
    capable = bool(QFactor.is_capable(c))
    x0 = np.array(c.params)
    try:
        pr = QFactor().instantiate(c, T, x0)
        d = float(c.get_unitary(pr).get_distance_from(T))
        native = 'ok' if d < 1e-5 else 'ok-not-converged'
    except BaseException as e:
        native = 'raised ' + type(e).__name__
    out['counts'].append('qf:%s:capable=%s:native=%s' % (case['kind'], capable, native.split()[0]))
    if native.startswith('ok') and not capable and g.num_params == 0:
        out['problems'].append((dict(call='QFactor.is_capable', symptom='constant-gate-rejected'), 'capable (the native QFactor instantiates the circuit)',
                                'is_capable=False: ' + QFactor.get_violation_report(c)[-80:],
                                'QFactor.is_capable rejects a circuit only because of a parameterless library gate that is not a ConstantGate subclass'))
    if capable and native.startswith('raised'):
        out['problems'].append((dict(call='QFactor.instantiate', symptom='native-panic'), 'parameters', native,
                                'QFactor.is_capable accepts the circuit but the native engine panics on the gate'))
    return out


# ---- dispatch, shrink, run ------------------------------------------------------------------------
RUNNERS = dict(cost=run_cost_case, inst=run_inst_case, **{'dim-mismatch': run_dim_case, 'qf-capable': run_qf_case, 'qf-panic': run_qf_case})


class Collector:
    """records ctx calls in a worker; replayed on the real Ctx in the parent"""

    def __init__(self):
        self.calls = []
        self.samples = []

    def __getattr__(self, name):
        if name in ('case', 'count', 'violation', 'broken_obligation', 'sample'):
            return lambda *a, **k: self.calls.append((name, a, k))
        raise AttributeError(name)


_W = None


def _world():
    global _W
    os.environ['RUST_BACKTRACE'] = '0'        # the engine's panics are expected outcomes here; symbolising backtraces costs seconds each
    if _W is None:
        _W = World()
    return _W


_QUIET = [False]


def work(task):
    kind, payload = task
    if not _QUIET[0]:
        _QUIET[0] = True
        import multiprocessing as mp
        if mp.current_process().name != 'MainProcess':       # the Rust panic hook prints backtraces on fd 2
            try:
                fd = os.open(str(vf.BUILD / 'c19-workers.log'), os.O_WRONLY | os.O_CREAT | os.O_APPEND)
                os.dup2(fd, 2)
            except OSError:
                pass
    try:
        if kind == 'script':
            col = Collector()
            check_script_cases(col, _world(), payload, 'script')
            return ('calls', col.calls)
        if kind == 'min':
            col = Collector()
            check_min_cases(col, _world(), payload)
            return ('calls', col.calls)
        small, out = postprocess(payload, RUNNERS[kind](payload))
        return ('result', small, out)
    except BaseException:
        import traceback
        return ('crash', task, traceback.format_exc())


def shrink(case, sigs):
    """greedy: drop operations while the same problem signature is still reported"""
    if case['kind'] not in ('cost', 'inst'):
        return case
    runner = RUNNERS[case['kind']]
    cur = case
    for _round in range(3):
        changed = False
        i = 0
        while i < len(cur['circuit']['ops']) and len(cur['circuit']['ops']) > 1:
            cand = json.loads(json.dumps(cur))
            del cand['circuit']['ops'][i]
            npar = sum(len(o[2]) for o in cand['circuit']['ops'] if o[2])
            if cand['kind'] == 'cost':
                same = cand['target']['at'] == cand['x']
                cand['x'] = cand['x'][:npar] + [0.5] * max(0, npar - len(cand['x']))
                cand['target']['at'] = cand['x'] if same else (cand['target']['at'][:npar] + [0.25] * max(0, npar - len(cand['target']['at'])))
                if cand['target_kind'] == 'system':
                    cand['target']['k'] = min(cand['target']['k'], math.prod(cand['circuit']['radixes']))
            try:
                out = runner(cand)
            except BaseException:
                i += 1
                continue
            if any(canon_sig(p[0]) in sigs for p in out['problems']):
                cur, changed = cand, True
            else:
                i += 1
        if not changed:
            break
    return cur


GRAD_SYMPTOMS = ('grad-analytic', 'grad-fd', 'jac-analytic', 'jac-fd')
VALUE_SYMPTOMS = ('value', 'call-value', 'residuals', 'residuals-cost', 'calc-cost', 'phase-distance', 'residual-norm')


def gate_label(spec):
    if spec[0] in ('lib', 'py'):
        return spec[1]
    if spec[0] == 'varu':
        return 'VariableUnitaryGate'
    if spec[0] == 'circuit':
        return 'CircuitGate'
    return '%s(%s)' % (spec[0], gate_label(spec[1]))


def native_culprit(case, sigs):
    """which natively evaluated library gate is to blame: wrapping every occurrence of it in a TaggedGate keeps the
    circuit's semantics but routes the gate through its python definition; if the problem then vanishes, the native
    implementation of that gate disagrees with its python definition"""
    names = sorted({o[0][1] for o in case['circuit']['ops'] if o[0][0] == 'lib'})
    found = []
    for nm in names:
        cand = json.loads(json.dumps(case))
        for o in cand['circuit']['ops']:
            if o[0][0] == 'lib' and o[0][1] == nm:
                o[0] = ['tagged', o[0], 'via-python']
        try:
            out = run_cost_case(cand)
        except BaseException:
            continue
        if not any(canon_sig(p[0]) in sigs for p in out['problems']):
            found.append(nm)
    return found[0] if len(found) == 1 else None


def canon_sig(sig):
    return json.dumps(sig, sort_keys=True)


_KNOWN = []          # open known-finding signatures, set in the parent before the pool forks


def known_match(sig):
    return any(ks and all(sig.get(a) == b for a, b in ks.items()) for ks in _KNOWN)


def label(case, problems):
    """final signatures: add the gate a gradient/value problem is attributed to"""
    culprits = {}          # per family: the natively evaluated library gate identified by substitution, if any
    if case.get('kind') == 'cost':
        for fam, syms in (('gradient', GRAD_SYMPTOMS), ('value', VALUE_SYMPTOMS)):
            sigs = {canon_sig(p[0]) for p in problems if p[0].get('symptom') in syms}
            if sigs:
                culprits[fam] = native_culprit(case, sigs)
    out = []
    for sig, exp, obs, what in problems:
        sig = dict(sig)
        fam = 'gradient' if sig.get('symptom') in GRAD_SYMPTOMS else 'value' if sig.get('symptom') in VALUE_SYMPTOMS else None
        culprit = culprits.get(fam)
        if culprit:
            named = dict(sig, family=fam, gate=culprit)
            if known_match(named):          # keep the set of distinct signatures small: name the gate only for a known finding
                sig = named
            else:
                what = what + ' [vanishes when %s is evaluated through its python definition]' % culprit
        out.append((sig, exp, obs, what))
    return out


def postprocess(case, out, do_shrink=True):
    """in the worker: attribute, and shrink unless everything is an already known finding"""
    if not out['problems']:
        return case, out
    labelled = label(case, out['problems'])
    unknown = {canon_sig(raw[0]) for raw, lab in zip(out['problems'], labelled) if not known_match(lab[0])}
    if do_shrink and unknown and case.get('kind') in ('cost', 'inst'):
        small = shrink(case, unknown)            # shrink w.r.t. the problems that are not known findings
        if small is not case:
            out2 = RUNNERS[case['kind']](small)
            if any(canon_sig(p[0]) in unknown for p in out2['problems']):
                out2['counts'] = out['counts']
                return small, dict(out2, problems=label(small, out2['problems']))
    return case, dict(out, problems=labelled)


def absorb(ctx, case, out):
    for k in out['counts']:
        ctx.count(k)
    ctx.case((case['kind'], json.dumps(case, sort_keys=True, default=str)), nontrivial=out['nontrivial'])
    for sig, exp, obs, what in out['problems']:
        ctx.violation(sig, case, exp, obs, what)
    if len(ctx.samples) < 6 and case.get('kind') in ('cost', 'inst') and not out['problems']:
        ctx.sample(dict(kind=case['kind'], circuit=case['circuit'], target=case['target_kind'], observed=out['counts'][-3:]))


def run_tasks(ctx, tasks):
    """run on a process pool; a worker that dies (native abort) is traced back to its case"""
    from concurrent.futures import ProcessPoolExecutor
    from concurrent.futures.process import BrokenProcessPool
    import multiprocessing as mp
    nproc = max(2, min(12, (os.cpu_count() or 4) - 2))
    results, pending = [], list(tasks)
    while pending:
        done = 0
        try:
            with ProcessPoolExecutor(max_workers=nproc, mp_context=mp.get_context('fork')) as ex:
                for r in ex.map(work, pending, chunksize=1):
                    results.append(r)
                    done += 1
            pending = []
        except BrokenProcessPool:
            # a worker died (native abort): the culprit is among the tasks in flight; run those one per process
            window, pending = pending[done:done + 4 * nproc], pending[done + 4 * nproc:]
            for t in window:
                try:
                    with ProcessPoolExecutor(max_workers=1, mp_context=mp.get_context('fork')) as ex:
                        results.append(ex.submit(work, t).result(timeout=900))
                except BaseException as e:
                    kind, payload = t
                    ctx.violation(dict(call=kind, symptom='process-abort'), payload if isinstance(payload, dict) else dict(kind=kind, cases=payload),
                                  'a result or a Python exception', 'worker process died: %r' % (e,), 'the implementation killed the interpreter on this case')
    return results


def run(ctx: vf.Ctx):
    ctx.uses_translators = set()
    ctx.build(**BUILD)
    warnings.simplefilter('ignore')
    W = _world()
    py_gates()
    _KNOWN[:] = [k.get('signature', {}) for k in ctx.known if k.get('status') == 'open']
    ctx.rule = ('(a) scripted Circuit.instantiate scenarios vs the extracted Coq model: random circuits (1-3 qubits, 0-5 ops), 1-8 starts, '
                '1-4 scripted instantiaters with random capability, method none/name/object/bad, cost tables with ties, +-0, inf, denormals; '
                '~15% malformed (multistarts 0/negative/non-int, bad seed, bad target, generator returning too few/no starts, wrong-length '
                'result, nobody capable); Minimization with scripted minimiser and own cost/residuals. '
                '(b) oracle on the real (native) implementation: random circuits of 1-3 qudits, radixes 2/3 mixed, 1-7 ops drawn from library '
                'gates (native and python-evaluated), composed gates (dagger/power/frozen/tagged/controlled/embedded/circuit-gate) and harness-defined '
                'python gates; 20% monomial circuits (exact arithmetic); target kind unitary/state/state-system, target random / the circuit itself times '
                'a global phase / a perturbation; parameters uniform in [-2pi,2pi], stored parameters different from the evaluated ones; values vs '
                'textbook (1e-9, monomial 2e-15), analytic gradient 1e-8, central differences h=1e-5; instantiation with ceres/lbfgs/scipy/qfactor, '
                '1-8 starts, recorded starts and per-start results. non-trivial = >=2 ops (cost) / >1 start and >=1 parameter (instantiate) / completed '
                'run with >1 start (scripted); distinct by canonical case text.')
    ctx.assumptions += [
        'cost keys compared by sorted() are not NaN (the theorems assume `<` is a strict weak order)',
        'instantiate() oracles are side-effect free on the circuit (as the Instantiater contract demands)',
        'Circuit.get_unitary(params) / get_unitary_and_grad(params) define the circuit semantics (property C06); float error of a <=27-dimensional product is below 1e-9',
        'hypothesis `unitary n U` of the theorems: U^dagger U = I and U U^dagger = I (both sides stated)',
    ]
    ctx.trusted = ['Coq 8.16.1 kernel; Coquelicot + Reals axioms (sig_forall_dec, sig_not_dec, functional_extensionality_dep, classic)',
                   'ExtrOcamlBasic extraction, OCaml 4.13.1, coq/extract/cost_driver.ml',
                   'harness/props/c19.py (textbook numpy formulas mirroring coq/cost/HS.v, scripted classes, canonicalisation)',
                   'numpy / scipy.stats.unitary_group; the native bqskitrs engine is the object under test, not trusted']
    check_overrides(ctx, W)
    check_nan_cases(ctx, W)

    rng = ctx.rng
    tasks = []
    # corpus first
    for f in sorted(CORPUS.glob('*.json')):
        data = json.loads(f.read_text())
        case = data.get('case', data)
        ctx.count('corpus')
        tasks.append(task_of(case))
    for c in DIM_CASES:
        tasks.append(('dim-mismatch', c))
    for g in QF_CONST:
        tasks.append(('qf-capable', dict(kind='qf-capable', gate=g)))
    for g in QF_GENERAL:
        tasks.append(('qf-panic', dict(kind='qf-panic', gate=g)))
    tasks += [('cost', c) for c in sweep_cases()]
    n = ctx.n(240, 20000)
    scripts = [gen_script_case(rng, malformed=(rng.random() < 0.15)) for _ in range(n)]
    mins = [gen_min_case(rng) for _ in range(ctx.n(60, 6000))]
    for i in range(0, len(scripts), 40):
        tasks.append(('script', scripts[i:i + 40]))
    for i in range(0, len(mins), 50):
        tasks.append(('min', mins[i:i + 50]))
    tasks += [('inst', gen_inst_case(rng, i)) for i in range(ctx.n(120, 12000))]
    tasks += [('cost', gen_cost_case(rng, i, deep=not ctx.quick())) for i in range(ctx.n(220, 30000))]
    t1 = time.time()
    consume(ctx, run_tasks(ctx, tasks))
    ctx.cov['timing_s'] = dict(build_and_import=round(t1 - ctx.t0, 1), cases=round(time.time() - t1, 1))
    ctx.cov['theorems_about'] = ['multi_start / choose / set_params / select / instantiate (coq/cost/MultiStart.v)',
                                 'hs_cost, state_cost, sys_cost, hs_residuals, state_residuals, hs_grad, state_grad (coq/cost/HS.v)']
    ctx.cov['validated_not_proved'] = ['the native bqskitrs engine evaluates exactly these formulas (oracle, every run)',
                                       'sys_residuals and the system-cost gradient (oracle only)', 'optimiser convergence (not claimed)']
    ctx.cov['uncovered'] = ['multi_start_instantiate_async (runtime map)', 'NaN cost keys (excluded by hypothesis)']


def sweep_cases():
    """every catalogue gate at least once per run: alone, on a reversed location inside a wider mixed-radix
    circuit, for the three target kinds (deterministic; the random stream comes on top)"""
    out = []
    r = __import__('random').Random(19)
    extra = {(2,): (['varu', 1, [2]], 8), (3,): (['varu', 1, [3]], 18), (2, 2): (['varu', 2, [2, 2]], 32), (2, 3): (['varu', 2, [2, 3]], 72)}
    i = 0
    for key, entries in CATALOG.items():
        entries = list(entries) + ([extra[key]] if key in extra else [])
        for spec, npar in entries:
            radixes = list(reversed(key)) + [r.choice([2, 3])] if len(key) < 3 else list(reversed(key))
            loc = list(reversed(range(len(key))))
            filler = [['lib', 'U3Gate'], [len(radixes) - 1], None] if radixes[-1] == 2 else [['py', 'PyPhase3'], [len(radixes) - 1], None]
            nf = 3 if radixes[-1] == 2 else 2
            ops = [[spec, loc, [round(r.uniform(-3, 3), 3) for _ in range(npar)] if npar else None]]
            if len(key) < 3:
                ops.append(filler)
            cs = dict(radixes=radixes, ops=ops)
            tot = npar + (nf if len(key) < 3 else 0)
            kind = ['unitary', 'state', 'system'][i % 3]
            x = [round(r.uniform(-6, 6), 4) for _ in range(tot)]
            out.append(dict(kind='cost', idx='sweep-%d' % i, circuit=cs, target_kind=kind, mono=False, x=x,
                            target=dict(seed=1000 + i, src='random' if i % 2 else 'near', at=[round(v + 0.3, 4) for v in x], phase=0.7, eps=0.1,
                                        k=1 + i % max(1, math.prod(radixes) - 1), nonorth=bool(i % 4 == 0))))
            i += 1
    return out


def task_of(case):
    kind = case.get('kind')
    if kind == 'script':
        return ('script', [case['case']])
    if kind == 'min':
        return ('min', [case['case']])
    return (kind, case)


def consume(ctx, results):
    for r in results:
        if r[0] == 'calls':
            for name, a, k in r[1]:
                getattr(ctx, name)(*a, **k)
        elif r[0] == 'result':
            absorb(ctx, r[1], r[2])
        else:
            ctx.broken_obligation('check machinery raised in a worker', r[2] + '\n' + json.dumps(r[1], default=str)[:1500])


def replay(ctx, data):
    warnings.simplefilter('ignore')
    _world()
    py_gates()
    case = data['case']
    kind, payload = task_of(case)
    if kind not in ('script', 'min') and kind not in RUNNERS:
        ctx.broken_obligation('unknown replay kind', str(kind))
        return
    _KNOWN[:] = [k.get('signature', {}) for k in ctx.known if k.get('status') == 'open']
    consume(ctx, [work((kind, payload))])
