"""C15 - scheduler bookkeeping stays in bounds and assigns every task exactly once.

Tie 1 (translator): harness/gen/gen_sched.py regenerates coq/gen/SchedArith.v from
  bqskit/runtime/{base,manager,detached,worker}.py; coq/rt/SchedArithThm.v, Routing.v, SchedThm.v
  are proved over the generated definitions (coq/props/C15.v).
Tie 2 (co-simulation): a real DetachedServer / AttachedServer object (built with __new__ and fake
  connections, `random` scripted) and simulated workers that hold the ground truth are driven by
  the same event lists as the extracted model (coq/rt/Sched.v); all counters are compared after
  every event, and the property oracle is evaluated directly on the real object's fields.
Direct correspondence of the generated arithmetic against the real methods on random inputs.
"""
from __future__ import annotations

import copy
import itertools
import json
import random as pyrandom

import vf
import c15_tree

BUILD = dict(extracted=['sched'], translators={'gen_sched'})

D9_SIG = dict(call='cancel', symptom='num_tasks_not_zero_at_quiescence')


# --------------------------------------------------------------------------
# canonical text (same as coq/extract/common.ml `show`)
# --------------------------------------------------------------------------
def fmt(x) -> str:
    if isinstance(x, (list, tuple)):
        return '[' + ' '.join(fmt(y) for y in x) + ']'
    if x is None:
        return 'N'
    if isinstance(x, bool):
        return '1' if x else '0'
    return str(x)


# --------------------------------------------------------------------------
# real objects
# --------------------------------------------------------------------------
class Conn:
    def __init__(self, idx):
        self.idx = idx
        self.closed = False

    def send(self, m):
        raise AssertionError('server handlers must use self.outgoing')

    def close(self):
        self.closed = True


class FakeQueue:
    """Stands for queue.Queue (copyable)."""

    def __init__(self):
        self.items = []

    def put(self, x):
        self.items.append(x)

    def drain(self):
        it, self.items = self.items, []
        return it


class ScriptedRandom:
    """Replaces the `random` module inside bqskit.runtime.base: shuffle/random follow the script of the event."""

    def __init__(self):
        self.sh = None
        self.rs = []
        self.bad = False
        self.used_shuffle = False

    def arm(self, sh, rs):
        self.sh, self.rs, self.bad, self.used_shuffle = list(sh), list(rs), False, False

    def shuffle(self, lst):
        self.used_shuffle = True
        if sorted(lst) != sorted(self.sh):
            self.bad = True          # the scripted order is not a permutation: event not enabled
            return
        lst[:] = self.sh

    def random(self):
        if not self.rs:
            self.bad = True
            return 0.0
        return self.rs.pop(0) / 1024.0


def encode(addr) -> int:
    assert 0 <= addr.mailbox_index < 1000 and 0 <= addr.mailbox_slot < 10 and addr.worker_id >= -1
    return (addr.worker_id + 1) * 10000 + addr.mailbox_index * 10 + addr.mailbox_slot


def decode(t: int):
    from bqskit.runtime.address import RuntimeAddress
    return RuntimeAddress(t // 10000 - 1, (t % 10000) // 10, t % 10)


def _body():
    return None


_TAGGED = []


def tagged_result(ra, res, by, child):
    """RuntimeResult carrying (harness-only) the id of the task that produced it."""
    from bqskit.runtime.result import RuntimeResult
    if not _TAGGED:
        class Tagged(RuntimeResult):
            pass
        _TAGGED.append(Tagged)
    r = _TAGGED[0](ra, res, by)
    r._child = child
    return r


class SimWorker:
    """The abstract worker of coq/rt/Sched.v (wstate); holds the ground truth."""

    def __init__(self, wid):
        self.wid = wid
        self.mrrs = None
        self.held = []          # RuntimeTask objects
        self.blocked = False
        self.cancelled = []     # RuntimeAddress


class World:
    def __init__(self, n, cls_name='DetachedServer', lb=0):
        from bqskit.ir.circuit import Circuit  # noqa: F401  import order
        import bqskit.runtime.base as base
        from bqskit.runtime.base import RuntimeEmployee
        from bqskit.runtime.detached import DetachedServer
        from bqskit.runtime.attached import AttachedServer
        cls = dict(DetachedServer=DetachedServer, AttachedServer=AttachedServer)[cls_name]
        s = cls.__new__(cls)
        s.lower_id_bound, s.upper_id_bound, s.running = lb, lb + 2 ** 20, True
        s.employees, s.conn_to_employee_dict, s.outgoing = [], {}, FakeQueue()
        s.clients, s.tasks, s.mailbox_to_task_dict, s.mailboxes, s.mailbox_counter = {}, {}, {}, {}, 0
        for i in range(n):
            c = Conn(i)
            e = RuntimeEmployee(lb + i, c, 1)
            s.employees.append(e)
            s.conn_to_employee_dict[c] = e
        s.step_size, s.total_workers, s.num_idle_workers = 1, n, n
        self.s, self.n, self.lb = s, n, lb
        self.down = [[] for _ in range(n)]
        self.up = [[] for _ in range(n)]
        self.wk = [SimWorker(lb + i) for i in range(n)]
        self.seen = set()
        self.sent = []              # (employee index, [tids]) of every SUBMIT_BATCH put by the server
        self.submitted = []         # every tid handed to the system
        self.cancel_used = False
        self.rand = ScriptedRandom()

    def clone(self):
        """Cheap copy for the exhaustive exploration (tasks, messages and connections are immutable here and shared)."""
        w = World.__new__(World)
        s0 = self.s
        s = s0.__class__.__new__(s0.__class__)
        s.__dict__.update(s0.__dict__)
        s.employees, s.conn_to_employee_dict, s.outgoing = [], {}, FakeQueue()
        for e0 in s0.employees:
            e = copy.copy(e0)
            e.submit_cache = list(e0.submit_cache)
            s.employees.append(e)
            s.conn_to_employee_dict[e.conn] = e
        w.s, w.n, w.lb = s, self.n, self.lb
        w.down = [list(d) for d in self.down]
        w.up = [list(u) for u in self.up]
        w.wk = []
        for k0 in self.wk:
            k = SimWorker(k0.wid)
            k.mrrs, k.held, k.blocked, k.cancelled = k0.mrrs, list(k0.held), k0.blocked, list(k0.cancelled)
            w.wk.append(k)
        w.seen, w.sent, w.submitted = set(self.seen), list(self.sent), list(self.submitted)
        w.cancel_used, w.rand = self.cancel_used, ScriptedRandom()
        return w

    # -- helpers -------------------------------------------------------------
    def mk_task(self, spec):
        from bqskit.runtime.task import RuntimeTask
        t, ret, anc = spec
        addr = decode(t)
        assert addr.worker_id == ret, 'harness: task id does not encode its return worker'
        return RuntimeTask((_body, (), {}), addr, 0, tuple(decode(a) for a in anc))

    def fresh(self, specs):
        ids = [sp[0] for sp in specs]
        return len(set(ids)) == len(ids) and not any(i in self.seen for i in ids)

    def flush(self):
        sends = []
        from bqskit.runtime.message import RuntimeMessage as M
        for conn, msg, payload in self.s.outgoing.drain():
            self.down[conn.idx].append((msg, payload))
            if msg == M.SUBMIT_BATCH:
                sends.append([conn.idx, [encode(t.unique_id) for t in payload]])
        self.sent += sends
        return sends

    def with_random(self, sh, rs, fn):
        import bqskit.runtime.base as base
        old = base.random
        self.rand.arm(sh, rs)
        base.random = self.rand
        try:
            fn()
        finally:
            base.random = old

    def schedule(self, tasks, sh, rs):
        """Returns None (ok) | 'DISABLED' | 'FAULT x'.  Oracle enabledness is checked BEFORE touching the object."""
        if len(tasks) > 0:
            idle = [i for i, e in enumerate(self.s.employees) for _ in range(max(e.num_idle_workers, 0))]
            if sorted(idle) != sorted(sh) or len(rs) != len(self.s.employees):
                return 'DISABLED'
        try:
            self.with_random(sh, rs, lambda: self.s.schedule_tasks(tasks))
        except (AssertionError, RuntimeError, IndexError) as ex:
            return 'FAULT ' + type(ex).__name__
        assert not self.rand.bad
        return None

    # -- events (same semantics as Sched.step) -----------------------------------
    def apply(self, ev):
        """ev: list as in the driver protocol.  Returns ('OK', sends) | ('DISABLED',) | ('FAULT', name)."""
        from bqskit.runtime.message import RuntimeMessage as M
        from bqskit.runtime.direction import MessageDirection as Dn
        from bqskit.runtime.result import RuntimeResult
        k = ev[0]
        s = self.s
        if k == 'csub':
            _, specs, sh, rs = ev
            if not self.fresh(specs) or any(sp[1] != -1 for sp in specs):
                return ('DISABLED',)
            tasks = [self.mk_task(sp) for sp in specs]
            r = self.schedule(tasks, sh, rs)
            if r == 'DISABLED':
                return ('DISABLED',)
            if r:
                return ('FAULT', r.split()[1])
            for sp in specs:
                self.seen.add(sp[0])
                self.submitted.append(sp[0])
            return ('OK', self.flush())
        if k == 'ccancel':
            self.cancel_used = True
            s.broadcast(M.CANCEL, decode(ev[1]))
            return ('OK', self.flush())
        if k == 'srecv':
            _, w, sh, rs = ev
            if not (0 <= w < self.n) or not self.up[w]:
                return ('DISABLED',)
            msg, payload = self.up[w][0]
            if msg in (M.SUBMIT, M.SUBMIT_BATCH):
                tasks = [payload] if msg == M.SUBMIT else payload
                if len(tasks) > 0:
                    idle = [i for i, e in enumerate(s.employees) for _ in range(max(e.num_idle_workers, 0))]
                    if sorted(idle) != sorted(sh) or len(rs) != len(s.employees):
                        return ('DISABLED',)
            self.up[w].pop(0)
            try:
                self.with_random(sh, rs, lambda: s.handle_message(msg, Dn.BELOW, s.employees[w].conn, payload))
            except (AssertionError, RuntimeError, IndexError) as ex:
                return ('FAULT', type(ex).__name__)
            assert not self.rand.bad
            return ('OK', self.flush())
        if k == 'wrecv':
            _, w, wake = ev
            if not (0 <= w < self.n) or not self.down[w]:
                return ('DISABLED',)
            msg, payload = self.down[w].pop(0)
            wk = self.wk[w]
            if msg == M.SUBMIT_BATCH:
                if not payload:
                    return ('FAULT', 'IndexError')
                wk.mrrs = payload[0].unique_id
                wk.held += list(payload)
                wk.blocked = False
            elif msg == M.RESULT:
                if wake and wk.held:
                    wk.blocked = False
            elif msg == M.CANCEL:
                wk.cancelled.insert(0, payload)
                wk.held = [t for t in wk.held if not t.is_descendant_of(payload)]
            else:
                raise AssertionError(f'unexpected message to a worker: {msg}')
            return ('OK', [])
        # worker main-loop actions
        w = ev[1]
        if not (0 <= w < self.n):
            return ('DISABLED',)
        wk = self.wk[w]
        if wk.blocked:
            return ('DISABLED',)
        if k in ('wfin', 'wdrop'):
            hit = [t for t in wk.held if encode(t.unique_id) == ev[2]]
            if not hit:
                return ('DISABLED',)
            t = hit[0]
            if k == 'wdrop':
                if not any(t.is_descendant_of(a) for a in wk.cancelled):
                    return ('DISABLED',)
                wk.held.remove(t)
                return ('OK', [])
            wk.held.remove(t)
            if t.return_address.worker_id == wk.wid:
                self.up[w].append((M.UPDATE, -1))
            else:
                self.up[w].append((M.RESULT, tagged_result(t.return_address, 'r', wk.wid, ev[2])))
            return ('OK', [])
        if k in ('wsub', 'wmap'):
            specs = [ev[2]] if k == 'wsub' else ev[2]
            if not wk.held or not specs or not self.fresh(specs) or any(sp[1] != wk.wid for sp in specs):
                return ('DISABLED',)
            tasks = [self.mk_task(sp) for sp in specs]
            self.up[w].append((M.SUBMIT, tasks[0]) if k == 'wsub' else (M.SUBMIT_BATCH, tasks))
            for sp in specs:
                self.seen.add(sp[0])
                self.submitted.append(sp[0])
            return ('OK', [])
        if k == 'wcancel':
            self.cancel_used = True
            self.up[w].append((M.CANCEL, decode(ev[2])))
            return ('OK', [])
        if k == 'widle':
            self.up[w].append((M.WAITING, (1, wk.mrrs)))
            wk.blocked = True
            return ('OK', [])
        raise AssertionError(f'unknown event {ev}')

    # -- observation ---------------------------------------------------------------
    def quiescent(self):
        return all(not d for d in self.down) and all(not u for u in self.up) and all(k.blocked and not k.held for k in self.wk)

    def state(self):
        from bqskit.runtime.message import RuntimeMessage as M
        s = self.s

        def dm(m, p):
            if m == M.SUBMIT_BATCH:
                return ['B', [encode(t.unique_id) for t in p]]
            if m == M.RESULT:
                return ['R', p.return_address.worker_id]
            if m == M.CANCEL:
                return ['C', encode(p)]
            raise AssertionError(m)

        def um(m, p):
            if m == M.SUBMIT:
                return ['S', encode(p.unique_id)]
            if m == M.SUBMIT_BATCH:
                return ['SB', [encode(t.unique_id) for t in p]]
            if m == M.WAITING:
                return ['W', p[0], None if p[1] is None else encode(p[1])]
            if m == M.RESULT:
                return ['RES', p.return_address.worker_id, p.completed_by]
            if m == M.UPDATE:
                return ['U', p]
            if m == M.CANCEL:
                return ['C', encode(p)]
            raise AssertionError(m)
        return fmt([
            s.num_idle_workers, s.total_workers,
            [[e.total_workers, e.num_tasks, e.num_idle_workers, [[encode(a), c] for a, c in e.submit_cache]] for e in s.employees],
            [[dm(m, p) for m, p in d] for d in self.down],
            [[um(m, p) for m, p in u] for u in self.up],
            [[None if k.mrrs is None else encode(k.mrrs), [encode(t.unique_id) for t in k.held], k.blocked,
              [encode(a) for a in k.cancelled]] for k in self.wk],
            self.quiescent(),
        ])

    # -- property oracle, evaluated on the real object's fields ----------------------
    def oracle(self):
        """Returns a list of (signature, expected, observed, what)."""
        from bqskit.runtime.message import RuntimeMessage as M
        s, out = self.s, []
        tot = 0
        for i, e in enumerate(s.employees):
            tot += e.num_idle_workers
            if not (0 <= e.num_idle_workers <= e.total_workers):
                out.append((dict(call='idle_bounds'), f'0 <= num_idle_workers <= {e.total_workers}', e.num_idle_workers,
                            f'employee {i}: idle-worker count out of bounds'))
            in_down = sum(len(p) for m, p in self.down[i] if m == M.SUBMIT_BATCH)
            compl = sum(1 for m, p in self.up[i] if m in (M.RESULT, M.UPDATE))
            truth = in_down + len(self.wk[i].held) + compl
            if e.num_tasks < 0:
                out.append((dict(call='num_tasks', symptom='negative'), '>= 0', e.num_tasks, f'employee {i}: task count negative'))
            if (not self.cancel_used and e.num_tasks != truth) or e.num_tasks < truth:
                out.append((dict(call='num_tasks', symptom='differs_from_ground_truth'), truth, e.num_tasks,
                            f'employee {i}: num_tasks differs from tasks in flight + held + completions in flight'))
            rec = [p[1] for m, p in self.up[i] if m == M.WAITING] + [self.wk[i].mrrs]
            addrs = [a for a, _ in e.submit_cache]
            for r in rec:
                if r is not None and r not in addrs:
                    out.append((dict(call='read_receipt'), 'receipt in submit_cache', encode(r),
                                f'employee {i}: a read receipt in flight is not in the submit cache'))
            if self.wk[i].blocked and not any(m == M.WAITING for m, p in self.up[i]):
                want = 0 if any(m == M.SUBMIT_BATCH for m, p in self.down[i]) else 1
                if e.num_idle_workers != want:
                    out.append((dict(call='idle_exact'), want, e.num_idle_workers,
                                f'employee {i}: blocked worker, WAITING processed, but the boss believes otherwise'))
        if s.num_idle_workers != tot or not (0 <= s.num_idle_workers <= s.total_workers):
            out.append((dict(call='idle_sum'), tot, s.num_idle_workers, 'node idle count is not the sum over employees / out of bounds'))
        sent_ids = [t for _, ts in self.sent for t in ts]
        pend = [encode(t.unique_id) for u in self.up for m, p in u if m in (M.SUBMIT, M.SUBMIT_BATCH)
                for t in ([p] if m == M.SUBMIT else p)]
        if len(set(sent_ids)) != len(sent_ids) or sorted(sent_ids + pend) != sorted(self.submitted) or any(not ts for _, ts in self.sent):
            out.append((dict(call='assign_once'), 'every submitted task forwarded exactly once, no empty batch',
                        dict(sent=self.sent, pending=pend, submitted=self.submitted), 'task lost, duplicated or empty batch sent'))
        if self.quiescent():
            for i, e in enumerate(s.employees):
                if e.num_idle_workers != 1:
                    out.append((dict(call='quiescent', symptom='idle'), 1, e.num_idle_workers, f'employee {i}: not believed idle at quiescence'))
                if e.num_tasks != 0:
                    sig = dict(D9_SIG) if self.cancel_used else dict(call='quiescent', symptom='num_tasks')
                    out.append((sig, 0, e.num_tasks, f'employee {i}: num_tasks not zero at quiescence'))
        return out


# --------------------------------------------------------------------------
# running event lists on both sides
# --------------------------------------------------------------------------
def ev_line(ev) -> str:
    return ' '.join(fmt(x) if isinstance(x, (list, tuple)) else str(x) for x in ev)


def run_impl(n, cls, lb, events, stop_on_fault=True):
    """Returns (trace, world): trace[i] = (answer line as the model would print it, oracle findings)."""
    w = World(n, cls, lb)
    trace = [('OK ' + w.state() + ' []', w.oracle())]
    for ev in events:
        r = w.apply(ev)
        if r[0] == 'OK':
            trace.append(('OK ' + w.state() + ' ' + fmt(r[1]), w.oracle()))
        elif r[0] == 'DISABLED':
            trace.append(('DISABLED', []))
        else:
            trace.append(('FAULT ' + r[1], [(dict(call='handler', symptom=r[1]), 'no exception', r[1],
                                              'a server handler raised (runtime would shut down)')]))
            if stop_on_fault:
                break
    return trace, w


def model_lines(n, lb, events):
    return [f'init {lb} {n}'] + [ev_line(e) for e in events]


# --------------------------------------------------------------------------
# random schedules
# --------------------------------------------------------------------------
class Gen:
    """Draws enabled events from the current world (mostly), with a malformed stream on the side."""

    def __init__(self, rng, n, cls, lb, cancels, adversarial, budget):
        self.rng, self.n, self.lb, self.cancels, self.adv = rng, n, lb, cancels, adversarial
        self.w = World(n, cls, lb)
        self.cls = cls
        self.events = []
        self.budget = budget            # tasks still allowed to be created
        self.mbox = {}                  # worker id (or -1) -> next mailbox index
        self.prog = {}                  # tid -> remaining spawn ops
        self.kids = {}                  # tid -> outstanding children
        self.parent = {}
        self.kinds = {}

    def new_ids(self, owner, k):
        m = self.mbox.get(owner, 0)
        self.mbox[owner] = m + 1
        return [(owner + 1) * 10000 + m * 10 + s for s in range(k)]

    def oracle_args(self, ntasks):
        s = self.w.s
        idle = [i for i, e in enumerate(s.employees) for _ in range(max(e.num_idle_workers, 0))]
        self.rng.shuffle(idle)
        rs = [self.rng.randrange(0, 4) for _ in s.employees]
        return idle, rs

    def plan(self, tid, depth):
        ops = []
        if depth < 2 and self.budget > 0 and self.rng.random() < 0.6:
            for _ in range(self.rng.randint(1, 2)):
                ops.append('map' if self.rng.random() < 0.7 else 'sub')
        self.prog[tid] = ops
        self.kids[tid] = 0

    def enabled(self):
        from bqskit.runtime.message import RuntimeMessage as M
        w, evs = self.w, []
        if self.budget > 0:
            evs.append(('csub',))
        for i in range(self.n):
            if w.up[i]:
                evs += [('srecv', i)] * 3
            if w.down[i]:
                evs += [('wrecv', i)] * 3
            k = w.wk[i]
            if k.blocked:
                continue
            runnable = False
            for t in k.held:
                tid = encode(t.unique_id)
                if any(t.is_descendant_of(a) for a in k.cancelled):
                    evs.append(('wdrop', i, tid))
                    continue
                if self.prog.get(tid):
                    evs.append(('spawn', i, tid))
                    runnable = True
                elif self.kids.get(tid, 0) == 0 or self.adv:
                    evs.append(('wfin', i, tid))
                    runnable = True
            if not runnable or (self.adv and self.rng.random() < 0.3):
                evs += [('widle', i)] * 2
            if self.cancels and k.held and self.rng.random() < 0.15:
                evs.append(('wcancel', i))
        if self.cancels and self.w.submitted and self.rng.random() < 0.1:
            evs.append(('ccancel',))
        return evs

    def draw(self):
        """One more event (or None at quiescence with nothing left to do)."""
        from bqskit.runtime.message import RuntimeMessage as M
        rng, w = self.rng, self.w
        if rng.random() < 0.12:
            return self.malformed()
        evs = self.enabled()
        if not evs:
            return None
        c = rng.choice(evs)
        k = c[0]
        if k == 'csub':
            kk = rng.choice([1, 1, 2, 3, self.n, self.n + 1, self.n + 2])
            kk = max(1, min(kk, self.budget))
            ids = [t for _ in range(kk) for t in self.new_ids(-1, 1)]
            self.budget -= kk
            for t in ids:
                self.plan(t, 0)
            sh, rs = self.oracle_args(kk)
            return ['csub', [[t, -1, []] for t in ids], sh, rs]
        if k == 'srecv':
            sh, rs = self.oracle_args(1)
            return ['srecv', c[1], sh, rs]
        if k == 'wrecv':
            i = c[1]
            msg, payload = w.down[i][0]
            wake = False
            if msg == M.RESULT:
                # the result of a child: its parent (held here) has one less outstanding child
                ch = getattr(payload, '_child', None)
                p = self.parent.get(ch)
                if p is not None and self.kids.get(p, 0) > 0:
                    self.kids[p] -= 1
                    wake = self.kids[p] == 0
                if self.adv:
                    wake = rng.random() < 0.5
            return ['wrecv', i, int(wake)]
        if k == 'spawn':
            _, i, tid = c
            op = self.prog[tid].pop(0)
            wid = w.wk[i].wid
            nk = 1 if op == 'sub' else rng.choice([1, 2, 3, self.n, self.n + 1])
            nk = max(1, min(nk, max(self.budget, 1)))
            self.budget -= nk
            ids = self.new_ids(wid, nk)
            held = [t for t in w.wk[i].held if encode(t.unique_id) == tid][0]
            anc = [encode(a) for a in held.breadcrumbs] + [tid]
            depth = len(anc)
            for t in ids:
                self.plan(t, depth)
                self.parent[t] = tid
            self.kids[tid] += nk
            specs = [[t, wid, anc] for t in ids]
            return ['wsub', i, specs[0]] if op == 'sub' else ['wmap', i, specs]
        if k == 'wfin':
            tid = c[2]
            p = self.parent.get(tid)
            # a child whose return address is on the same worker completes locally (UPDATE): parent notified at once
            if p is not None and tid // 10000 - 1 == w.wk[c[1]].wid and self.kids.get(p, 0) > 0:
                self.kids[p] -= 1
            return ['wfin', c[1], tid]
        if k == 'wcancel':
            i = c[1]
            t = rng.choice(w.wk[i].held)
            tgt = rng.choice([encode(t.unique_id)] + [encode(a) for a in t.breadcrumbs])
            return ['wcancel', i, tgt]
        if k == 'ccancel':
            return ['ccancel', rng.choice(w.submitted)]
        return list(c)

    def malformed(self):
        rng, n = self.rng, self.n
        k = rng.choice(['srecv', 'wrecv', 'wfin', 'widle', 'wsub', 'csub', 'wdrop', 'srecv_badsh'])
        i = rng.randrange(0, n + 1)
        if k == 'srecv':
            return ['srecv', i, [], [0] * n]
        if k == 'srecv_badsh':
            return ['srecv', rng.randrange(0, n), [0] * (n + 1), [0] * n]
        if k == 'wrecv':
            return ['wrecv', i, 0]
        if k == 'wfin':
            return ['wfin', i, rng.choice(self.w.submitted) if self.w.submitted else 10]
        if k == 'wdrop':
            return ['wdrop', i, rng.choice(self.w.submitted) if self.w.submitted else 10]
        if k == 'widle':
            return ['widle', i]
        if k == 'wsub':
            t = rng.choice(self.w.submitted) if self.w.submitted and rng.random() < 0.5 else (self.lb + i + 1) * 10000 + (900 + rng.randrange(90)) * 10
            return ['wsub', i, [t, self.lb + i, []]]
        t = rng.choice(self.w.submitted) if self.w.submitted else 5
        return ['csub', [[t, -1, []]], [], [0] * n]       # id reused (or wrong shuffle)

    def run(self, max_events):
        from bqskit.runtime.message import RuntimeMessage as M
        from bqskit.runtime.result import RuntimeResult
        while len(self.events) < max_events:
            ev = self.draw()
            if ev is None:
                break
            r = self.w.apply(ev)
            self.events.append(ev)
            if r[0] == 'FAULT':
                break
        return self.events


# --------------------------------------------------------------------------
# checking one event list: implementation + oracle, then the model
# --------------------------------------------------------------------------
def report(ctx, sig, n, cls, lb, events, exp, obs, what):
    """ctx.violation with a shrunk case; shrinks only for the first report of a signature that is not a known finding."""
    if ctx._match_known(sig) is not None or any(v['signature'] == sig for v in ctx.violations):
        return ctx.violation(sig, dict(n=n, cls=cls, lb=lb, events=events), exp, obs, what)
    return ctx.violation(sig, dict(n=n, cls=cls, lb=lb, events=shrink(n, cls, lb, events, sig)), exp, obs, what)


def check_case(ctx, n, cls, lb, events, model_out, kind):
    """model_out: answers of the model for model_lines(n, lb, events) (or None when the model is unavailable)."""
    trace, w = run_impl(n, cls, lb, events)
    case = dict(n=n, cls=cls, lb=lb, events=events)
    bad = False
    mismatch_reported = False
    for i, (line, findings) in enumerate(trace):
        for sig, exp, obs, what in findings:
            if report(ctx, sig, n, cls, lb, events[:i], exp, obs, what):
                bad = True
        if model_out is not None and not mismatch_reported and i < len(model_out) and model_out[i] != line:
            ctx.violation(dict(call='model-mismatch', event=(events[i - 1][0] if i else 'init')),
                          dict(n=n, cls=cls, lb=lb, events=events[:i]), model_out[i], line,
                          'Coq model and implementation disagree after this event list', kind='correspondence',
                          corr='coq/rt/Sched.v vs bqskit/runtime/base.py, detached.py')
            bad = mismatch_reported = True
    return bad, w


def first_finding(n, cls, lb, events, sig):
    trace, _ = run_impl(n, cls, lb, events)
    for line, findings in trace:
        for s, exp, obs, what in findings:
            if s == sig:
                return True
    return False


def shrink(n, cls, lb, events, sig, limit=200):
    """Greedy removal of events while the same finding still shows (every kept event must stay enabled)."""
    cur = list(events)
    tries = 0
    i = len(cur) - 1
    while i >= 0 and tries < limit:
        cand = cur[:i] + cur[i + 1:]
        tries += 1
        try:
            tr, _ = run_impl(n, cls, lb, cand)
            ok = all(l != 'DISABLED' for l, _ in tr) and any(s == sig for _, fs in tr for s, _, _, _ in fs)
        except Exception:
            ok = False
        if ok:
            cur = cand
        i -= 1
    return cur


# --------------------------------------------------------------------------
# exhaustive interleavings (2 workers, small task lists)
# --------------------------------------------------------------------------
class Scenario:
    """roots: list of programs; a program is a list of ops ('map', k, childprog) / ('sub', childprog)."""

    def __init__(self, name, n, roots, together=True):
        self.name, self.n, self.roots, self.together = name, n, roots, together


def exhaustive(ctx, sc: Scenario, cap):
    """DFS over every enabled realistic event from the initial state, deduplicated by state.
    Returns the command list for the model and the expected answers."""
    from bqskit.runtime.message import RuntimeMessage as M
    n = sc.n
    lines, expect = [f'init 0 {n}'], []
    w0 = World(n, 'DetachedServer', 0)
    expect.append(('OK ' + w0.state() + ' []', [], []))
    meta0 = dict(prog={}, kids={}, parent={}, mbox={}, roots_left=list(range(len(sc.roots))))
    seen_states = set()
    stats = dict(states=0, edges=0, leaves=0, capped=False, crossings=0)

    def ids_for(meta, owner, k):
        m = meta['mbox'].get(owner, 0)
        meta['mbox'][owner] = m + 1
        return [(owner + 1) * 10000 + m * 10 + s for s in range(k)]

    def moves(w, meta):
        """list of (event, meta-update function)"""
        out = []
        s = w.s
        idle = [i for i, e in enumerate(s.employees) for _ in range(max(e.num_idle_workers, 0))]
        shuffles = sorted(set(itertools.permutations(idle)))
        if meta['roots_left']:
            grp = meta['roots_left'] if sc.together else meta['roots_left'][:1]
            for sh in shuffles:
                for rs in ([0] * n, list(range(n))[::-1]):
                    out.append(('csub', grp, list(sh), rs))
        for i in range(n):
            if w.up[i]:
                m, p = w.up[i][0]
                if m in (M.SUBMIT, M.SUBMIT_BATCH):
                    for sh in shuffles:
                        for rs in ([0] * n, list(range(n))[::-1]):
                            out.append(('srecv', i, list(sh), rs))
                else:
                    out.append(('srecv', i, [], [0] * n))
            if w.down[i]:
                out.append(('wrecv', i))
            k = w.wk[i]
            if k.blocked:
                continue
            runnable = False
            for t in k.held:
                tid = encode(t.unique_id)
                if meta['prog'].get(tid):
                    out.append(('spawn', i, tid))
                    runnable = True
                elif meta['kids'].get(tid, 0) == 0:
                    out.append(('wfin', i, tid))
                    runnable = True
            if not runnable:
                out.append(('widle', i))
        return out

    def realise(w, meta, mv):
        """Turn a move into a protocol event; updates meta (already a private copy)."""
        k = mv[0]
        if k == 'csub':
            _, grp, sh, rs = mv
            specs = []
            for r in grp:
                t = ids_for(meta, -1, 1)[0]
                meta['prog'][t] = list(sc.roots[r])
                meta['kids'][t] = 0
                specs.append([t, -1, []])
            meta['roots_left'] = [r for r in meta['roots_left'] if r not in grp]
            return ['csub', specs, sh, rs]
        if k == 'srecv':
            return ['srecv', mv[1], mv[2], mv[3]]
        if k == 'wrecv':
            i = mv[1]
            m, p = w.down[i][0]
            wake = 0
            if m == M.RESULT:
                ch = getattr(p, '_child', None)
                par = meta['parent'].get(ch)
                if par is not None and meta['kids'].get(par, 0) > 0:
                    meta['kids'][par] -= 1
                    wake = int(meta['kids'][par] == 0)
            return ['wrecv', i, wake]
        if k == 'spawn':
            _, i, tid = mv
            op = meta['prog'][tid][0]
            meta['prog'][tid] = meta['prog'][tid][1:]
            wid = w.wk[i].wid
            held = [t for t in w.wk[i].held if encode(t.unique_id) == tid][0]
            anc = [encode(a) for a in held.breadcrumbs] + [tid]
            nk = 1 if op[0] == 'sub' else op[1]
            child = op[-1]
            ids = ids_for(meta, wid, nk)
            for t in ids:
                meta['prog'][t] = list(child)
                meta['kids'][t] = 0
                meta['parent'][t] = tid
            meta['kids'][tid] += nk
            specs = [[t, wid, anc] for t in ids]
            return ['wsub', i, specs[0]] if op[0] == 'sub' else ['wmap', i, specs]
        if k == 'wfin':
            _, i, tid = mv
            par = meta['parent'].get(tid)
            if par is not None and tid // 10000 - 1 == w.wk[i].wid and meta['kids'].get(par, 0) > 0:
                meta['kids'][par] -= 1
            return ['wfin', i, tid]
        return list(mv)

    def key(w, meta):
        return w.state() + '|' + json.dumps([sorted(meta['prog'].items()), sorted(meta['kids'].items()), meta['roots_left']])

    def dfs(w, meta, path):
        if stats['states'] >= cap:
            stats['capped'] = True
            return
        k = key(w, meta)
        if k in seen_states:
            return
        seen_states.add(k)
        stats['states'] += 1
        mvs = moves(w, meta)
        if not mvs:
            stats['leaves'] += 1
            return
        lines.append('save')
        expect.append(('SAVED', [], path))
        first = True
        for mv in mvs:
            if not first:
                lines.append('restore')
                expect.append(('RESTORED', [], path))
            first = False
            w2 = w.clone()
            m2 = dict(prog=dict(meta['prog']), kids=dict(meta['kids']), parent=dict(meta['parent']), mbox=dict(meta['mbox']),
                      roots_left=list(meta['roots_left']))
            ev = realise(w2, m2, mv)
            if ev[0] == 'srecv' and w2.up[ev[1]] and w2.up[ev[1]][0][0] == M.WAITING and \
                    any(mm == M.SUBMIT_BATCH for mm, _ in w2.down[ev[1]]):
                stats['crossings'] += 1
            r = w2.apply(ev)
            stats['edges'] += 1
            lines.append(ev_line(ev))
            p2 = path + [ev]
            if r[0] == 'OK':
                expect.append(('OK ' + w2.state() + ' ' + fmt(r[1]), w2.oracle(), p2))
                dfs(w2, m2, p2)
            elif r[0] == 'DISABLED':
                expect.append(('DISABLED', [(dict(call='exhaustive', symptom='move_not_enabled'), 'enabled', ev, 'harness move not enabled')], p2))
            else:
                expect.append(('FAULT ' + r[1], [(dict(call='handler', symptom=r[1]), 'no exception', r[1],
                                                  'a server handler raised (runtime would shut down)')], p2))
        lines.append('drop')
        expect.append(('DROPPED', [], path))

    import sys
    sys.setrecursionlimit(10000)
    dfs(w0, meta0, [])
    return lines, expect, stats


# --------------------------------------------------------------------------
# direct correspondence of the generated arithmetic
# --------------------------------------------------------------------------
def arith_cases(ctx, nq):
    """Returns (model lines, implementation answers, keys)."""
    from bqskit.ir.circuit import Circuit  # noqa: F401
    from bqskit.runtime.base import RuntimeEmployee, ServerBase
    from bqskit.runtime.manager import Manager
    from bqskit.runtime.message import RuntimeMessage as M
    import bqskit.runtime.base as base
    rng = ctx.rng
    lines, impl, keys, refs = [], [], [], []
    from fractions import Fraction
    import math

    def add(line, val, key, ref=None):
        """ref: the textbook value (string) or a predicate on the implementation's answer"""
        lines.append(line)
        impl.append(val)
        keys.append(key)
        refs.append(ref)

    def fdiv(a, b):
        return math.floor(Fraction(a, b))

    def ref_gnts(cache, r):
        if r is None:
            return [cache, sum(c for _, c in cache)]
        for i, (a, _) in enumerate(cache):
            if a == r:
                return [cache[i:], sum(c for _, c in cache[i + 1:])]
        return 'RuntimeError'

    def exn(f):
        try:
            return f()
        except Exception as ex:  # noqa: any exception is an observable answer
            return type(ex).__name__

    for _ in range(nq):
        # get_num_of_tasks_sent_since / handle_waiting
        k = rng.randint(0, 5)
        ids = rng.sample(range(1, 12), k) if rng.random() < 0.8 else [rng.randint(1, 4) for _ in range(k)]
        cache = [[a, rng.randint(1, 4)] for a in ids]
        r = rng.choice([None] + ids + [99]) if ids else rng.choice([None, 99])

        def gnts():
            e = RuntimeEmployee(0, Conn(0), 1)
            e.submit_cache = [(a, c) for a, c in cache]
            v = e.get_num_of_tasks_sent_since(r)
            return fmt([[list(x) for x in e.submit_cache], v])
        rg = ref_gnts(cache, r)
        add(f'gnts {fmt(cache)} {fmt(r)}', exn(gnts), ('gnts', tuple(map(tuple, cache)), r), fmt(rg))
        ei, tot = rng.randint(0, 3), rng.randint(1, 4)
        si, nn = rng.randint(0, tot), rng.randint(0, 3)

        def hw():
            s = ServerBase.__new__(ServerBase)
            c = Conn(0)
            e = RuntimeEmployee(0, c, 3)
            e.submit_cache = [(a, cc) for a, cc in cache]
            e.num_idle_workers = ei
            s.conn_to_employee_dict = {c: e}
            s.num_idle_workers, s.total_workers = si, tot
            s.handle_waiting(c, nn, r)
            return fmt([[list(x) for x in e.submit_cache], e.num_idle_workers, s.num_idle_workers])
        if rg == 'RuntimeError':
            rh = rg
        else:
            adj = max(nn - rg[1], 0)
            rh = fmt([rg[0], adj, si + adj - ei]) if 0 <= si + adj - ei <= tot else 'AssertionError'
        add(f'hw {fmt(cache)} {ei} {si} {tot} {nn} {fmt(r)}', exn(hw), ('hw', tuple(map(tuple, cache)), ei, si, tot, nn, r), rh)
        # routing
        lb = rng.choice([0, 5, 1000])
        st = rng.choice([1, 1, 2, 7, 0]) if rng.random() < 0.9 else rng.choice([-1, -3])
        ln = rng.randint(0, 4)
        wid = rng.randint(lb - 3 * max(st, 1), lb + (ln + 2) * max(st, 1))

        def node():
            s = ServerBase.__new__(ServerBase)
            s.lower_id_bound, s.upper_id_bound, s.step_size, s.employees = lb, lb + 2 ** 20, st, list(range(ln))
            return s
        if st == 0:
            rm = rr_ = 'ZeroDivisionError'
        else:
            q = fdiv(wid - lb, st)
            rm = fmt(0 <= q < ln)
            rr_ = fmt(q % ln) if -ln <= q < ln else 'IndexError'
        add(f'mine {lb} {st} {ln} {wid}', exn(lambda: fmt(bool(node().is_my_worker(wid)))), ('mine', lb, st, ln, wid), rm)
        add(f'resp {lb} {st} {ln} {wid}', exn(lambda: fmt(node().get_employee_responsible_for(wid))), ('resp', lb, st, ln, wid), rr_)
        ub = lb + rng.choice([0, 3, 10, 1000, 2 ** 30])
        d = rng.randint(0, 5)
        i = rng.randint(0, max(d - 1, 0))

        def rng_():
            step = (ub - lb) // d
            return fmt([step, lb + i * step, min(lb + (i + 1) * step, ub)])
        # the lb/ub expressions are re-evaluated from the source text by the translator; here the closed form
        add(f'range {lb} {ub} {d} {i}', exn(rng_), ('range', lb, ub, d, i))
        # Manager.send_up_or_schedule_tasks / update_upstream_idle_workers
        ni = rng.randint(0, 4)
        tl = list(range(1, rng.randint(0, 6) + 1))

        def suos():
            m = Manager.__new__(Manager)
            up = Conn(-7)
            m.upstream, m.outgoing, m.num_idle_workers = up, FakeQueue(), ni
            acts = []
            m.outgoing.put = lambda x: acts.append(['put', -7, x[1].name, list(x[2]) if isinstance(x[2], list) else x[2]])
            m.schedule_tasks = lambda ts: acts.append(['schedule', list(ts)])
            m.update_upstream_idle_workers = lambda: acts.append(['update_upstream'])
            m.send_up_or_schedule_tasks(tl)
            return fmt(acts)
        def suos_ref(upd, ni=ni, tl=tl):
            return fmt(([['put', -7, 'UPDATE', upd], ['schedule', tl[:ni]], ['update_upstream']] if ni != 0 else []) +
                       ([['put', -7, 'SUBMIT_BATCH', tl[ni:]]] if len(tl) > ni else []))
        # UPDATE should announce the number of tasks kept; the code as it is announces the idle count (observation D14)
        add(f'suos {ni} {fmt(tl)}', exn(suos), ('suos', ni, len(tl)),
            (lambda ans, a=suos_ref(min(ni, len(tl))), b=suos_ref(ni): 'D14' if (ans == b and a != b) else ans == a))
        last = rng.randint(0, 4)
        rr = rng.choice([None, 3])

        def uup():
            m = Manager.__new__(Manager)
            m.upstream, m.outgoing = Conn(-7), FakeQueue()
            m.num_idle_workers, m.last_num_idle_sent_up, m.most_recent_read_submit = ni, last, rr
            m.update_upstream_idle_workers()
            return fmt([m.last_num_idle_sent_up, [['put', -7, x[1].name, list(x[2])] for x in m.outgoing.items]])
        add(f'uup {ni} {last} {fmt(rr)}', exn(uup), ('uup', ni, last, rr), fmt([ni, [['put', -7, 'WAITING', [ni, rr]]]] if ni != last else [last, []]))
        # assign_tasks on integers (tasks only need identity here)
        ne = rng.randint(0, 4)
        es = [[rng.choice([1, 1, 2, 3]), rng.randint(0, 3), 0] for _ in range(ne)]
        for e in es:
            e[2] = rng.randint(0, e[0]) if rng.random() < 0.9 else rng.choice([-1, e[0] + 1])
        nt = rng.randint(0, 7)
        idle = [j for j, e in enumerate(es) for _ in range(max(e[2], 0))]
        sh = list(idle)
        rng.shuffle(sh)
        rs = [rng.randrange(0, 3) for _ in es]

        def assign():
            s = ServerBase.__new__(ServerBase)
            s.employees = []
            for tt, ntk, nid in es:
                e = RuntimeEmployee(0, Conn(0), tt)
                e.num_tasks, e.num_idle_workers = ntk, nid
                s.employees.append(e)
            sr = ScriptedRandom()
            sr.arm(sh, rs)
            old = base.random
            base.random = sr
            try:
                a = s.assign_tasks(list(range(1, nt + 1)))
            finally:
                base.random = old
            return fmt(a)
        def assign_ok(ans, ne=ne, nt=nt, sh=tuple(sh)):
            if ne == 0 and nt > 0:
                return ans == 'IndexError'
            try:
                a = eval(ans.replace(' ', ','))
            except Exception:
                return False
            flat = sorted(x for l in a for x in l)
            return len(a) == ne and flat == list(range(1, nt + 1)) and all(i + 1 in a[sh[i]] for i in range(min(len(sh), nt)))
        add(f'assign {fmt(es)} {fmt(list(range(1, nt + 1)))} {fmt(sh)} {fmt(rs)}', exn(assign), ('assign', tuple(map(tuple, es)), nt, tuple(sh), tuple(rs)), assign_ok)
        add(f'idle {fmt(es)}', fmt(idle), ('idle', tuple(map(tuple, es))))
    return lines, impl, keys, refs


# --------------------------------------------------------------------------
# manager topology: oracle-only probe on real Manager + DetachedServer objects
# (no Coq model of the tree; node-level theorems only - see coq/rt/SchedNode.v)
# --------------------------------------------------------------------------
D14_SIG = dict(call='send_up_or_schedule_tasks', symptom='update_counts_idle_workers_not_tasks_kept')


class TreeWorld:
    """server -> nm managers -> nw workers each; FIFO channel per direction per link."""

    def __init__(self, nm, nw):
        from bqskit.ir.circuit import Circuit  # noqa: F401
        from bqskit.runtime.base import RuntimeEmployee
        from bqskit.runtime.detached import DetachedServer
        from bqskit.runtime.manager import Manager
        self.nm, self.nw = nm, nw
        S = DetachedServer.__new__(DetachedServer)
        S.lower_id_bound, S.upper_id_bound, S.running = 0, 2 ** 30, True
        S.employees, S.conn_to_employee_dict, S.outgoing = [], {}, FakeQueue()
        S.clients, S.tasks, S.mailbox_to_task_dict, S.mailboxes, S.mailbox_counter = {}, {}, {}, {}, 0
        S.step_size = (S.upper_id_bound - S.lower_id_bound) // nm          # connect_to_managers
        self.S, self.M = S, []
        for i in range(nm):
            lb = S.lower_id_bound + i * S.step_size
            ub = min(S.lower_id_bound + (i + 1) * S.step_size, S.upper_id_bound)
            c = Conn(('S', i))
            e = RuntimeEmployee(i, c, nw, is_manager=True)
            S.employees.append(e)
            S.conn_to_employee_dict[c] = e
            m = Manager.__new__(Manager)
            m.lower_id_bound, m.upper_id_bound, m.running = lb, ub, True
            m.employees, m.conn_to_employee_dict, m.outgoing = [], {}, FakeQueue()
            m.upstream = Conn(('up', i))
            for j in range(nw):
                cw = Conn((i, j))
                ew = RuntimeEmployee(lb + j, cw, 1)
                m.employees.append(ew)
                m.conn_to_employee_dict[cw] = ew
            m.step_size, m.total_workers, m.num_idle_workers = 1, nw, nw
            m.last_num_idle_sent_up, m.most_recent_read_submit = nw, None
            self.M.append(m)
        S.total_workers = S.num_idle_workers = nm * nw
        self.sm = [[] for _ in range(nm)]
        self.ms = [[] for _ in range(nm)]
        self.mw = [[[] for _ in range(nw)] for _ in range(nm)]
        self.wm = [[[] for _ in range(nw)] for _ in range(nm)]
        self.wk = [[SimWorker(self.M[i].lower_id_bound + j) for j in range(nw)] for i in range(nm)]
        self.received = {}          # tid -> number of times a worker received it
        self.submitted = []

    def flush(self):
        for c, msg, p in self.S.outgoing.drain():
            self.sm[c.idx[1]].append((msg, p))
        for i, m in enumerate(self.M):
            for c, msg, p in m.outgoing.drain():
                if c is m.upstream:
                    self.ms[i].append((msg, p))
                else:
                    self.mw[i][c.idx[1]].append((msg, p))

    def nodes(self):
        return [('server', self.S)] + [(f'manager{i}', m) for i, m in enumerate(self.M)]

    def bounds(self):
        out = []
        for name, nd in self.nodes():
            tot = 0
            for k, e in enumerate(nd.employees):
                tot += e.num_idle_workers
                if not (0 <= e.num_idle_workers <= e.total_workers):
                    out.append((dict(call='tree_idle_bounds'), f'0..{e.total_workers}', e.num_idle_workers, f'{name} employee {k}: idle count out of bounds'))
                if e.num_tasks < 0:
                    out.append((dict(call='tree_num_tasks', symptom='negative'), '>= 0', e.num_tasks, f'{name} employee {k}: task count negative'))
            if nd.num_idle_workers != tot or not (0 <= nd.num_idle_workers <= nd.total_workers):
                out.append((dict(call='tree_idle_sum'), tot, nd.num_idle_workers, f'{name}: idle count is not the sum / out of bounds'))
        return out

    def quiet(self):
        return not any(self.sm) and not any(self.ms) and not any(q for r in self.mw for q in r) and not any(q for r in self.wm for q in r) \
            and all(k.blocked and not k.held for r in self.wk for k in r)


def tree_run(rng, nm, nw, nroots, max_steps=600):
    """Random cancel-free schedule on the tree; returns (log, findings)."""
    from bqskit.runtime.message import RuntimeMessage as M
    from bqskit.runtime.direction import MessageDirection as Dn
    from bqskit.runtime.task import RuntimeTask
    import bqskit.runtime.base as base
    W = TreeWorld(nm, nw)
    log, findings = [], []
    prog, kids, parent, mbox = {}, {}, {}, {}
    old_random = base.random
    base.random = pyrandom.Random(rng.getrandbits(32))     # shuffle / tie-breaks of every node follow the seed
    try:
        return _tree_run(rng, W, nroots, max_steps, log, findings, prog, kids, parent, mbox)
    finally:
        base.random = old_random


def _tree_run(rng, W, nroots, max_steps, log, findings, prog, kids, parent, mbox):
    from bqskit.runtime.message import RuntimeMessage as M
    from bqskit.runtime.direction import MessageDirection as Dn
    from bqskit.runtime.task import RuntimeTask
    nm, nw = W.nm, W.nw

    def new_task(owner, slot, anc, depth):
        mb = mbox.get(owner, 0)
        if slot == 0:
            mbox[owner] = mb + 1
        from bqskit.runtime.address import RuntimeAddress
        addr = RuntimeAddress(owner, mb, slot)
        t = RuntimeTask((_body, (), {}), addr, 0, tuple(anc))
        prog[addr] = [rng.choice([1, 2, 3]) for _ in range(rng.choice([0, 1, 1, 2]))] if depth < 2 else []
        kids[addr] = 0
        W.submitted.append(addr)
        return t

    def guarded(what, fn):
        try:
            fn()
            return True
        except Exception as ex:   # noqa
            findings.append((dict(call='tree_handler', symptom=type(ex).__name__), 'no exception', f'{type(ex).__name__}: {ex}', f'{what} raised'))
            return False

    roots = nroots
    for step in range(max_steps):
        W.flush()
        findings += W.bounds()
        if findings:
            break
        moves = []
        if roots > 0:
            moves.append(('root',))
        for i in range(nm):
            if W.sm[i]:
                moves += [('M<-S', i)] * 2
            if W.ms[i]:
                moves += [('S<-M', i)] * 2
            for j in range(nw):
                if W.mw[i][j]:
                    moves += [('w<-M', i, j)] * 2
                if W.wm[i][j]:
                    moves += [('M<-w', i, j)] * 2
                k = W.wk[i][j]
                if k.blocked:
                    continue
                run = False
                for t in k.held:
                    a = t.unique_id
                    if prog[a]:
                        moves.append(('spawn', i, j, a))
                        run = True
                    elif kids[a] == 0:
                        moves.append(('fin', i, j, a))
                        run = True
                if not run:
                    moves.append(('idle', i, j))
        if not moves:
            break
        mv = rng.choice(moves)
        log.append([str(x) for x in mv])
        k0 = mv[0]
        if k0 == 'root':
            roots -= 1
            t = new_task(-1, 0, (), 0)
            if not guarded('server.schedule_tasks', lambda: W.S.schedule_tasks([t])):
                break
        elif k0 == 'M<-S':
            msg, p = W.sm[mv[1]].pop(0)
            m = W.M[mv[1]]
            if not guarded(f'manager.handle_message({msg.name} from above)', lambda: m.handle_message(msg, Dn.ABOVE, m.upstream, p)):
                break
        elif k0 == 'S<-M':
            msg, p = W.ms[mv[1]].pop(0)
            if not guarded(f'server.handle_message({msg.name})', lambda: W.S.handle_message(msg, Dn.BELOW, W.S.employees[mv[1]].conn, p)):
                break
        elif k0 == 'M<-w':
            _, i, j = mv
            msg, p = W.wm[i][j].pop(0)
            m = W.M[i]
            if not guarded(f'manager.handle_message({msg.name} from below)', lambda: m.handle_message(msg, Dn.BELOW, m.employees[j].conn, p)):
                break
        elif k0 == 'w<-M':
            _, i, j = mv
            msg, p = W.mw[i][j].pop(0)
            k = W.wk[i][j]
            if msg == M.SUBMIT_BATCH:
                k.mrrs = p[0].unique_id
                k.held += list(p)
                k.blocked = False
                for t in p:
                    W.received[t.unique_id] = W.received.get(t.unique_id, 0) + 1
            elif msg == M.SUBMIT:
                k.mrrs = p.unique_id
                k.held.append(p)
                k.blocked = False
                W.received[p.unique_id] = W.received.get(p.unique_id, 0) + 1
            elif msg == M.RESULT:
                par = parent.get(getattr(p, '_child', None))
                if par is not None and kids[par] > 0:
                    kids[par] -= 1
                    if kids[par] == 0:
                        k.blocked = False
        elif k0 == 'spawn':
            _, i, j, a = mv
            nk = prog[a].pop(0)
            k = W.wk[i][j]
            held = [t for t in k.held if t.unique_id == a][0]
            anc = tuple(held.breadcrumbs) + (a,)
            ts = [new_task(k.wid, s_, anc, len(anc)) for s_ in range(nk)]
            mbox[k.wid] = mbox.get(k.wid, 0) + 1
            for t in ts:
                parent[t.unique_id] = a
            kids[a] += nk
            W.wm[i][j].append((M.SUBMIT, ts[0]) if nk == 1 and rng.random() < 0.5 else (M.SUBMIT_BATCH, ts))
        elif k0 == 'fin':
            _, i, j, a = mv
            k = W.wk[i][j]
            t = [x for x in k.held if x.unique_id == a][0]
            k.held.remove(t)
            if t.return_address.worker_id == k.wid:
                par = parent.get(a)
                if par is not None and kids[par] > 0:
                    kids[par] -= 1
                W.wm[i][j].append((M.UPDATE, -1))
            else:
                W.wm[i][j].append((M.RESULT, tagged_result(t.return_address, 'r', k.wid, a)))
        elif k0 == 'idle':
            _, i, j = mv
            k = W.wk[i][j]
            W.wm[i][j].append((M.WAITING, (1, k.mrrs)))
            k.blocked = True
    W.flush()
    if not findings and W.quiet():
        for a in W.submitted:
            if W.received.get(a, 0) != 1:
                findings.append((dict(call='tree_assign_once'), 1, W.received.get(a, 0), f'task {tuple(a)} reached {W.received.get(a, 0)} workers'))
        for name, nd in W.nodes():
            for k, e in enumerate(nd.employees):
                if e.num_idle_workers != e.total_workers:
                    findings.append((dict(call='tree_quiescent', symptom='idle'), e.total_workers, e.num_idle_workers, f'{name} employee {k}: not believed idle at quiescence'))
                if e.num_tasks != 0:
                    findings.append((dict(D14_SIG), 0, e.num_tasks, f'{name} employee {k}: num_tasks not zero at quiescence (cancel-free, manager topology)'))
    return log, findings, W.quiet()


# --------------------------------------------------------------------------
# entry points
# --------------------------------------------------------------------------
SCENARIOS = [
    Scenario('one root, map of 1', 2, [[('map', 1, [])]]),
    Scenario('one root, map of 2', 2, [[('map', 2, [])]]),
    Scenario('one root, map of 3', 2, [[('map', 3, [])]]),
    Scenario('two roots at once', 2, [[], []]),
    Scenario('three roots at once (above idle count)', 2, [[], [], []]),
    Scenario('two roots one after the other', 2, [[], [('sub', [])]], together=False),
    Scenario('nested: submit then map of 2', 2, [[('sub', [('map', 2, [])])]]),
]
SCENARIOS_THOROUGH = [
    Scenario('root maps 2 twice', 2, [[('map', 2, []), ('map', 2, [])]]),
    Scenario('two roots each mapping 2', 2, [[('map', 2, [])], [('map', 2, [])]]),
    Scenario('three workers, map of 3', 3, [[('map', 3, [])]]),
    Scenario('three workers, two roots, one maps 2', 3, [[('map', 2, [])], []]),
    Scenario('nested: map of 2, each child submits', 2, [[('map', 2, [('sub', [])])]]),
]


def run(ctx: vf.Ctx):
    ctx.uses_translators = BUILD['translators']
    ctx.build(**BUILD)
    ctx.rule = ('(a) random FIFO-respecting schedules on a real Detached/AttachedServer with 1-4 simulated workers: client '
                'batches of size below/equal/above the idle count, nested submit/map to depth 2, realistic and adversarial '
                'worker timing (WAITING crossing SUBMIT_BATCH), with and without cancellation, ~12% not-enabled events; '
                '(b) exhaustive interleavings (state-deduplicated DFS incl. every shuffle) of small scenarios on 2 workers; '
                '(c) random inputs to the translated arithmetic vs the real methods and a textbook oracle; (d) oracle-only random schedules on '
                'real Manager + DetachedServer objects (1-3 managers x 1-3 workers); (e) manager topology co-simulation: random '
                'FIFO-respecting schedules (with/without cancellation, realistic/adversarial worker timing, ~10% not-enabled events) on a real '
                'DetachedServer + 1-3 real Managers with 1-3 simulated workers each, every node and channel compared with the extracted '
                'tree model after every event. After every event: all counters, caches '
                'and channels compared with the extracted model, and the property oracle evaluated on the real fields. '
                'non-trivial = at least one SUBMIT_BATCH was scheduled; distinct by event list')
    ctx.assumptions += [
        'workers are simulated (abstract worker of coq/rt/Sched.v); the statements of worker.py that the abstraction '
        'relies on are shape-checked by the translator',
        'task unique ids are fresh (mailbox counters); channels are FIFO per direction per link',
        'manager topology: arithmetic translated and proved (send_up_or_schedule_tasks, update_upstream_idle_workers, routing), '
        'link / node level theorems (read receipt found, bounds, across one level of any tree) proved; the system-level induction over '
        'the tree is not proved, the tree model is co-simulated against real Manager + DetachedServer objects',
    ]
    ctx.trusted = ['Coq 8.16.1 kernel', 'ExtrOcamlBasic extraction, OCaml 4.13.1, coq/extract/sched_driver.ml',
                   'harness/gen/gen_sched.py (Python ast -> Gallina printer) and coq/rt/SchedPre.v (Python slice/index semantics; validated by direct correspondence)',
                   'harness/props/c15.py simulated workers + ground-truth oracle']
    have_model = bool(ctx.extract_ok.get('sched')) and vf.vo_ok('rt/Sched.v') and not ctx.translator_errors
    if not have_model:
        ctx.broken_obligation('extracted scheduler model unavailable: correspondence not checked (oracle-only run)', ctx.build_log[-1500:])
    broken = bool(ctx.broken)
    scale = 3 if broken else 1      # search harder when an obligation is broken

    # ---- corpus first ------------------------------------------------------
    cdir = vf.ROOT / 'corpus' / 'C15'
    cases = []
    tcases = []                     # manager-topology cases (nws, events, kind)
    for f in sorted(cdir.glob('*.json')) if cdir.exists() else []:
        d = json.loads(f.read_text())
        if 'nws' in d:
            tcases.append((d['nws'], d['events'], 'corpus:' + f.name))
            ctx.count('corpus_tree')
            continue
        cases.append((d['n'], d.get('cls', 'DetachedServer'), d.get('lb', 0), d['events'], 'corpus:' + f.name))
        ctx.count('corpus')

    # ---- random schedules --------------------------------------------------
    nrand = ctx.n(260, 12000) * scale
    for i in range(nrand):
        rng = pyrandom.Random(ctx.rng.getrandbits(48))
        n = rng.choice([1, 2, 2, 3, 3, 4])
        cls = rng.choice(['DetachedServer', 'AttachedServer'])
        lb = rng.choice([0, 0, 0, 7])
        cancels = rng.random() < 0.3
        adv = rng.random() < 0.35
        g = Gen(rng, n, cls, lb, cancels, adv, budget=rng.choice([1, 2, 4, 6, 9]))
        evs = g.run(rng.choice([20, 40, 80, 140]))
        cases.append((n, cls, lb, evs, 'random'))
        ctx.count(f'random_n={n}')
        ctx.count('random_cancel' if cancels else 'random_cancel_free')
        ctx.count('random_adversarial' if adv else 'random_realistic')

    lines, spans = [], []
    for n, cls, lb, evs, kind in cases:
        ml = model_lines(n, lb, evs)
        spans.append((len(lines), len(ml)))
        lines += ml
    out = vf.run_model('sched', lines) if have_model and lines else None
    nquies = 0
    for (n, cls, lb, evs, kind), (a, k) in zip(cases, spans):
        mo = out[a:a + k] if out is not None else None
        bad, w = check_case(ctx, n, cls, lb, evs, mo, kind)
        ctx.case((n, cls, lb, evs), nontrivial=bool(w.sent))
        for e in evs:
            ctx.count('ev_' + e[0])
        if mo is not None:
            ctx.count('events_not_enabled', sum(1 for x in mo if x == 'DISABLED'))
            ctx.count('events_enabled', sum(1 for x in mo if x.startswith('OK')) - 1)
        if w.quiescent():
            nquies += 1
        if len(ctx.samples) < 3 and w.sent and len(evs) < 30:
            ctx.sample(dict(n=n, cls=cls, lb=lb, events=evs, final=w.state()))
    ctx.cov['random_runs_ending_quiescent'] = nquies

    # ---- exhaustive interleavings ---------------------------------------------
    scs = SCENARIOS + (SCENARIOS_THOROUGH if not ctx.quick() else [])
    cap = ctx.n(6000, 400000)
    ex_stats = {}
    for sc in scs:
        elines, expect, stats = exhaustive(ctx, sc, cap)
        ex_stats[sc.name] = stats
        eout = vf.run_model('sched', elines) if have_model else None
        for i, (line, findings, path) in enumerate(expect):
            for sig, exp, obs, what in findings:
                report(ctx, sig, sc.n, 'DetachedServer', 0, path, exp, obs, what + f' [exhaustive: {sc.name}]')
            if eout is not None and eout[i] != line:
                ctx.violation(dict(call='model-mismatch', event=(path[-1][0] if path else 'init')),
                              dict(n=sc.n, cls='DetachedServer', lb=0, events=path), eout[i], line,
                              f'Coq model and implementation disagree [exhaustive: {sc.name}]', kind='correspondence',
                              corr='coq/rt/Sched.v vs bqskit/runtime/base.py, detached.py')
                break
            if line.startswith('OK') and path:
                ctx.case(('ex', sc.name, path), nontrivial=True)
        ctx.count('exhaustive_states', stats['states'])
        ctx.count('exhaustive_waiting_crossing_batch', stats['crossings'])
    ctx.cov['exhaustive_scenarios'] = ex_stats       # each scenario's reachable state graph was enumerated completely unless capped
    ctx.cov['states'] = sum(v['states'] for v in ex_stats.values())
    ctx.cov['transitions'] = sum(v['edges'] for v in ex_stats.values())
    ctx.cov['traces_validated_against_impl'] = len(cases) if have_model else 0

    # ---- generated arithmetic vs the real methods ---------------------------------
    alines, aimpl, akeys, arefs = arith_cases(ctx, ctx.n(400, 20000) * scale)
    aout = vf.run_model('sched', alines) if have_model else None
    for i, (ln, iv, key) in enumerate(zip(alines, aimpl, akeys)):
        ctx.case(key, nontrivial=True)
        ctx.count('arith_' + key[0])
        ref = arefs[i]
        verdict = (ref(iv) if callable(ref) else ref == iv) if ref is not None else True
        if verdict == 'D14':
            ctx.count('obs_D14_manager_update_announces_idle_count')
            verdict = True
        if not verdict:
            ctx.violation(dict(call='arith-oracle', fn=key[0]), dict(query=ln), 'textbook value' if callable(ref) else ref, iv,
                          f'{key[0]}: the implementation differs from the textbook definition')
        elif aout is not None and aout[i] != iv:
            ctx.violation(dict(call='arith-mismatch', fn=key[0]), dict(query=ln), aout[i], iv,
                          f'translated {key[0]} and the real method disagree', kind='correspondence',
                          corr='coq/gen/SchedArith.v (+ rt/SchedPre.v) vs bqskit/runtime')
    # ---- manager topology probe (oracle only) ----------------------------------------
    tstats = dict(runs=0, quiescent=0, obs_idle_stale_at_quiescence=0, obs_num_tasks_drift_at_quiescence=0, examples=[])
    for i in range(ctx.n(120, 8000) * scale):
        rng = pyrandom.Random(ctx.rng.getrandbits(48))
        nm, nw, nr = rng.choice([1, 2, 3]), rng.choice([1, 2, 3]), rng.choice([1, 2, 3])
        seed = rng.getrandbits(32)
        log, fnd, quiet = tree_run(pyrandom.Random(seed), nm, nw, nr)
        tstats['runs'] += 1
        tstats['quiescent'] += int(quiet)
        ctx.case(('tree', nm, nw, nr, seed), nontrivial=len(log) > 5)
        ctx.count(f'tree_managers={nm}_workers={nw}')
        seen_obs = set()
        for sig, exp, obs, what in fnd:
            if sig == D14_SIG or sig == dict(call='tree_quiescent', symptom='idle'):
                key = 'obs_num_tasks_drift_at_quiescence' if sig == D14_SIG else 'obs_idle_stale_at_quiescence'
                if key not in seen_obs:
                    seen_obs.add(key)
                    tstats[key] += 1
                    if len([e for e in tstats['examples'] if e['kind'] == key]) < 1:
                        tstats['examples'].append(dict(kind=key, managers=nm, workers=nw, roots=nr, seed=seed, what=what))
                continue
            ctx.violation(sig, dict(tree=dict(managers=nm, workers=nw, roots=nr, seed=seed), events=log), exp, obs,
                          what + ' [manager topology probe]')
    ctx.cov['manager_topology_probe'] = tstats

    # ---- manager topology co-simulation: real Manager + DetachedServer objects vs coq/rt/SchedTree.v -----------
    have_tree = have_model and vf.vo_ok('rt/SchedTree.v')
    if have_model and not have_tree:
        ctx.broken_obligation('coq/rt/SchedTree.v does not build: manager-topology correspondence not checked (oracle-only run)', ctx.build_log[-1500:])
    for i in range(ctx.n(120, 6000) * scale):
        rng = pyrandom.Random(ctx.rng.getrandbits(48))
        nws = [rng.choice([1, 2, 2, 3]) for _ in range(rng.choice([1, 2, 2, 3]))]
        cancels = rng.random() < 0.3
        adv = rng.random() < 0.35
        g = c15_tree.TreeGen(rng, nws, cancels, adv, budget=rng.choice([1, 2, 4, 6, 9]))
        tcases.append((nws, g.run(rng.choice([30, 60, 120, 200])), 'random'))
        ctx.count(f'treeco_managers={len(nws)}')
        ctx.count('treeco_cancel' if cancels else 'treeco_cancel_free')
        ctx.count('treeco_adversarial' if adv else 'treeco_realistic')
    tlines, tspans = [], []
    for nws, evs, kind in tcases:
        ml = c15_tree.model_lines(nws, evs)
        tspans.append((len(tlines), len(ml)))
        tlines += ml
    tout = vf.run_model('sched', tlines) if have_tree and tlines else None
    tq = tex = 0
    for (nws, evs, kind), (a, k) in zip(tcases, tspans):
        mo = tout[a:a + k] if tout is not None else None
        bad, w = c15_tree.check_case(ctx, nws, evs, mo)
        ctx.case(('treeco', nws, evs), nontrivial=bool(w.wlog))
        for e in evs:
            ctx.count('tev_' + (e[0] if e[0] in ('tma', 'tmb') else str(e[1] if e[0] == 'ttop' else e[2])))
        if mo is not None:
            ctx.count('tree_events_not_enabled', sum(1 for x in mo if x == 'DISABLED'))
            ctx.count('tree_events_enabled', sum(1 for x in mo if x.startswith('OK')) - 1)
        if w.quiescent():
            tq += 1
            tex += int(not w.oracle())
    ctx.cov['manager_topology_cosimulation'] = dict(runs=len(tcases), ending_quiescent=tq, quiescent_and_exact_at_every_level=tex,
                                                    compared_with_model=tout is not None)

    ctx.cov['theorems_over_generated_code'] = [
        'get_num_of_tasks_sent_since', 'handle_waiting', 'is_my_worker', 'get_employee_responsible_for', 'ctm_step_size/ctm_lb/ctm_ub',
        'sw_w_id/sw_insufficient', 'assign_num_remaining/assign_remaining_tasks', 'schedule_body', 'send_up_or_schedule_tasks',
        'update_upstream_idle_workers', 'manager_handle_update', 'manager_handle_result_from_below', 'server_handle_update',
        'server_handle_result_count']
    ctx.cov['uncovered'] = ['manager topology: system-level induction over the tree (link/node theorems + co-simulated model + oracle)',
                            'manager trees deeper than server-managers-workers (no co-simulation; the link/node theorems apply)',
                            'AttachedServer/DetachedServer client tables (C13)', 'real Worker threads (C07)']


def replay(ctx, data):
    ctx.uses_translators = BUILD['translators']
    case = data['case']
    if 'nws' in case:
        nws, evs = case['nws'], case['events']
        mo = vf.run_model('sched', c15_tree.model_lines(nws, evs)) if ctx.extract_ok.get('sched') else None
        c15_tree.check_case(ctx, nws, evs, mo, shrink_new=False)
        trace, w = c15_tree.run_impl(nws, evs)
        for (line, f), e in zip(trace, [['tinit']] + evs):
            print(c15_tree.ev_line(e), '->', line, ('  !! ' + '; '.join(x[3] for x in f)) if f else '')
        return
    if 'tree' in case:
        t = case['tree']
        log, fnd, quiet = tree_run(pyrandom.Random(t['seed']), t['managers'], t['workers'], t['roots'])
        for sig, exp, obs, what in fnd:
            print('tree probe:', sig, what, 'expected', exp, 'observed', obs)
            if sig != D14_SIG and sig != dict(call='tree_quiescent', symptom='idle'):
                ctx.violation(sig, case, exp, obs, what)
        return
    if 'query' in case:
        out = vf.run_model('sched', [case['query']])
        print('model:', out[0], ' recorded implementation answer:', data.get('observed'))
        return
    n, cls, lb, evs = case['n'], case.get('cls', 'DetachedServer'), case.get('lb', 0), case['events']
    mo = vf.run_model('sched', model_lines(n, lb, evs)) if ctx.extract_ok.get('sched') else None
    check_case(ctx, n, cls, lb, evs, mo, 'replay')
    trace, w = run_impl(n, cls, lb, evs)
    for (line, f), e in zip(trace, [['init']] + evs):
        print(ev_line(e), '->', line, ('  !! ' + '; '.join(x[3] for x in f)) if f else '')
