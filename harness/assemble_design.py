"""Assemble /verif/DESIGN.md from design/front.md, design_notes/C*.md, generated tables and design/back.md."""
from __future__ import annotations

import json
import re
import subprocess
from pathlib import Path

ROOT = Path(__file__).resolve().parent.parent


def demote(md: str) -> str:
    """shift headings of a per-property note two levels down (# -> ###)"""
    out = []
    for ln in md.splitlines():
        if ln.startswith('#'):
            ln = '##' + ln
        out.append(ln)
    return '\n'.join(out)


def findings_tables() -> str:
    ks = json.loads((ROOT / 'known_findings.json').read_text())
    d = ROOT / 'known_findings.d'
    for f in sorted(d.glob('*.json')):
        try:
            ks += json.loads(f.read_text())
        except Exception:
            pass
    log = subprocess.run('git -C /repo log --format="%h %s" --reverse', shell=True, capture_output=True, text=True).stdout.splitlines()
    fixes = [l for l in log if ' fix:' in l]
    by_commit = {}
    for k in ks:
        if k.get('status') == 'fixed' and k.get('commit'):
            by_commit.setdefault(k['commit'][:7], []).append(f"{k['property']} {k.get('id', '')}")
    out = ['### 2.6 Genuine defects repaired in `/repo` (one `fix:` commit each)\n',
           'Every one was first reproduced against the real code by a check (witness kept in `corpus/`), the unedited test-suite',
           'directories of the touched module were run with the fix, and the fixed entry in `known_findings.json` suppresses nothing.\n',
           '| commit | subject | found through |', '|---|---|---|']
    for l in fixes:
        h, s = l.split(' ', 1)
        out.append(f"| `{h}` | {s.replace('fix: ', '').replace('|', '/')} | {', '.join(sorted(set(by_commit.get(h[:7], ['—']))))} |")
    out += ['', '### 2.7 Known findings (genuine defects recorded, not repaired)\n',
            'Each is reproduced against the real code; the check prints `KNOWN-FINDING:` for it and still reports any violation with a',
            'different signature. Why not repaired: the repair is not small and safe (needs maintainers\' judgement, touches native code,',
            'changes message traffic or an algorithm) — details in the property sections.\n',
            '| property | id | signature | what fails |', '|---|---|---|---|']
    seen = set()
    for k in ks:
        if k.get('status') != 'open':
            continue
        key = (k['property'], k.get('id'), json.dumps(k.get('signature'), sort_keys=True))
        if key in seen:
            continue
        seen.add(key)
        what = re.sub(r'\s+', ' ', k.get('what', ''))[:260].replace('|', '/')
        out.append(f"| {k['property']} | {k.get('id', '')} | `{json.dumps(k.get('signature'))[:110]}` | {what} |")
    return '\n'.join(out) + '\n'


def summary_table() -> str:
    out = ['## 5. Applicability summary\n',
           'No property is listed under `not_applicable`: each has a logical core that an executable Gallina model expresses.',
           'What differs is how much of the property that core is; the "level note" column says what is *not* proved.\n',
           '| id | deciding technique | theorems/examples | what is assumed or only validated |', '|---|---|---|---|']
    for f in sorted((ROOT / 'manifest.d').glob('C*.json')):
        m = json.loads(f.read_text())
        n = ''
        ev = ROOT / 'evidence' / f'{m["property_id"]}.json'
        if ev.exists():
            try:
                c = json.loads(ev.read_text())['coverage']
                n = f"{c.get('discharged')}/{c.get('obligations')}"
            except Exception:
                pass
        out.append(f"| {m['property_id']} | {m['technique'].replace('|', '/')} | {n} | {m['note'].replace('|', '/')[:420]} |")
    return '\n'.join(out) + '\n'


def axioms_table() -> str:
    out = ['### 6.1 Axioms per property (from `Print Assumptions`, as recorded in the last evidence files)\n', '| property | axioms used by some theorem |', '|---|---|']
    for f in sorted((ROOT / 'evidence').glob('C*.json')):
        try:
            c = json.loads(f.read_text())['coverage']
        except Exception:
            continue
        ax = sorted({a for v in (c.get('axioms') or {}).values() for a in v})
        out.append(f"| {f.stem} | {', '.join('`' + a + '`' for a in ax) if ax else 'none (closed under the global context)'} |")
    return '\n'.join(out) + '\n'


def seeded_table() -> str:
    out = ['## 7. Seeded breaking changes: which checks catch which\n',
           'Each change was written by a fresh sub-agent that saw only the property text and a scratch worktree (nothing from `/verif`),',
           'then confirmed by `harness/seedtest.py` in scratch copies: demo passes without / fails with the patch, the existing tests of the',
           'touched module still pass, and the registered quick check is run against the patched tree. Kept under `seeded/<id>/`.\n',
           '| seed | breaks | change (from its notes) | demo ok/fail | check result |', '|---|---|---|---|---|']
    for d in sorted((ROOT / 'seeded').glob('*')):
        mf = d / 'meta.json'
        if not mf.exists():
            continue
        m = json.loads(mf.read_text())
        note = re.sub(r'\s+', ' ', m.get('needs_to_manifest', ''))[:200].replace('|', '/')
        res = []
        for p, r in (m.get('checks') or {}).items():
            if r['caught'] and r['with_failing_input']:
                res.append(f"{p}: caught with failing input ({(r.get('first_replay') or {}).get('what', '')[:80]})")
            elif r['caught']:
                res.append(f'{p}: caught, no-failing-input-found')
            else:
                res.append(f'{p}: **missed**')
        out.append(f"| {m['seed_id']} | {m['property']} | {note} | {m.get('demo_without_patch', {}).get('rc')}/{m.get('demo_with_patch', {}).get('rc')} | {'; '.join(res).replace('|', '/')} |")
    extra = ROOT / 'design' / 'seeded_notes.md'
    return '\n'.join(out) + '\n\n' + (extra.read_text() if extra.exists() else '')


def main():
    parts = [(ROOT / 'design' / 'front.md').read_text(), findings_tables(), (ROOT / 'design' / 'libs.md').read_text() if (ROOT / 'design' / 'libs.md').exists() else '',
             '## 4. The properties (as built)\n']
    for f in sorted((ROOT / 'design_notes').glob('C*.md')):
        parts.append(demote(f.read_text()))
        parts.append('')
    parts.append(summary_table())
    parts.append((ROOT / 'design' / 'back.md').read_text() if (ROOT / 'design' / 'back.md').exists() else '')
    parts.append(axioms_table())
    if (ROOT / 'design' / 'coqchk.md').exists():
        parts.append((ROOT / 'design' / 'coqchk.md').read_text())
    parts.append(seeded_table())
    (ROOT / 'DESIGN.md').write_text('\n'.join(parts))
    print('DESIGN.md', sum(len(p) for p in parts), 'chars')


if __name__ == '__main__':
    main()
