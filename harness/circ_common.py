"""Shared machinery for C04 / C05 / C16: random editing histories on the real
bqskit Circuit, the canonical dump compared with the extracted Coq model
(coq/circuit/CModel.v), the plain list-of-cycles reference semantics (property
oracle for C04) and the view-consistency oracle (C05)."""
from __future__ import annotations

import copy
import itertools
import pickle
import random

from bqskit.ir.circuit import Circuit
from bqskit.ir.gates import (CCPGate, CKMGate, CSUMGate, CXGate, CircuitGate, ClockGate, RZGate, RZZGate,
                             ToffoliGate, U3Gate, XGate)
from bqskit.ir.operation import Operation
from bqskit.ir.point import CircuitPoint

GATES = {1: XGate(), 2: RZGate(), 3: U3Gate(), 4: CXGate(), 5: RZZGate(), 6: CCPGate(), 7: ClockGate(),
         8: CKMGate(), 9: CSUMGate(), 10: ToffoliGate()}
GID = {g: i for i, g in GATES.items()}


def fmt(x) -> str:
    if isinstance(x, (list, tuple)):
        return '[' + ' '.join(fmt(y) for y in x) + ']'
    if isinstance(x, bool):
        return '1' if x else '0'
    return str(x)


# ---- snapshots: an op is a tuple (b, g, loc, ps, rad, sub) ----------------------
def snap_op(op: Operation):
    ps = tuple(int(round(p)) for p in op.params)
    if isinstance(op.gate, CircuitGate):
        # the parameters an evaluation uses are the operation's own (the inner circuit's stored values are
        # overwritten by set_params before every use), so the inner cycles are shown with them
        return (1, 0, tuple(op.location), ps, tuple(op.gate.radixes), set_params(snap_cycles(op.gate._circuit), ps))
    return (0, GID.get(op.gate, 99), tuple(op.location), ps, tuple(op.gate.radixes), ())


def snap_cycles(c: Circuit):
    out = []
    for cy in range(c.num_cycles):
        ops, seen = [], set()
        for q in range(c.num_qudits):
            if not c.is_point_idle((cy, q)):
                op = c.get_operation((cy, q))
                if id(op) not in seen:
                    seen.add(id(op))
                    ops.append(snap_op(op))
        ops.sort(key=lambda o: o[2][0])
        out.append(tuple(ops))
    return tuple(out)


def snap(c: Circuit):
    return (c.num_qudits, tuple(c.radixes), snap_cycles(c))


def dump(c: Circuit) -> str:
    return fmt(snap(c))


def op_from_snap(s) -> Operation:
    b, g, loc, ps, rad, sub = s
    if b:
        inner = circ_from_snap((len(rad), rad, sub))
        return Operation(CircuitGate(inner), list(loc), [float(p) for p in ps])
    return Operation(GATES[g], list(loc), [float(p) for p in ps])


def circ_from_snap(s) -> Circuit:
    n, rads, cycles = s
    c = Circuit(n, list(rads))
    for cy in cycles:
        for o in cy:
            c.append(op_from_snap(o))
    return c


# ---- timelines -------------------------------------------------------------------
def relabel(o, f):
    return (o[0], o[1], tuple(f(q) for q in o[2]), o[3], o[4], o[5])


def iter_cycles(cycles):
    for cy in cycles:
        for o in sorted(cy, key=lambda o: o[2][0]):
            yield o


def unfolded(cycles):
    """recursively unfolded operation list (iteration order)"""
    out = []
    for o in iter_cycles(cycles):
        if o[0]:
            inner = list(unfolded(set_params(o[5], o[3])))
            out.extend(relabel(x, lambda q: o[2][q]) for x in inner)
        else:
            out.append(o)
    return out


def set_params(cycles, ps):
    ps = list(ps)
    out = []
    for cy in cycles:
        ncy = []
        for o in sorted(cy, key=lambda o: o[2][0]):
            k = len(o[3])
            # recursively: a nested block shows its inner operations with the parameters it is given
            ncy.append((o[0], o[1], o[2], tuple(ps[:k]), o[4], set_params(o[5], ps[:k]) if o[0] else o[5]))
            ps = ps[k:]
        out.append(tuple(ncy))
    return tuple(out)


def timelines(ops, nq):
    tl = [[] for _ in range(nq)]
    for o in ops:
        for q in o[2]:
            tl[q].append(o)
    return tl


def TL(s):
    return timelines(list(iter_cycles(s[2])), s[0])


def grouped_ok(exp, post):
    """Does the observed circuit `post` have, on every qudit, the operations of the reference `exp`
    cycle group after cycle group (operations of one reference cycle are mutually unordered)?"""
    if (exp[0], tuple(exp[1])) != (post[0], tuple(post[1])):
        return False
    obs = TL(post)
    for q in range(exp[0]):
        seq = obs[q]
        pos = 0
        for cy in exp[2]:
            grp = [o for o in cy if q in o[2]]
            if not grp:
                continue
            got = seq[pos:pos + len(grp)]
            if sorted(map(repr, got)) != sorted(map(repr, grp)):
                return False
            pos += len(grp)
        if pos != len(seq):
            return False
    return True


def UTL(s):
    return timelines(unfolded(s[2]), s[0])


# ---- reference semantics: plain list of cycles (never merges cycles) ---------------
class SpecError(Exception):
    pass


def clamp(k, n):
    if n == 0 or k >= n:
        return n
    if k < -n:
        return 0
    return k if k >= 0 else n + k


def find_op(cycles, i, q):
    for o in cycles[i]:
        if q in o[2]:
            return o
    return None


def ref_apply(pre, call):
    """Expected post-state (as a snapshot whose cycle structure is irrelevant) of a
    successful call, from the documented meaning of the call on the pre-state."""
    n, rads, cycles = pre
    cycles = [list(cy) for cy in cycles]
    k = call[0]
    if k == 'append':
        return (n, rads, cycles + [[call[1]]])
    if k == 'extend':
        return (n, rads, cycles + [[o] for o in call[1]])
    if k in ('append_circuit', 'iadd'):
        sub, loc, as_gate = call[1], call[2], call[3]
        return (n, rads, cycles + sub_cycles(sub, loc, as_gate))
    if k == 'insert':
        i = clamp(call[1], len(cycles))
        return (n, rads, cycles[:i] + [[call[2]]] + cycles[i:])
    if k == 'insert_circuit':
        i = clamp(call[1], len(cycles))
        return (n, rads, cycles[:i] + sub_cycles(call[2], call[3], call[4]) + cycles[i:])
    if k == 'pop':
        if call[1] is None:
            o = max(cycles[-1], key=lambda o: max(o[2]))
            i = len(cycles) - 1
        else:
            i, q = norm_pt(call[1], len(cycles), n)
            o = find_op(cycles, i, q)
        cycles[i] = [x for x in cycles[i] if x is not o]
        return (n, rads, cycles)
    if k == 'batch_pop':
        for (ci, qi) in call[1]:
            i, q = norm_pt((ci, qi), len(cycles), n)
            o = find_op(cycles, i, q)
            if o is not None:
                cycles[i] = [x for x in cycles[i] if x is not o]
        return (n, rads, cycles)
    if k in ('replace', 'batch_replace'):
        pts = [call[1]] if k == 'replace' else call[1]
        ops = [call[2]] if k == 'replace' else call[2]
        olds = []
        for pt in pts:
            i, q = norm_pt(pt, len(cycles), n)
            olds.append((i, find_op(cycles, i, q)))
        if len({id(old) for _, old in olds}) != len(olds):
            raise SpecError('two points name the same operation')
        for (i, old), o in zip(olds, ops):
            if old is None or not set(old[2]) & set(o[2]):
                raise SpecError('precondition of replace fails')
            # the new operation takes the old one's place in the cycle order; relative to the other
            # operations of that same cycle it is unordered (they were unordered with the old one)
            cycles[i] = [o if x is old else x for x in cycles[i]]
        return (n, rads, cycles)
    if k in ('replace_with_circuit', 'unfold'):
        i, q = norm_pt(call[1], len(cycles), n)
        old = find_op(cycles, i, q)
        if k == 'unfold':
            sub = (len(old[4]), old[4], set_params(old[5], old[3]))
            as_gate = False
        else:
            sub, as_gate = call[2], call[3]
        cycles[i] = [x for x in cycles[i] if x is not old]
        return (n, rads, cycles[:i] + sub_cycles(sub, old[2], as_gate) + cycles[i:])
    if k == 'append_qudit':
        return (n + 1, rads + (call[1],), cycles)
    if k == 'insert_qudit':
        qi = call[1]
        if qi >= n:
            return (n + 1, rads + (call[2],), cycles)
        kq = 0 if qi <= -n else (qi if qi >= 0 else n + qi)
        f = lambda q: q if q < kq else q + 1
        return (n + 1, rads[:kq] + (call[2],) + rads[kq:], [[relabel(o, f) for o in cy] for cy in cycles])
    if k == 'pop_qudit':
        kq = call[1] if call[1] >= 0 else n + call[1]
        f = lambda q: q if q < kq else q - 1
        return (n - 1, rads[:kq] + rads[kq + 1:], [[relabel(o, f) for o in cy if kq not in o[2]] for cy in cycles])
    if k == 'renumber':
        perm = call[1]
        nr = list(rads)
        for i, q in enumerate(perm):
            nr[q] = rads[i]
        return (n, tuple(nr), [[relabel(o, lambda q: perm[q]) for o in cy] for cy in cycles])
    if k == 'clear':
        return (n, rads, [])
    if k in ('compress', 'copy', 'noop'):
        return pre
    raise SpecError(k)


def sub_cycles(sub, loc, as_gate):
    sn, srads, scycles = sub
    if as_gate:
        ps = tuple(p for o in iter_cycles(scycles) for p in o[3])
        return [[(1, 0, tuple(loc), ps, tuple(srads), tuple(tuple(sorted(cy, key=lambda o: o[2][0])) for cy in scycles))]]
    return [[relabel(o, lambda q: loc[q])] for o in iter_cycles(scycles)]


def norm_pt(pt, ncyc, nq):
    ci, qi = pt
    return (ci if ci >= 0 else ncyc + ci, qi if qi >= 0 else nq + qi)


# ---- C05: view consistency through the public read API -------------------------------
def check_views(c: Circuit, tolerate_idle=False):
    """Return a list of (symptom, detail) inconsistencies between the views.  With tolerate_idle an idle
    cycle (known finding D6) is not reported, so that the remaining views of such a state are still judged."""
    bad = []
    n, ncyc = c.num_qudits, c.num_cycles
    grid = [[None] * n for _ in range(ncyc)]
    ops = []     # (cycle, op)
    for cy in range(ncyc):
        seen = {}
        for q in range(n):
            if not c.is_point_idle((cy, q)):
                op = c.get_operation((cy, q))
                grid[cy][q] = op
                if id(op) not in seen:
                    seen[id(op)] = op
                    ops.append((cy, op))
        if not seen and not tolerate_idle:
            bad.append(('idle_cycle', cy))
        for op in seen.values():
            cells = [q for q in range(n) if grid[cy][q] is op]
            if sorted(cells) != sorted(op.location):
                bad.append(('op_cells_mismatch', (cy, str(op), cells)))
            for r, q in zip(op.radixes, op.location):
                if q < n and c.radixes[q] != r:
                    bad.append(('radix_mismatch', (cy, str(op))))
    if bad:
        return bad
    pt = lambda cy, op: (cy, op.location[0])
    # derived dependency view
    last = [None] * n
    prevs, nexts = {}, {}
    first = [None] * n
    for cy, op in ops:
        p = pt(cy, op)
        prevs[p] = {q: last[q] for q in op.location}
        nexts[p] = {q: None for q in op.location}
        for q in op.location:
            if last[q] is not None:
                nexts[last[q]][q] = p
            else:
                first[q] = p
            last[q] = p
    try:
        for q in range(n):
            if c.first_on(q) != first[q]:
                bad.append(('first_on', (q, c.first_on(q), first[q])))
            if c.last_on(q) != last[q]:
                bad.append(('last_on', (q, c.last_on(q), last[q])))
        if set(c.front) != {p for p in first if p is not None and all(prevs[p][q] is None for q in prevs[p])}:
            bad.append(('front', (sorted(c.front),)))
        if set(c.rear) != {p for p in last if p is not None and all(nexts[p][q] is None for q in nexts[p])}:
            bad.append(('rear', (sorted(c.rear),)))
        for cy, op in ops:
            p = pt(cy, op)
            if set(c.next(p)) != {x for x in nexts[p].values() if x is not None}:
                bad.append(('next', (p, sorted(c.next(p)))))
            if set(c.prev(p)) != {x for x in prevs[p].values() if x is not None}:
                bad.append(('prev', (p, sorted(c.prev(p)))))
        if c.num_operations != len(ops):
            bad.append(('num_operations', (c.num_operations, len(ops))))
        gc = {}
        for _, op in ops:
            gc[op.gate] = gc.get(op.gate, 0) + 1
        if dict(c.gate_counts) != gc:
            bad.append(('gate_counts', (str(c.gate_counts), str(gc))))
        if c.num_params != sum(op.num_params for _, op in ops):
            bad.append(('num_params', (c.num_params,)))
        edges = set()
        for _, op in ops:
            for a, b in itertools.combinations(sorted(op.location), 2):
                edges.add((a, b))
        got_edges = {tuple(sorted(e)) for e in c.coupling_graph}
        if got_edges != edges:
            bad.append(('coupling_graph', (sorted(got_edges), sorted(edges))))
        act = sorted({q for _, op in ops for q in op.location})
        if sorted(c.active_qudits) != act:
            bad.append(('active_qudits', (c.active_qudits, act)))
        dq = [0] * n
        for _, op in ops:
            d = max(dq[q] for q in op.location) + 1
            for q in op.location:
                dq[q] = d
        if c.depth != (max(dq) if dq else 0):
            bad.append(('depth', (c.depth, max(dq))))
        it = list(c.operations_with_cycles())
        exp = sorted(((cy, op.location[0]) for cy, op in ops))
        if [(cy, op.location[0]) for cy, op in it] != exp or any(grid[cy][op.location[0]] is not op for cy, op in it):
            bad.append(('iteration', ([(cy, op.location[0]) for cy, op in it], exp)))
        # private incrementally maintained fields
        if set(c._dag.keys()) != set(prevs.keys()):
            bad.append(('_dag_keys', (sorted(c._dag.keys()), sorted(prevs.keys()))))
        else:
            for p in prevs:
                if dict(c._dag[p][0]) != prevs[p] or dict(c._dag[p][1]) != nexts[p]:
                    bad.append(('_dag_entry', (p, str(c._dag[p]))))
        if dict(c._front) != {q: first[q] for q in range(n)}:
            bad.append(('_front', (str(c._front),)))
        if dict(c._rear) != {q: last[q] for q in range(n)}:
            bad.append(('_rear', (str(c._rear),)))
        gi = {}
        for _, op in ops:
            for pair in op.location.pairs:
                gi[pair] = gi.get(pair, 0) + 1
        if dict(c._graph_info) != gi:
            bad.append(('_graph_info', (str(c._graph_info), str(gi))))
        if dict(c._gate_info) != gc:
            bad.append(('_gate_info', (str(c._gate_info),)))
    except Exception as e:   # an accessor failed on a reachable circuit
        bad.append(('accessor_raised', (type(e).__name__, str(e)[:200])))
    return bad


# ---- C05: the views derived by the Coq model (coq/circuit/CViews.v) vs the implementation's -------
VIEW_NAMES = ['_front/first_on', '_rear/last_on', 'front', 'rear', '_dag', 'next', 'prev', 'num_operations',
              '_gate_info/gate_counts', '_graph_info', 'active_qudits', 'depth', 'dag_iteration']


def parse_v(s: str):
    """parse the driver's value syntax: integers, atoms, [ ... ] lists"""
    toks = s.replace('[', ' [ ').replace(']', ' ] ').split()
    pos = 0

    def item():
        nonlocal pos
        t = toks[pos]
        pos += 1
        if t == '[':
            out = []
            while toks[pos] != ']':
                out.append(item())
            pos += 1
            return out
        try:
            return int(t)
        except ValueError:
            return t
    out = []
    while pos < len(toks):
        out.append(item())
    return out


def tolist(x):
    return [tolist(y) for y in x] if isinstance(x, (list, tuple)) else x


def strip_ps(cycles):
    """inner cycles of a CircuitGate without parameters (CircuitGate equality ignores them)"""
    return [[[o[0], o[1], list(o[2]), [], list(o[4]), strip_ps(o[5])] for o in cy] for cy in cycles]


def canon_gate_counts(pairs):
    """[(gate key op, count)] -> merged by parameter-erased key, sorted"""
    acc = {}
    for k, n in pairs:
        key = repr([k[0], k[1], [], [], list(k[4]), strip_ps(tolist(k[5]))])
        acc[key] = acc.get(key, 0) + n
    return sorted([k, n] for k, n in acc.items())


def impl_views(c: Circuit):
    """The implementation's incrementally maintained views, in the layout of the driver's `views` answer."""
    n = c.num_qudits
    P = lambda p: [] if p is None else [p[0], p[1]]
    its = list(c.operations_with_cycles())
    pts = sorted(c._dag.keys())
    qmap = lambda d: [[q, P(d[q])] for q in sorted(d)]
    gates = []
    for g, k in c._gate_info.items():
        if isinstance(g, CircuitGate):
            gates.append(((1, 0, (), (), tuple(g.radixes), tolist(snap_cycles(g._circuit))), k))
        else:
            gates.append(((0, GID.get(g, 99), (), (), tuple(g.radixes), ()), k))
    gc2 = []
    for g, k in c.gate_counts.items():
        if isinstance(g, CircuitGate):
            gc2.append(((1, 0, (), (), tuple(g.radixes), tolist(snap_cycles(g._circuit))), k))
        else:
            gc2.append(((0, GID.get(g, 99), (), (), tuple(g.radixes), ()), k))
    gi = canon_gate_counts(gates)
    if canon_gate_counts(gc2) != gi:
        gi = ['gate_counts property differs from _gate_info', gi, canon_gate_counts(gc2)]
    first = [P(c._front[q]) for q in range(n)]
    if first != [P(c.first_on(q)) for q in range(n)]:
        first = ['first_on differs from _front', first]
    last = [P(c._rear[q]) for q in range(n)]
    if last != [P(c.last_on(q)) for q in range(n)]:
        last = ['last_on differs from _rear', last]
    return [
        first, last,
        [P(p) for p in sorted(c.front)],
        [P(p) for p in sorted(c.rear)],
        [[P(p), qmap(c._dag[p][0]), qmap(c._dag[p][1])] for p in pts],
        [[P(p), [P(x) for x in sorted(c.next(p))]] for p in pts],
        [[P(p), [P(x) for x in sorted(c.prev(p))]] for p in pts],
        c.num_operations,
        gi,
        sorted([[a, b], k] for (a, b), k in c._graph_info.items()),
        list(c.active_qudits),
        int(c.depth) if n > 0 else 0,
        [[cy, tolist(snap_op(op))] for cy, op in its],
    ]


def model_views(line: str):
    v = parse_v(line)[0]
    v[8] = canon_gate_counts([(k, n) for k, n in v[8]])
    v[9] = sorted(v[9])
    return v


def diff_views(model, impl):
    """names of the views on which the Coq-derived value and the implementation's differ"""
    return [VIEW_NAMES[i] for i in range(len(VIEW_NAMES)) if tolist(model[i]) != tolist(impl[i])]


# ---- regions: independent brute-force validity (convexity) test --------------------------------------
def region_verdict(s, region):
    """Independent judgement of a region {qudit: (lower, upper)} on a snapshot: 'empty', 'bad_location',
    'bad_interval', 'off_circuit', 'disconnect' (some dependency path leaves the region and re-enters it) or 'ok'.
    The operations of the region are those lying entirely inside it."""
    n, rads, cycles = s
    region = dict(region)
    if not region:
        return 'empty'
    if any((not isinstance(q, int)) or q < 0 or q >= n for q in region):
        return 'bad_location'
    if any(lo < 0 or hi < lo for lo, hi in region.values()):
        return 'bad_interval'
    if max(hi for lo, hi in region.values()) >= len(cycles):
        return 'off_circuit'
    ops = [(cy, o) for cy, cyc in enumerate(cycles) for o in cyc]
    inside = [all(q in region and region[q][0] <= cy <= region[q][1] for q in o[2]) for cy, o in ops]
    last = {}
    succ = [[] for _ in ops]
    for i, (cy, o) in enumerate(ops):       # ops are listed cycle by cycle
        for q in o[2]:
            if q in last:
                succ[last[q]].append(i)
            last[q] = i
    # walk from the region through outside operations only
    seen = set()
    todo = [j for i in range(len(ops)) if inside[i] for j in succ[i] if not inside[j]]
    while todo:
        j = todo.pop()
        if j in seen:
            continue
        seen.add(j)
        for k in succ[j]:
            if inside[k]:
                return 'disconnect'
            todo.append(k)
    return 'ok'


def staggered_region(rng, s):
    """2-3 qudits with different start cycles and overlapping intervals: straighten has gates to push back"""
    n, rads, cycles = s
    ncyc = len(cycles)
    if ncyc < 3:
        return None
    qs = rng.sample(range(n), rng.randint(2, min(3, n)))
    base = rng.randint(0, max(0, ncyc - 3))
    starts = [min(ncyc - 1, base + rng.randint(0, 3)) for _ in qs]
    if len(set(starts)) == 1:
        starts[0] = max(0, starts[0] - 1)
    top = max(starts)
    return tuple(sorted((q, (st, min(ncyc - 1, top + rng.randint(0, 2)))) for q, st in zip(qs, starts)))


def followup_appends(c: Circuit):
    """After a structural call: append a single-qudit operation on every qudit; returns a list of
    (symptom, detail) if a call fails with an internal error or the views disagree afterwards."""
    for q in range(c.num_qudits):
        g = 1 if c.radixes[q] == 2 else 7
        out = apply_impl(c, ('append', (0, g, (q,), (), (c.radixes[q],), ())))
        if out.kind == 'E':
            return [('followup_append_failed', (q, out.val))]
        bad = check_views(c, tolerate_idle=True)
        if bad:
            return [(b[0] + '_after_followup_append', (q, b[1])) for b in bad]
    return []


def nonconvex_region(rng, s):
    """A region around two operations A, C connected through a chain of >= 2 other operations (or None)."""
    n, rads, cycles = s
    ops = [(cy, o) for cy, cyc in enumerate(cycles) for o in cyc]
    if len(ops) < 4:
        return None
    last = {}
    succ = [[] for _ in ops]
    for i, (cy, o) in enumerate(ops):
        for q in o[2]:
            if q in last:
                succ[last[q]].append(i)
            last[q] = i
    for _ in range(20):
        a = rng.randrange(len(ops))
        path = [a]
        while succ[path[-1]] and len(path) < rng.randint(4, 6):
            path.append(rng.choice(succ[path[-1]]))
        if len(path) < 4:
            continue
        (ca, oa), (cc_, oc) = ops[path[0]], ops[path[-1]]
        reg = {}
        for q in oa[2]:
            reg[q] = (ca, ca)
        for q in oc[2]:
            reg[q] = (reg[q][0], cc_) if q in reg else (cc_, cc_)
        return tuple(sorted(reg.items()))
    return None


# ---- random calls ------------------------------------------------------------------------
def rand_params(rng, k):
    return tuple(rng.randint(1, 99) for _ in range(k))


def rand_op(rng, nq, rads, valid=True):
    """A random leaf operation fitting (nq, rads) (or, if not valid, possibly not)."""
    for _ in range(30):
        g = rng.choice(list(GATES))
        gate = GATES[g]
        k = gate.num_qudits
        if k > nq:
            continue
        loc = tuple(rng.sample(range(nq), k))
        if valid and any(rads[q] != r for q, r in zip(loc, gate.radixes)):
            continue
        return (0, g, loc, rand_params(rng, gate.num_params), tuple(gate.radixes), ())
    gate = GATES[1]
    qs = [q for q in range(nq) if rads[q] == 2]
    if not qs:
        q = rng.randrange(nq)
        return (0, 7, (q,), (), (3,), ())
    return (0, 1, (rng.choice(qs),), (), (2,), ())


def rand_sub(rng, rads, depth=0, maxops=4):
    """random small sub-circuit snapshot over the given radixes (may nest one block)"""
    n = len(rads)
    c = Circuit(n, list(rads))
    for _ in range(rng.randint(0, maxops)):
        if depth < 1 and n >= 2 and rng.random() < 0.2:
            k = rng.randint(1, min(n, 2))
            loc = sorted(rng.sample(range(n), k))
            inner = rand_sub(rng, tuple(rads[q] for q in loc), depth + 1, 3)
            c.append_circuit(circ_from_snap(inner), loc, True)
        else:
            c.append(op_from_snap(rand_op(rng, n, rads)))
    return snap(c)


def existing_points(c: Circuit):
    return [(cy, op.location[0], op) for cy, op in c.operations_with_cycles()]


CALLS = ['append', 'append', 'insert', 'insert', 'pop', 'pop_pt', 'replace', 'replace_same', 'batch_replace',
         'append_circuit', 'insert_circuit', 'replace_with_circuit', 'unfold', 'extend', 'batch_pop', 'compress',
         'unfold_all', 'append_qudit', 'insert_qudit', 'pop_qudit', 'renumber', 'iadd', 'imul', 'add', 'mul',
         'fold', 'copy', 'clear', 'batch_unfold', 'pickle', 'reparam_block', 'reparam_block']


def gen_call(rng, c: Circuit, valid_p=0.88):
    """Return a call tuple (see apply_impl / model_cmd)."""
    n, rads, ncyc = c.num_qudits, tuple(c.radixes), c.num_cycles
    valid = rng.random() < valid_p
    pts = existing_points(c)
    kind = rng.choice(CALLS)
    rc = lambda: rng.randint(-ncyc - 2, ncyc + 2)

    def rpt():
        if pts and valid:
            cy, q0, op = rng.choice(pts)
            q = rng.choice(list(op.location))
            if rng.random() < 0.25:
                cy -= ncyc
            if rng.random() < 0.15:
                q -= n
            return (cy, q)
        return (rng.randint(-ncyc - 1, ncyc), rng.randint(-n - 1, n))

    if kind == 'append':
        return ('append', rand_op(rng, n, rads, valid))
    if kind == 'extend':
        return ('extend', tuple(rand_op(rng, n, rads, valid) for _ in range(rng.randint(0, 3))))
    if kind == 'insert':
        return ('insert', rc(), rand_op(rng, n, rads, valid))
    if kind == 'pop':
        return ('pop', None)
    if kind == 'pop_pt':
        return ('pop', rpt())
    if kind == 'batch_pop':
        return ('batch_pop', tuple(rpt() for _ in range(rng.randint(0 if not valid else 1, 3))))
    if kind in ('replace', 'replace_same'):
        pt = rpt()
        if kind == 'replace_same' and pts and valid and c.is_point_in_range(pt) and not c.is_point_idle(pt):
            old = c.get_operation(pt)
            cands = [g for g, gt in GATES.items() if gt.radixes == old.gate.radixes] if not isinstance(old.gate, CircuitGate) else []
            if cands:
                g = rng.choice(cands)
                loc = list(old.location)
                rng.shuffle(loc)
                return ('replace', pt, (0, g, tuple(loc), rand_params(rng, GATES[g].num_params), tuple(GATES[g].radixes), ()))
        return ('replace', pt, rand_op(rng, n, rads, valid))
    if kind == 'batch_replace':
        k = rng.randint(1, 3)
        chosen = rng.sample(pts, min(k, len(pts))) if pts and valid else []
        ps = tuple((cy, rng.choice(list(op.location))) for cy, _, op in chosen) if chosen else tuple(rpt() for _ in range(k))
        ops = []
        for i, pt in enumerate(ps):
            if chosen and rng.random() < 0.6:
                old = chosen[i][2]
                if not isinstance(old.gate, CircuitGate):
                    cands = [g for g, gt in GATES.items() if gt.radixes == old.gate.radixes]
                    g = rng.choice(cands)
                    ops.append((0, g, tuple(old.location), rand_params(rng, GATES[g].num_params), tuple(GATES[g].radixes), ()))
                    continue
            ops.append(rand_op(rng, n, rads, valid))
        if not valid and rng.random() < 0.3:
            ops = ops[:-1]
        return ('batch_replace', ps, tuple(ops))
    if kind in ('append_circuit', 'insert_circuit', 'iadd', 'add'):
        if kind in ('iadd', 'add'):
            loc = tuple(range(n))
            sub = rand_sub(rng, rads if valid else rads[:max(1, n - 1)])
            return (kind, sub, loc, False)
        k = rng.randint(1, min(n, 3))
        loc = tuple(rng.sample(range(n), k))
        sub = rand_sub(rng, tuple(rads[q] for q in loc) if valid else (2,) * (k + (rng.random() < 0.5)))
        as_gate = rng.random() < 0.4
        if kind == 'append_circuit':
            return ('append_circuit', sub, loc, as_gate)
        return ('insert_circuit', rc(), sub, loc, as_gate)
    if kind == 'replace_with_circuit':
        pt = rpt()
        if valid and c.is_point_in_range(pt) and not c.is_point_idle(pt):
            old = c.get_operation(pt)
            sub = rand_sub(rng, tuple(rads[q] for q in old.location))
        else:
            sub = rand_sub(rng, (2,))
        return ('replace_with_circuit', pt, sub, rng.random() < 0.3)
    if kind == 'reparam_block':
        # give a block operation new parameters through the OUTER circuit (as set_params / instantiate do): the
        # CircuitGate's stored template keeps its old values, the operation's own parameters are what counts
        bl = [(cy, q0, op) for cy, q0, op in pts if isinstance(op.gate, CircuitGate) and op.num_params > 0]
        if not bl:
            return ('noop',)
        cy, q0, op = rng.choice(bl)
        return ('reparam_block', (cy, q0), rand_params(rng, op.num_params))
    if kind in ('unfold', 'batch_unfold'):
        bl = [(cy, q0) for cy, q0, op in pts if isinstance(op.gate, CircuitGate)]
        if kind == 'unfold':
            return ('unfold', rng.choice(bl) if bl and valid else rpt())
        return ('batch_unfold', tuple(rng.sample(bl, rng.randint(1, len(bl)))) if bl else ())
    if kind == 'append_qudit':
        return ('append_qudit', rng.choice([2, 2, 3]) if valid else rng.choice([0, 1, 2]))
    if kind == 'insert_qudit':
        return ('insert_qudit', rng.randint(-n - 1, n + 1), rng.choice([2, 2, 3]) if valid else 1)
    if kind == 'pop_qudit':
        return ('pop_qudit', rng.randint(-n, n - 1) if valid else rng.randint(-n - 2, n + 1))
    if kind == 'renumber':
        perm = list(range(n))
        rng.shuffle(perm)
        if not valid:
            perm = perm[:-1] if rng.random() < 0.5 else [perm[0]] * n
        return ('renumber', tuple(perm))
    if kind in ('imul', 'mul'):
        return (kind, rng.randint(0, 3))
    if kind == 'fold':
        return gen_fold(rng, c, pts, valid)
    return (kind,)


def gen_fold(rng, c, pts, valid):
    if not pts:
        return ('noop',)
    if valid:
        # grow a region with surround from a random point; always a valid region
        cy, q0, op = rng.choice(pts)
        try:
            region = c.surround((cy, q0), rng.randint(1, min(3, c.num_qudits)))
            return ('fold', tuple((q, (iv.lower, iv.upper)) for q, iv in sorted(region.items())))
        except Exception:
            return ('noop',)
    qs = rng.sample(range(c.num_qudits), rng.randint(1, min(3, c.num_qudits)))
    reg = []
    for q in qs:
        a = rng.randint(0, max(0, c.num_cycles - 1))
        b = rng.randint(a, max(a, c.num_cycles - 1 + (rng.random() < 0.2)))
        reg.append((q, (a, b)))
    return ('fold', tuple(sorted(reg)))


# ---- running a call on the implementation ---------------------------------------------------
class Outcome:
    def __init__(self, kind, val=None):
        self.kind, self.val = kind, val

    def __str__(self):
        if self.kind == 'U':
            return 'U'
        if self.kind == 'N':
            return f'N {self.val}'
        if self.kind == 'O':
            return 'O ' + fmt(self.val)
        if self.kind == 'C':
            return 'C ' + fmt(self.val)
        return 'E ' + self.val


MODELLED = {'append', 'extend', 'append_circuit', 'insert', 'insert_circuit', 'pop', 'batch_pop', 'replace',
            'batch_replace', 'replace_with_circuit', 'unfold', 'unfold_all', 'compress', 'append_qudit',
            'insert_qudit', 'pop_qudit', 'renumber', 'clear', 'add', 'iadd', 'mul', 'imul', 'fold'}


def apply_impl(c: Circuit, call) -> Outcome:
    k = call[0]
    try:
        if k == 'append':
            return Outcome('N', c.append(op_from_snap(call[1])))
        if k == 'extend':
            c.extend([op_from_snap(o) for o in call[1]])
            return Outcome('U')
        if k == 'append_circuit':
            return Outcome('N', c.append_circuit(circ_from_snap(call[1]), list(call[2]), call[3]))
        if k == 'insert':
            c.insert(call[1], op_from_snap(call[2]))
            return Outcome('U')
        if k == 'insert_circuit':
            c.insert_circuit(call[1], circ_from_snap(call[2]), list(call[3]), call[4])
            return Outcome('U')
        if k == 'pop':
            return Outcome('O', snap_op(c.pop(call[1])))
        if k == 'batch_pop':
            return Outcome('C', snap(c.batch_pop(list(call[1]))))
        if k == 'reparam_block':
            old = c.get_operation(call[1])
            c.replace(call[1], Operation(old.gate, list(old.location), [float(p) for p in call[2]]))
            return Outcome('U')
        if k == 'replace':
            c.replace(call[1], op_from_snap(call[2]))
            return Outcome('U')
        if k == 'batch_replace':
            c.batch_replace(list(call[1]), [op_from_snap(o) for o in call[2]])
            return Outcome('U')
        if k == 'replace_with_circuit':
            c.replace_with_circuit(call[1], circ_from_snap(call[2]), call[3])
            return Outcome('U')
        if k == 'unfold':
            c.unfold(call[1])
            return Outcome('U')
        if k == 'batch_unfold':
            c.batch_unfold(list(call[1]))
            return Outcome('U')
        if k == 'unfold_all':
            c.unfold_all()
            return Outcome('U')
        if k == 'compress':
            c.compress()
            return Outcome('U')
        if k == 'append_qudit':
            c.append_qudit(call[1])
            return Outcome('U')
        if k == 'insert_qudit':
            c.insert_qudit(call[1], call[2])
            return Outcome('U')
        if k == 'pop_qudit':
            c.pop_qudit(call[1])
            return Outcome('U')
        if k == 'renumber':
            c.renumber_qudits(list(call[1]))
            return Outcome('U')
        if k == 'clear':
            c.clear()
            return Outcome('U')
        if k == 'add':
            return Outcome('C', snap(c + circ_from_snap(call[1])))
        if k == 'iadd':
            r = c.__iadd__(circ_from_snap(call[1]))
            if r is not c:   # `c += x` rebinds c to the returned value
                return Outcome('E', 'Internal:OperatorContract:__iadd__ did not return self')
            return Outcome('U')
        if k == 'mul':
            return Outcome('C', snap(c * call[1]))
        if k == 'imul':
            r = c.__imul__(call[1])
            if r is not c:
                return Outcome('E', 'Internal:OperatorContract:__imul__ did not return self')
            return Outcome('U')
        if k == 'fold':
            from bqskit.ir.region import CircuitRegion
            p = c.fold(CircuitRegion({q: iv for q, iv in call[1]}))
            return Outcome('N', p[0])
        if k == 'straighten':
            from bqskit.ir.region import CircuitRegion
            c.straighten(CircuitRegion({q: iv for q, iv in call[1]}))
            return Outcome('U')
        if k == 'copy':
            d = c.copy()
            c.become(d)
            return Outcome('U')
        if k == 'pickle':
            d = pickle.loads(pickle.dumps(c))
            c.become(d, False)
            return Outcome('U')
        if k == 'noop':
            return Outcome('U')
        raise RuntimeError('unknown call ' + k)
    except (IndexError, ValueError, TypeError) as e:
        return Outcome('E', type(e).__name__)
    except Exception as e:   # KeyError, AssertionError, AttributeError ...: internal error
        return Outcome('E', 'Internal:' + type(e).__name__ + ':' + str(e)[:80])


def model_cmd(call) -> str | None:
    k = call[0]
    if k not in MODELLED:
        return None
    if k == 'append':
        return 'append ' + fmt(call[1])
    if k == 'extend':
        return 'extend ' + fmt(call[1])
    if k == 'append_circuit':
        return f'append_circuit {fmt(call[1])} {fmt(call[2])} {fmt(call[3])}'
    if k == 'insert':
        return f'insert {call[1]} {fmt(call[2])}'
    if k == 'insert_circuit':
        return f'insert_circuit {call[1]} {fmt(call[2])} {fmt(call[3])} {fmt(call[4])}'
    if k == 'pop':
        return 'pop' if call[1] is None else f'pop {call[1][0]} {call[1][1]}'
    if k == 'batch_pop':
        return 'batch_pop ' + fmt(call[1])
    if k == 'replace':
        return f'replace {call[1][0]} {call[1][1]} {fmt(call[2])}'
    if k == 'batch_replace':
        return f'batch_replace {fmt(call[1])} {fmt(call[2])}'
    if k == 'replace_with_circuit':
        return f'replace_with_circuit {call[1][0]} {call[1][1]} {fmt(call[2])} {fmt(call[3])}'
    if k == 'unfold':
        return f'unfold {call[1][0]} {call[1][1]}'
    if k in ('unfold_all', 'compress', 'clear'):
        return k
    if k == 'append_qudit':
        return f'append_qudit {call[1]}'
    if k == 'insert_qudit':
        return f'insert_qudit {call[1]} {call[2]}'
    if k == 'pop_qudit':
        return f'pop_qudit {call[1]}'
    if k == 'renumber':
        return 'renumber ' + fmt(call[1])
    if k in ('add', 'iadd'):
        return f'{k} {fmt(call[1])}'
    if k in ('mul', 'imul'):
        return f'{k} {call[1]}'
    if k == 'fold':
        return fold_cmd() + ' ' + fmt(call[1])
    return None


_FOLD_MODE = None


def fold_cmd() -> str:
    """Which straighten does the implementation under test run?  Decided once on the D6 witness: the current
    algorithm leaves an idle cycle there (model command `fold`), the repaired one of fixes/D6.patch does not
    (`foldx` = CFold.fold_x true).  Either way the model is then compared on every fold call."""
    global _FOLD_MODE
    if _FOLD_MODE is None:
        X = (0, 2, (0,), (92,), (2,), ())
        pre = (6, (2,) * 6, ((X, (0, 10, (2, 4, 1), (), (2, 2, 2), ()), (0, 3, (5,), (23, 4, 17), (2,), ())),
                             ((0, 4, (1, 3), (), (2, 2), ()),), ((0, 4, (3, 0), (), (2, 2), ()),)))
        c = circ_from_snap_exact(pre)
        apply_impl(c, ('fold', ((0, (0, 2)), (3, (2, 2)))))
        _FOLD_MODE = 'fold' if any(not cy for cy in snap(c)[2]) else 'foldx'
    return _FOLD_MODE


def circ_from_snap_exact(s) -> Circuit:
    """Rebuild a circuit with exactly the snapshot's cycle layout (as rebuild_circuit does)."""
    n, rads, cycles = s
    c = Circuit(n, list(rads))
    for i, cy in enumerate(cycles):
        c._append_cycle()
        for o in cy:
            c._append(op_from_snap(o), i)
    return c
