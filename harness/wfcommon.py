"""Shared machinery of the C01 / C02 checks (workflow properties of compile()).

* JSON specs for circuits / models / inputs, deterministic random generators for input classes.
* `run_jobs`: every real compile() happens in a CHILD process inside its own network namespace
  (`unshare -n`, loopback only) so that concurrently running checks cannot hijack each other's
  runtime server (fixed ports 7472/7474); hard timeouts, process-group kill, results streamed
  line by line so that a hung compile loses only itself.
* Oracles evaluated on the implementation's result inside the worker:
  C01: output unitary on the embedded subspace (ancillas |0>) vs the input under the reported
       (initial_mapping, final_mapping), up to global phase, in the cost 1 - |tr|/N the success
       thresholds are expressed in; measurement placeholders on final_mapping[q].
  C02: width / radixes, native gates, coupling (independent of MachineModel.is_compatible), and
       is_compatible's own verdict.
* Coq diagnostics: which generated theorems fail, with the reflective checker's counter-branch.
"""
from __future__ import annotations

import itertools
import json
import math
import os
import random
import signal
import subprocess
import sys
import tempfile
import time
from pathlib import Path

HERE = Path(__file__).resolve().parent
ROOT = HERE.parent
PY = '/venv/bin/python'
EPS = 1e-8


# ----------------------------------------------------------------------------------------------
# specs
# ----------------------------------------------------------------------------------------------

def gate_table():
    from bqskit.ir.gates import (HGate, XGate, TGate, SGate, SXGate, RZGate, RXGate, RYGate, U3Gate, CNOTGate,
                                 CZGate, SwapGate, CCXGate, ZGate, YGate, ISwapGate, U1Gate, U1qPiGate, U1qPi2Gate)
    return {
        'h': HGate(), 'x': XGate(), 'y': YGate(), 'z': ZGate(), 't': TGate(), 's': SGate(), 'sx': SXGate(),
        'rz': RZGate(), 'rx': RXGate(), 'ry': RYGate(), 'u3': U3Gate(), 'u1': U1Gate(), 'cx': CNOTGate(),
        'cz': CZGate(), 'swap': SwapGate(), 'ccx': CCXGate(), 'iswap': ISwapGate(), 'u1qpi': U1qPiGate,
        'u1qpi2': U1qPi2Gate,
    }


GATESETS = {
    'default': None,
    'zx': ['cx', 'rz', 'sx'],
    'czu3': ['cz', 'u3'],
    'czzx': ['cz', 'rz', 'sx'],
    'ccx': ['ccx', 'cx', 'u3'],
    'constsq': ['cx', 'h', 't'],
    'nosq': ['cx'],
    'rzonly': ['cx', 'rz'], 'rxonly': ['cx', 'rx'], 'u1rx': ['cx', 'u1', 'rx'], 'u1sx': ['cx', 'u1', 'sx'],
    'rzrx': ['cx', 'rz', 'rx'],
    'rzry': ['cx', 'rz', 'ry'], 'h1like': ['cx', 'rz', 'u1qpi', 'u1qpi2'],
}


def graph_edges(shape: str, n: int, rng: random.Random | None = None):
    if shape == 'all':
        return None
    if shape == 'line':
        return [(i, i + 1) for i in range(n - 1)]
    if shape == 'ring':
        return [(i, (i + 1) % n) for i in range(n)] if n > 2 else [(0, 1)][:n - 1]
    if shape == 'star':
        c = n // 2
        return [(min(c, i), max(c, i)) for i in range(n) if i != c]
    if shape == 'grid':
        w = 2
        es = []
        for i in range(n):
            if i + 1 < n and (i + 1) % w != 0:
                es.append((i, i + 1))
            if i + w < n:
                es.append((i, i + w))
        return es
    if shape == 'tree':
        return [((i - 1) // 2, i) for i in range(1, n)]
    if shape == 'rand':
        assert rng is not None
        perm = list(range(n))
        rng.shuffle(perm)
        es = {tuple(sorted((perm[i], perm[rng.randrange(i)]))) for i in range(1, n)}
        for a, b in itertools.combinations(range(n), 2):
            if rng.random() < 0.2:
                es.add((a, b))
        return sorted(es)
    raise ValueError(shape)


def build_model(ms: dict):
    from bqskit.compiler.machine import MachineModel
    gt = gate_table()
    gs = None if ms.get('gates') is None else {gt[g] for g in ms['gates']}
    es = ms.get('edges')
    return MachineModel(ms['n'], None if es is None else [tuple(e) for e in es], gs)


def build_circuit(cs: dict):
    """cs = {n, ops: [[name, loc, params] | ['barrier', loc] | ['measure', loc] | ['block', loc, inner_ops]]}"""
    from bqskit.ir.circuit import Circuit
    from bqskit.ir.gates import BarrierPlaceholder, MeasurementPlaceholder, CircuitGate
    gt = gate_table()
    c = Circuit(cs['n'])
    for op in cs['ops']:
        name, loc = op[0], list(op[1])
        if name == 'barrier':
            c.append_gate(BarrierPlaceholder(len(loc)), loc)
        elif name == 'measure':
            meas = {q: ('c', i) for i, q in enumerate(loc)}
            c.append_gate(MeasurementPlaceholder([('c', len(loc))], meas), loc)
        elif name == 'block':
            inner = build_circuit(dict(n=len(loc), ops=op[2]))
            c.append_gate(CircuitGate(inner, True), loc, inner.params)
        else:
            c.append_gate(gt[name], loc, list(op[2]) if len(op) > 2 else [])
    return c


def build_input(js: dict):
    import numpy as np
    kind = js['kind']
    if kind == 'circuit':
        return build_circuit(js['circuit'])
    from bqskit.qis.unitary import UnitaryMatrix
    from bqskit.qis.state import StateVector
    from bqskit.qis.state.system import StateSystem
    n = js['n']
    r = np.random.RandomState(js.get('iseed', 0))
    if kind == 'unitary':
        return UnitaryMatrix(build_circuit(js['circuit']).get_unitary()) if 'circuit' in js else \
            UnitaryMatrix.random(n) if js.get('iseed') is None else _haar(n, r)
    if kind == 'state':
        return StateVector(_rstate(n, r))
    if kind == 'system':
        k = js.get('pairs', 2)
        u = _haar(n, r).numpy
        ins = np.linalg.qr(r.randn(2 ** n, k) + 1j * r.randn(2 ** n, k))[0]
        return StateSystem({StateVector(ins[:, i]): StateVector(u @ ins[:, i]) for i in range(k)})
    raise ValueError(kind)


def _haar(n, r):
    import numpy as np
    from bqskit.qis.unitary import UnitaryMatrix
    z = (r.randn(2 ** n, 2 ** n) + 1j * r.randn(2 ** n, 2 ** n)) / math.sqrt(2)
    q, rr = np.linalg.qr(z)
    d = np.diag(rr)
    return UnitaryMatrix(q * (d / np.abs(d)))


def _rstate(n, r):
    import numpy as np
    v = r.randn(2 ** n) + 1j * r.randn(2 ** n)
    return v / np.linalg.norm(v)


# ----------------------------------------------------------------------------------------------
# generators of input classes
# ----------------------------------------------------------------------------------------------

def rand_circuit(rng: random.Random, n: int, depth: int, three=False, barrier=False, measure=False, block=False,
                 sq=('h', 't', 'rz', 'u3', 'sx'), far=False) -> dict:
    """far: bias the two-qudit gates onto the pair (0, n-1) (forces routing / a non-identity layout on sparse graphs)"""
    ops = []

    def one(width_ok):
        k = rng.random()
        if three and width_ok >= 3 and k < 0.15:
            return ['ccx', rng.sample(range(width_ok), 3), []]
        if width_ok >= 2 and k < 0.6:
            g = rng.choice(['cx', 'cx', 'cz', 'swap'])
            if far and width_ok >= 3 and rng.random() < 0.6:
                return [g, rng.sample([0, width_ok - 1], 2), []]
            return [g, rng.sample(range(width_ok), 2), []]
        g = rng.choice(sq)
        npar = {'rz': 1, 'rx': 1, 'ry': 1, 'u1': 1, 'u3': 3}.get(g, 0)
        return [g, [rng.randrange(width_ok)], [round(rng.uniform(-3, 3), 3) for _ in range(npar)]]
    for i in range(depth):
        ops.append(one(n))
        if barrier and i == depth // 2:
            ops.append(['barrier', sorted(rng.sample(range(n), min(n, rng.choice([1, 2, 3]))))])
        if block and i == depth // 3 and n >= 2:
            w = rng.choice([2, 3]) if n >= 3 else 2
            loc = rng.sample(range(n), w)
            inner = [x for x in (one(w) for _ in range(3))]
            ops.append(['block', loc, inner])
    if three and n >= 3 and not any(o[0] == 'ccx' for o in ops):
        ops.insert(len(ops) // 2, ['ccx', rng.sample(range(n), 3), []])
    if measure:
        qs = sorted(rng.sample(range(n), rng.randint(1, n)))
        rng.shuffle(qs)
        ops.append(['measure', qs])
    return dict(n=n, ops=ops)


def job(kind='circuit', circuit=None, model=None, level=1, seed=None, mss=3, err=None, n=None, iseed=0, pairs=2,
        tag='') -> dict:
    j = dict(kind=kind, model=model, level=level, seed=seed, mss=mss, err=err, tag=tag)
    if circuit is not None:
        j['circuit'] = circuit
    if kind != 'circuit':
        j['n'] = n
        j['iseed'] = iseed
        j['pairs'] = pairs
    return j


# ----------------------------------------------------------------------------------------------
# oracles (run inside the worker; `out` etc. are live bqskit objects)
# ----------------------------------------------------------------------------------------------

PLACEHOLDERS = ('BarrierPlaceholder', 'MeasurementPlaceholder', 'Reset')


def is_placeholder(op) -> bool:
    return type(op.gate).__name__ in PLACEHOLDERS


def strip(circ):
    from bqskit.ir.circuit import Circuit
    c = Circuit(circ.num_qudits, circ.radixes)
    for op in circ:
        if not is_placeholder(op):
            c.append(op)
    return c


def describe(circ) -> list:
    return [[op.gate.name, list(op.location)] for op in circ]


def c02_oracle(out, model) -> dict:
    """Independent three-condition check + is_compatible."""
    res = {}
    res['width'] = out.num_qudits == model.num_qudits and tuple(out.radixes) == tuple(model.radixes)
    native = {g for g in model.gate_set}
    bad_gates = sorted({op.gate.name for op in out if not is_placeholder(op) and op.gate not in native})
    res['native'] = not bad_gates
    res['bad_gates'] = bad_gates
    sq_bad = sorted({op.gate.name for op in out if not is_placeholder(op) and op.gate not in native and op.num_qudits == 1})
    res['sq_bad'] = sq_bad
    res['mq_bad'] = sorted(set(bad_gates) - set(sq_bad))
    edges = {tuple(sorted(e)) for e in model.coupling_graph}
    unc = []
    for op in out:
        if is_placeholder(op) or op.num_qudits < 2:
            continue
        for a, b in itertools.combinations(op.location, 2):
            if max(a, b) >= model.num_qudits or tuple(sorted((a, b))) not in edges:
                unc.append([op.gate.name, list(op.location)])
                break
    res['coupled'] = not unc
    res['uncoupled'] = unc[:5]
    res['independent'] = bool(out.num_qudits <= model.num_qudits and res['native'] and res['coupled']
                              and all(r == model.radixes[i] for i, r in enumerate(out.radixes)))
    s = strip(out)
    try:
        res['is_compatible_stripped'] = bool(model.is_compatible(s))
    except Exception as e:  # noqa
        res['is_compatible_stripped'] = 'ERR ' + repr(e)
    try:
        res['is_compatible_raw'] = bool(model.is_compatible(out))
    except Exception as e:  # noqa
        res['is_compatible_raw'] = 'ERR ' + repr(e)
    res['has_placeholder'] = any(is_placeholder(op) for op in out)
    return res


def embedded_block(u_out, n_phys: int, pi, pf):
    """M[y, x] = <e_pf(y)| U_out |e_pi(x)> for the n logical qubits (ancillas |0>), plus the leaked weight."""
    import numpy as np
    n = len(pi)
    dim = 2 ** n

    def emb(x, mp):
        idx = 0
        for q in range(n):
            bit = (x >> (n - 1 - q)) & 1
            idx |= bit << (n_phys - 1 - mp[q])
        return idx
    cols = [emb(x, pi) for x in range(dim)]
    rows = [emb(y, pf) for y in range(dim)]
    m = u_out[np.ix_(rows, cols)]
    leak = float(max(0.0, dim - np.sum(np.abs(m) ** 2)))
    return m, leak


def hs_cost(a, b) -> float:
    import numpy as np
    return float(1 - abs(np.trace(a.conj().T @ b)) / a.shape[0])


def c01_tolerance(level: int, n_in_ops: int, n_out_ops: int, eps: float = EPS) -> float:
    """The success thresholds bound 1 - |tr|/N = 1 - cos(theta) per accepted block rewrite; the angle theta is a
    unitarily invariant metric, hence subadditive over the K block rewrites of a run: total <= 1 - cos(K theta0)
    <= K^2 eps.  K <= (error passes on a branch) x (blocks per pass); blocks <= operations present at that time,
    bounded generously by 4 (in + out + 5)."""
    passes = {1: 3, 2: 4, 3: 16, 4: 20}[level]
    k = passes * 4 * (n_in_ops + n_out_ops + 5)
    return k * k * eps * 1.01 + 1e-9


def c01_oracle(inp, out, pi, pf, level: int, eps: float = EPS) -> dict:
    import numpy as np
    res = {}
    n = inp.num_qudits
    pi, pf = list(pi), list(pf)
    res['pi'], res['pf'] = pi, pf
    ok_map = (len(pi) == n and len(pf) == n and len(set(pi)) == n and len(set(pf)) == n
              and all(0 <= p < out.num_qudits for p in pi + pf))
    res['mapping_wf'] = ok_map
    if not ok_map:
        res['cost'] = None
        return res
    u_in = strip_unfold(inp).get_unitary().numpy
    u_out = strip_unfold(out).get_unitary().numpy
    m, leak = embedded_block(u_out, out.num_qudits, pi, pf)
    res['cost'] = hs_cost(u_in, m)
    res['leak'] = leak
    n_in = sum(1 for _ in strip_unfold(inp))
    n_out = sum(1 for _ in strip(out))
    res['tol'] = c01_tolerance(level, n_in, n_out, eps)
    res['sem_ok'] = bool(res['cost'] <= res['tol'])
    # measurements
    min_ = [op for op in inp if type(op.gate).__name__ == 'MeasurementPlaceholder']
    mout = [(cyc, op) for cyc, op in out.operations_with_cycles() if type(op.gate).__name__ == 'MeasurementPlaceholder']
    if not min_:
        res['meas_ok'] = not mout
        res['meas'] = 'none' if not mout else 'spurious'
    else:
        want = {}
        for op in min_:
            want.update({pf[q]: tuple(c) for q, c in op.gate.measurements.items()})
        if len(mout) != 1:
            res['meas_ok'] = False
            res['meas'] = f'{len(mout)} placeholders'
        else:
            cyc, op = mout[0]
            got = {int(q): tuple(c) for q, c in op.gate.measurements.items()}
            later = [o2 for c2, o2 in out.operations_with_cycles()
                     if c2 > cyc and set(o2.location) & set(op.location)]
            res['meas_ok'] = bool(got == want and sorted(op.location) == sorted(want) and list(op.location) == list(got)
                                  and not later)
            res['meas'] = dict(want={str(k): list(v) for k, v in want.items()},
                               got={str(k): list(v) for k, v in got.items()}, location=list(op.location),
                               ops_after=len(later))
    res['blocks_left'] = any(type(op.gate).__name__ == 'CircuitGate' for op in out)
    return res


def strip_unfold(circ):
    c = strip(circ)
    c.unfold_all()
    return c


# ----------------------------------------------------------------------------------------------
# worker
# ----------------------------------------------------------------------------------------------

def _worker(in_path: str, out_path: str, nworkers: int) -> int:
    import warnings
    warnings.simplefilter('ignore')
    import logging
    logging.disable(logging.WARNING)
    jobs = json.loads(Path(in_path).read_text())
    from bqskit.compiler.compile import compile as bq_compile
    from bqskit.compiler.compiler import Compiler
    outf = open(out_path, 'a')

    def emit(d):
        outf.write(json.dumps(d, default=str) + '\n')
        outf.flush()
        os.fsync(outf.fileno())
    comp = Compiler(num_workers=nworkers)
    emit(dict(idx=-1, started=True))
    try:
        for idx, js in jobs:
            t0 = time.time()
            emit(dict(idx=idx, begin=True))
            rec = dict(idx=idx)
            try:
                inp = build_input(js)
                model = build_model(js['model']) if js.get('model') else None
                kw = dict(optimization_level=js['level'], max_synthesis_size=js.get('mss', 3),
                          error_threshold=js.get('err'), seed=js.get('seed'), with_mapping=True,
                          synthesis_epsilon=js.get('eps', EPS))
                try:
                    out, pi, pf = bq_compile(inp, model, compiler=comp, **kw)
                except RuntimeError as e:
                    if 'onnection' not in repr(e):
                        raise
                    # the runtime died (not the compilation): start a fresh one and retry once
                    rec['runtime_restarted'] = repr(e)[:200]
                    try:
                        comp.close()
                    except Exception:  # noqa
                        pass
                    comp = Compiler(num_workers=nworkers)
                    out, pi, pf = bq_compile(inp, model, compiler=comp, **kw)
                from bqskit.compiler.machine import MachineModel
                m2 = model if model is not None else MachineModel(inp.num_qudits)
                rec['out'] = describe(out)
                rec['out_n'] = out.num_qudits
                rec['pi'], rec['pf'] = list(pi), list(pf)
                rec['c02'] = c02_oracle(out, m2)
                if js['kind'] == 'circuit':
                    rec['c01'] = c01_oracle(inp, out, pi, pf, js['level'], js.get('eps', EPS))
                elif js['kind'] == 'unitary':
                    from bqskit.ir.circuit import Circuit
                    ic = Circuit.from_unitary(inp)
                    rec['c01'] = c01_oracle(ic, out, pi, pf, js['level'], js.get('eps', EPS))
                rec['ok'] = True
            except Exception as e:  # noqa
                import traceback
                rec['ok'] = False
                rec['exc'] = repr(e)[:500]
                rec['tb'] = traceback.format_exc()[-1500:]
            rec['secs'] = round(time.time() - t0, 2)
            emit(rec)
    finally:
        try:
            comp.close()
        except Exception:  # noqa
            pass
    return 0


def _spawn(in_path: str, out_path: str, nworkers: int):
    import vf
    inner = f'ip link set lo up 2>/dev/null; exec {PY} {HERE / "wfcommon.py"} --worker {in_path} {out_path} {nworkers}'
    env = vf.env_for_impl()
    env['PYTHONPATH'] = f'{vf.REPO}:{HERE}'
    cmd = ['unshare', '-n', 'sh', '-c', inner]
    try:
        subprocess.run(['unshare', '-n', 'true'], check=True, capture_output=True, timeout=20)
    except Exception:  # noqa  (no namespace support: fall back to a plain child; ports may clash)
        cmd = ['sh', '-c', inner.split('; ', 1)[1]]
    return subprocess.Popen(cmd, env=env, cwd=str(ROOT), stdout=subprocess.DEVNULL, stderr=subprocess.PIPE,
                            start_new_session=True)


def _kill(p):
    try:
        os.killpg(os.getpgid(p.pid), signal.SIGKILL)
    except Exception:  # noqa
        pass
    try:
        p.wait(timeout=10)
    except Exception:  # noqa
        pass


def run_jobs(jobs: list[dict], budget_s: float, per_job_s: float = 150.0, nworkers: int = 4, startup_s: float = 150.0,
             on_result=None):
    """Run compile() jobs in isolated children.  Returns a list of result records (same order as `jobs`);
    a record is {'ok': False, 'timeout': True} when the job hung or the budget ran out.  `on_result(i, rec)` is
    called as results arrive; returning True stops the run (remaining jobs are marked skipped)."""
    stop = False
    info = run_jobs.last_info = dict(rounds=0, started=0, first_result_s=None)
    t_begin = time.time()
    t_end = time.time() + budget_s
    results: dict[int, dict] = {}
    pending = list(enumerate(jobs))
    tmp = Path(tempfile.mkdtemp(prefix='wfjobs-'))
    rounds = 0
    while pending and time.time() < t_end and rounds < 6:
        rounds += 1
        info['rounds'] = rounds
        inp = tmp / f'in{rounds}.json'
        outp = tmp / f'out{rounds}.jsonl'
        inp.write_text(json.dumps(pending))
        outp.write_text('')
        p = _spawn(str(inp), str(outp), nworkers)
        seen = 0
        cur = None
        cur_t = time.time()
        started = False
        hung = None
        while True:
            time.sleep(0.25)
            lines = outp.read_text().splitlines()
            for ln in lines[seen:]:
                try:
                    d = json.loads(ln)
                except Exception:  # noqa
                    continue
                if d.get('started'):
                    started = True
                    info['started'] += 1
                    cur_t = time.time()
                elif d.get('begin'):
                    cur, cur_t = d['idx'], time.time()
                else:
                    results[d['idx']] = d
                    if info['first_result_s'] is None:
                        info['first_result_s'] = round(time.time() - t_begin, 1)
                    cur = None
                    cur_t = time.time()
                    if on_result is not None and on_result(d['idx'], d):
                        stop = True
            seen = len(lines)
            if stop or p.poll() is not None:
                break
            now = time.time()
            if now > t_end:
                hung = cur
                break
            if not started and now - cur_t > startup_s:
                break
            if started and cur is not None and now - cur_t > per_job_s:
                hung = cur
                break
            if started and cur is None and now - cur_t > startup_s:
                break
        _kill(p)
        if hung is not None and hung not in results:
            results[hung] = dict(idx=hung, ok=False, timeout=True)
        pending = [(i, j) for i, j in pending if i not in results]
        if stop:
            for i, _ in pending:
                results[i] = dict(idx=i, ok=False, skipped=True)
            pending = []
        if p.returncode not in (0, None, -9) and not started:
            err = ''
            try:
                err = p.stderr.read().decode()[-800:]
            except Exception:  # noqa
                pass
            for i, _ in pending:
                results[i] = dict(idx=i, ok=False, worker_failed=True, exc=err)
            pending = []
    for i, _ in pending:
        results[i] = dict(idx=i, ok=False, timeout=True, budget=True)
    try:
        for f in tmp.iterdir():
            f.unlink()
        tmp.rmdir()
    except Exception:  # noqa
        pass
    return [results[i] for i in range(len(jobs))]


# ----------------------------------------------------------------------------------------------
# Coq diagnostics: which generated theorems fail and the checker's counter-branch
# ----------------------------------------------------------------------------------------------

DIAG_HEAD = '''From Coq Require Import List Bool String.
Import ListNotations.
From BQ Require Import wf.WfAst wf.State wf.Contracts wf.Abs wf.Run wf.Find wf.Check wf.Spec gen.Workflows.
Definition b2n (b : bool) := if b then 1 else 0.
Definition enc (s : astate) : list nat :=
  [b2n (mqn s); b2n (sqn s); b2n (cpl s); b2n (nomany s); b2n (sem s); b2n (tgt s);
   match dep s with D0 => 0 | D1 => 1 | D2 => 2 | D3 => 3 end;
   match ms s with MNone => 0 | MIn => 1 | MOut => 2 | MBack => 3 end; b2n (msbad s); b2n (plid s); b2n (fullw s);
   match wd s with W1 => 1 | W2 => 2 | W3 => 3 | W4 => 4 | WAny => 0 end; b2n (warned s); b2n (noph s)].
Fixpoint outs (t : tr) : list nat :=
  match t with
  | TSkip | TEmbed => [] | TLeaf i => [10 + i] | TSeq a b => outs a ++ outs b
  | TIf o t => b2n o :: outs t
  | TLoop its => flat_map (fun x => 1 :: outs x) its ++ [0]
  | TDoLoop f its => outs f ++ flat_map (fun x => 1 :: outs x) its ++ [0]
  | TForEach rs _ _ _ _ _ => [7; List.length rs]
  end.
Definition diag1 (pre : sset) (post : astate -> bool) (m : meta) (w : pass) :=
  match wf_bad (m_cfg m) w pre post with
  | None => (2, [], [], [])
  | Some [] => (0, [], [], [])
  | Some (fin :: _) =>
      match witness (m_cfg m) w pre (fun _ => true) (fun s => astate_eqb s fin) with
      | Some (s, t, f) => (1, enc s, outs t, enc f)
      | None => (1, [], [], enc fin)
      end
  end.
Definition diag (x : string * meta * pass) :=
  let '(n, m, w) := x in
  (n, c01_check m w, c02_check m w).
Definition diag_full (x : string * meta * pass) :=
  let '(n, m, w) := x in
  (n, diag1 (full_pre m) c01_post m w, diag1 (c02_pre m) (c02_post m) m w, err_ok m w,
   map (fun e => wf_refutes (m_cfg m) w (full_pre m) (exn_cand m e) (exn_bad e)) (c02_exns m)).
'''

STATE_FIELDS = ['mqn', 'sqn', 'cpl', 'nomany', 'sem', 'tgt', 'dep', 'ms', 'msbad', 'plid', 'fullw', 'wd', 'warned', 'noph']


def coq_eval(body: str, timeout=1500) -> tuple[int, str]:
    import vf
    d = vf.BUILD / 'wfdiag'
    d.mkdir(parents=True, exist_ok=True)
    f = d / 'Diag.v'
    f.write_text(DIAG_HEAD + body)
    rc, out, err = vf.sh(['coqc', '-Q', str(vf.COQ), 'BQ', str(f)], cwd=d, timeout=timeout)
    return rc, out + err


def _parse_coq_list(txt: str):
    """Parse the printed value of a Coq term made of tuples, lists, strings, nats and bools."""
    import re
    t = txt.replace(';', ',').replace('%string', '')
    t = re.sub(r'\btrue\b', 'True', t)
    t = re.sub(r'\bfalse\b', 'False', t)
    return eval(t, {'__builtins__': {}}, {})  # noqa: S307 (our own coqc output)


def failing_configs() -> list[tuple[str, bool, bool]] | None:
    """Evaluate c01_check / c02_check for every configuration (needs wf/*.vo and gen/Workflows.vo)."""
    rc, out = coq_eval('Eval vm_compute in (filter (fun r : string * bool * bool => let \'(_, a, b) := r in '
                       'negb (a && b)) (map diag wf_table)).\n')
    if rc != 0 or '=' not in out:
        return None
    val = out.split('=', 1)[1].rsplit(':', 1)[0]
    try:
        return [(n, a, b) for (n, a, b) in _parse_coq_list(val.strip())]
    except Exception:  # noqa
        return None


def counter_branches(names: list[str]) -> dict[str, dict]:
    """For failing configurations: the checker's violating final state, an initial state leading to it and the
    outcomes of the branch (predicate outcomes / leaf alternatives / loop iterations)."""
    if not names:
        return {}
    sel = ' || '.join(f'String.eqb (fst (fst x)) "{n}"' for n in names)
    rc, out = coq_eval(f'Eval vm_compute in (map diag_full (filter (fun x : string * meta * pass => {sel}) wf_table)).\n')
    res = {}
    if rc != 0 or '=' not in out:
        return res
    val = out.split('=', 1)[1].rsplit(':', 1)[0]
    try:
        rows = _parse_coq_list(val.strip())
    except Exception:  # noqa
        return res
    for n, d1, d2, errok, refs in rows:
        def conv(d):
            code, s, outs, f = d
            return dict(status={0: 'holds', 1: 'violated', 2: 'checker-gave-up'}[code],
                        init=dict(zip(STATE_FIELDS, s)) if s else None, outcomes=outs,
                        final=dict(zip(STATE_FIELDS, f)) if f else None)
        res[n] = dict(c01=conv(d1), c02=conv(d2), err_ok=errok, refutations=refs)
    return res


def input_class_of(cfg_row: dict, init: dict | None, final: dict | None, rng: random.Random, count: int) -> list[dict]:
    """Turn a counter-branch (configuration + abstract initial state) into concrete compile() jobs of that class."""
    kind = cfg_row['kind']
    lvl = cfg_row['level']
    gsn = cfg_row['model'] if cfg_row['model'] in GATESETS else 'default'
    init = init or {}
    wd = init.get('wd', 3) or 3
    n = {1: 1, 2: 2, 3: 3, 4: 4}.get(wd, 3)
    if lvl >= 3 and n > 3:
        n = 3          # keep the slow levels small; any width >= 2 takes the same branches
    if init.get('nomany') == 0:
        n = max(n, 3)
    final = final or {}
    if kind == 'circuit' and (final.get('cpl') == 0 or final.get('plid') == 0 or final.get('mqn') == 0):
        n = max(n, 3)      # coupling / placement / routing-swap violations need a pair of uncoupled qudits
    extra = 0 if init.get('fullw', 1) else 2
    if cfg_row['model'] == 'wide':
        extra = 2
    jobs = []
    for i in range(count):
        shape = ['line', 'star', 'line', 'all'][i % 4] if cfg_row['model'] != 'default' or i % 2 else 'all'
        ms = model_spec(n + extra, shape, gsn)
        err = None if not cfg_row['err'] else 1e-3
        seed = 7 if cfg_row['seed'] else None
        if kind == 'circuit':
            cs = rand_circuit(rng, n, rng.randint(4, 7), three=init.get('nomany') == 0, barrier=init.get('noph') == 0,
                              measure=init.get('ms') == 1, block=init.get('dep', 0) != 0, far=(i % 2 == 0))
            jobs.append(job('circuit', cs, ms, lvl, seed, err=err, tag='directed'))
        else:
            w = cfg_row['width']
            ms = model_spec(w + extra, shape, gsn)
            jobs.append(job({'system': 'system'}.get(kind, kind), None, ms, lvl, seed, err=err, n=w, iseed=i, tag='directed'))
    return jobs


def corpus_jobs(prop: str) -> list[dict]:
    """corpus/<prop>/*.json: inputs that exposed a defect or a mutant in the past ({'job': ..., 'note': ...}); run first."""
    out = []
    d = ROOT / 'corpus' / prop
    if d.exists():
        for f in sorted(d.glob('*.json')):
            try:
                d = json.loads(f.read_text())
                if 'job' not in d:
                    continue            # call-type corpus cases are handled by the property module
                js = d['job']
                js['tag'] = 'corpus:' + f.stem
                out.append(js)
            except Exception:  # noqa
                continue
    return out


def model_spec(n, shape, gates, rng=None):
    return dict(n=n, edges=graph_edges(shape, n, rng), gates=GATESETS[gates], gs=gates, shape=shape)


def theorem_failure_search(ctx, prop: str, budget: float, judge, fallback_jobs) -> None:
    """A generated theorem / the translator no longer checks: use the checker's counter-branches to pick input
    classes and run the real compile() on them."""
    sys.path.insert(0, str(HERE / 'gen'))
    import gen_workflows as G
    rows = {r[0]: dict(name=r[0], kind=r[1], level=r[2], err=r[3], seed=r[4], model=r[5], width=r[6]) for r in G.configs()}
    fails = failing_configs()
    jobs = []
    if fails:
        mine = [n for n, a, b in fails if not (a if prop == 'c01' else b)]
        ctx.cov['failing_theorems'] = mine[:40]
        # one representative per (kind, level, model)
        picked, seen = [], set()
        for n in mine:
            r = rows.get(n)
            if r is None:
                continue
            k = (r['kind'], r['level'], r['model'])
            if k not in seen:
                seen.add(k)
                picked.append(n)
        picked = picked[:8]
        cbs = counter_branches(picked)
        ctx.cov['counter_branches'] = {n: cbs.get(n, {}).get(prop) for n in picked}
        per = [input_class_of(rows[n], (cbs.get(n, {}).get(prop) or {}).get('init'),
                              (cbs.get(n, {}).get(prop) or {}).get('final'), ctx.rng, 6) for n in picked]
        for k in range(6):          # round robin: one input per failing configuration first
            for js in per:
                if k < len(js):
                    jobs.append(js[k])
    else:
        # no diagnosis possible (translator aborted or the Coq side does not build): widen the standing search
        jobs = fallback_jobs(ctx.rng, 6)
    ctx.cov['directed_jobs'] = len(jobs)
    hits = []

    def on_result(i, r):
        if judge(ctx, jobs[i], r, 'directed search after a failed theorem'):
            hits.append(i)
        return len(hits) >= 2          # two concrete failing inputs are enough
    res = run_jobs(jobs, budget, on_result=on_result)
    for js, r in zip(jobs, res):
        if r.get('timeout') or r.get('worker_failed'):
            judge(ctx, js, r, 'directed search after a failed theorem')
    ctx.cov['directed_jobs_finished'] = sum(1 for r in res if r.get('ok'))



if __name__ == '__main__':
    if len(sys.argv) >= 5 and sys.argv[1] == '--worker':
        sys.exit(_worker(sys.argv[2], sys.argv[3], int(sys.argv[4])))
    print('usage: wfcommon.py --worker in.json out.jsonl nworkers', file=sys.stderr)
    sys.exit(2)
