"""setup: translators, make, every extracted driver.  Never fails hard on a
single broken file (checks report that themselves); fails if make is missing."""
import sys
from pathlib import Path
sys.path.insert(0, str(Path(__file__).resolve().parent))
import vf

with vf.Lock():
    errs = vf.run_translators()
    for k, v in errs.items():
        print(f'translator {k} aborted:\n{v}')
    rc, log = vf.make()
    print(log[-3000:])
    for v in sorted((vf.COQ / 'extract').glob('*.v')):
        ok, elog = vf.build_extracted(v.stem)
        print('extract', v.stem, 'ok' if ok else 'FAILED\n' + elog[-2000:])
    bad = vf.forbidden_scan()
    if bad:
        print('forbidden tokens:', bad)
print('setup done rc=%d' % rc)
sys.exit(0)
