"""C15, manager topology: co-simulation of real DetachedServer + Manager objects against the extracted
model coq/rt/SchedTree.v (binary build/bin/sched, commands tinit / ttop / twk / tma / tmb), plus the
property oracle evaluated on the real objects' fields after every event.

Topology: one DetachedServer, len(nws) Managers, manager i with nws[i] simulated workers (the abstract
worker of coq/rt/Sched.v); one FIFO channel per direction per link.  Id ranges are computed as
connect_to_managers / spawn_workers do.  `random` inside bqskit.runtime.base is scripted per event, so the
shuffle and the tie-breaks of the single schedule_tasks call a handler can make are inputs of the event.

Events (lists, same syntax as the driver's line protocol):
  ['ttop', 'csub', [[tid, -1, []]..], sh, rs] | ['ttop', 'ccancel', a] | ['ttop', 'srecv', i, sh, rs]
  ['twk', i, 'wrecv', j, wake] | ['twk', i, 'wfin', j, t] | 'wsub' | 'wmap' | 'wcancel' | 'wdrop' | 'widle'
  ['tma', i, sh, rs]      manager i handles the oldest message from the server
  ['tmb', i, j, sh, rs]   manager i handles the oldest message of its worker j
"""
from __future__ import annotations

import random as pyrandom

D9_SIG = dict(call='cancel', symptom='num_tasks_not_zero_at_quiescence')
D14_SIG = dict(call='send_up_or_schedule_tasks', symptom='update_counts_idle_workers_not_tasks_kept')
D15_SIG = dict(call='tree_quiescent', symptom='idle')


def _c15():
    from props import c15
    return c15


class TreeSim:
    def __init__(self, nws):
        c15 = _c15()
        from bqskit.ir.circuit import Circuit  # noqa: F401  import order
        from bqskit.runtime.base import RuntimeEmployee
        from bqskit.runtime.detached import DetachedServer
        from bqskit.runtime.manager import Manager
        self.nws = list(nws)
        nm = len(nws)
        S = DetachedServer.__new__(DetachedServer)
        S.lower_id_bound, S.upper_id_bound, S.running = 0, int(2 ** 30), True          # ServerBase.__init__
        S.employees, S.conn_to_employee_dict, S.outgoing = [], {}, c15.FakeQueue()
        S.clients, S.tasks, S.mailbox_to_task_dict, S.mailboxes, S.mailbox_counter = {}, {}, {}, {}, 0
        S.step_size = (S.upper_id_bound - S.lower_id_bound) // nm                     # connect_to_managers
        S.total_workers = 0
        self.S, self.M = S, []
        for i, nw in enumerate(nws):
            lb = S.lower_id_bound + i * S.step_size
            ub = min(S.lower_id_bound + (i + 1) * S.step_size, S.upper_id_bound)
            assert lb + nw < ub, 'spawn_workers would refuse: insufficient id range'
            c = c15.Conn(('S', i))
            e = RuntimeEmployee(i, c, nw, is_manager=True)
            S.employees.append(e)
            S.conn_to_employee_dict[c] = e
            S.total_workers += nw
            m = Manager.__new__(Manager)
            m.lower_id_bound, m.upper_id_bound, m.running = lb, ub, True
            m.employees, m.conn_to_employee_dict, m.outgoing = [], {}, c15.FakeQueue()
            m.upstream = c15.Conn(('up', i))
            for j in range(nw):
                cw = c15.Conn((i, j))
                ew = RuntimeEmployee(lb + j, cw, 1)
                m.employees.append(ew)
                m.conn_to_employee_dict[cw] = ew
            m.step_size, m.total_workers, m.num_idle_workers = 1, nw, nw           # spawn_workers
            m.last_num_idle_sent_up, m.most_recent_read_submit = m.total_workers, None   # Manager.__init__
            self.M.append(m)
        S.num_idle_workers = S.total_workers
        self.sm = [[] for _ in nws]
        self.ms = [[] for _ in nws]
        self.mw = [[[] for _ in range(nw)] for nw in nws]
        self.wm = [[[] for _ in range(nw)] for nw in nws]
        self.wk = [[c15.SimWorker(self.M[i].lower_id_bound + j) for j in range(nw)] for i, nw in enumerate(nws)]
        self.seen = set()
        self.submitted = []
        self.slog = []          # [manager, [tids]] of every SUBMIT_BATCH put by the server
        self.wlog = []          # [manager, worker, [tids]] of every SUBMIT_BATCH put by a manager
        self.cancel_used = False
        self.rand = c15.ScriptedRandom()
        # the flat World's worker events, run on the manager <-> worker links
        self.sub = []
        for i, nw in enumerate(nws):
            w = c15.World.__new__(c15.World)
            w.s, w.n, w.lb = self.M[i], nw, self.M[i].lower_id_bound
            w.down, w.up, w.wk = self.mw[i], self.wm[i], self.wk[i]
            w.seen, w.submitted, w.sent, w.cancel_used = self.seen, self.submitted, [], False
            self.sub.append(w)

    # -- plumbing --------------------------------------------------------------
    def flush(self):
        from bqskit.runtime.message import RuntimeMessage as M
        c15 = _c15()
        ss, ws = [], []
        for c, msg, p in self.S.outgoing.drain():
            i = c.idx[1]
            self.sm[i].append((msg, p))
            if msg == M.SUBMIT_BATCH:
                ss.append([i, [c15.encode(t.unique_id) for t in p]])
        for i, m in enumerate(self.M):
            for c, msg, p in m.outgoing.drain():
                if c is m.upstream:
                    self.ms[i].append((msg, p))
                else:
                    j = c.idx[1]
                    self.mw[i][j].append((msg, p))
                    if msg == M.SUBMIT_BATCH:
                        ws.append([i, j, [c15.encode(t.unique_id) for t in p]])
        self.slog += ss
        self.wlog += ws
        return ss, ws

    @staticmethod
    def idle_list(node):
        return [i for i, e in enumerate(node.employees) for _ in range(max(e.num_idle_workers, 0))]

    def sched_enabled(self, node, sh, rs):
        return sorted(self.idle_list(node)) == sorted(sh) and len(rs) == len(node.employees)

    def call(self, sh, rs, fn):
        import bqskit.runtime.base as base
        old = base.random
        self.rand.arm(sh, rs)
        base.random = self.rand
        try:
            fn()
        except Exception as ex:   # noqa  (the model knows AssertionError / RuntimeError / IndexError; anything else is a mismatch too)
            return ('FAULT', type(ex).__name__)
        finally:
            base.random = old
        assert not self.rand.bad
        return ('OK',) + self.flush()

    # -- events (same semantics as SchedTree.tstep) -----------------------------------
    def apply(self, ev):
        """Returns ('OK', server sends, manager sends) | ('DISABLED',) | ('FAULT', name)."""
        from bqskit.runtime.message import RuntimeMessage as M
        from bqskit.runtime.direction import MessageDirection as Dn
        c15 = _c15()
        S, nm = self.S, len(self.nws)
        k = ev[0]
        if k == 'ttop':
            kk = ev[1]
            if kk == 'csub':
                _, _, specs, sh, rs = ev
                ids = [sp[0] for sp in specs]
                if len(set(ids)) != len(ids) or any(i in self.seen for i in ids) or any(sp[1] != -1 for sp in specs):
                    return ('DISABLED',)
                tasks = [self.sub[0].mk_task(sp) for sp in specs]
                if tasks and not self.sched_enabled(S, sh, rs):
                    return ('DISABLED',)
                r = self.call(sh, rs, lambda: S.schedule_tasks(tasks))
                if r[0] == 'OK':
                    for t in ids:
                        self.seen.add(t)
                        self.submitted.append(t)
                return r
            if kk == 'ccancel':
                self.cancel_used = True
                S.broadcast(M.CANCEL, c15.decode(ev[2]))
                return ('OK',) + self.flush()
            if kk == 'srecv':
                _, _, i, sh, rs = ev
                if not (0 <= i < nm) or not self.ms[i]:
                    return ('DISABLED',)
                msg, p = self.ms[i][0]
                if msg in (M.SUBMIT, M.SUBMIT_BATCH):
                    tasks = [p] if msg == M.SUBMIT else p
                    if len(tasks) > 0 and not self.sched_enabled(S, sh, rs):
                        return ('DISABLED',)
                self.ms[i].pop(0)
                return self.call(sh, rs, lambda: S.handle_message(msg, Dn.BELOW, S.employees[i].conn, p))
            return ('DISABLED',)            # a worker event at the top level
        if k == 'twk':
            i, fev = ev[1], list(ev[2:])
            if fev[0] in ('csub', 'ccancel', 'srecv') or not (0 <= i < nm):
                return ('DISABLED',)
            w = self.sub[i]
            r = c15.World.apply(w, fev)
            if w.cancel_used:
                self.cancel_used = True
            return ('OK', [], []) if r[0] == 'OK' else r
        if k == 'tma':
            _, i, sh, rs = ev
            if not (0 <= i < nm) or not self.sm[i]:
                return ('DISABLED',)
            m = self.M[i]
            msg, p = self.sm[i][0]
            if msg == M.SUBMIT_BATCH and len(p) > 0 and not self.sched_enabled(m, sh, rs):
                return ('DISABLED',)
            self.sm[i].pop(0)
            return self.call(sh, rs, lambda: m.handle_message(msg, Dn.ABOVE, m.upstream, p))
        if k == 'tmb':
            _, i, j, sh, rs = ev
            if not (0 <= i < nm) or not (0 <= j < self.nws[i]) or not self.wm[i][j]:
                return ('DISABLED',)
            m = self.M[i]
            msg, p = self.wm[i][j][0]
            if msg in (M.SUBMIT, M.SUBMIT_BATCH):
                tasks = [p] if msg == M.SUBMIT else p
                ni = m.num_idle_workers
                if ni != 0 and len(tasks[:ni]) > 0 and not self.sched_enabled(m, sh, rs):
                    return ('DISABLED',)
            self.wm[i][j].pop(0)
            return self.call(sh, rs, lambda: m.handle_message(msg, Dn.BELOW, m.employees[j].conn, p))
        raise AssertionError(f'unknown event {ev}')

    # -- observation ---------------------------------------------------------------
    def quiescent(self):
        return not any(self.sm) and not any(self.ms) and not any(q for r in self.mw for q in r) \
            and not any(q for r in self.wm for q in r) and all(k.blocked and not k.held for r in self.wk for k in r)

    def state(self):
        c15 = _c15()
        enc = c15.encode
        from bqskit.runtime.message import RuntimeMessage as M

        def dm(m, p):
            if m == M.SUBMIT_BATCH:
                return ['B', [enc(t.unique_id) for t in p]]
            if m == M.RESULT:
                return ['R', p.return_address.worker_id]
            if m == M.CANCEL:
                return ['C', enc(p)]
            raise AssertionError(m)

        def um(m, p):
            if m == M.SUBMIT:
                return ['S', enc(p.unique_id)]
            if m == M.SUBMIT_BATCH:
                return ['SB', [enc(t.unique_id) for t in p]]
            if m == M.WAITING:
                return ['W', p[0], None if p[1] is None else enc(p[1])]
            if m == M.RESULT:
                return ['RES', p.return_address.worker_id, p.completed_by]
            if m == M.UPDATE:
                return ['U', p]
            if m == M.CANCEL:
                return ['C', enc(p)]
            raise AssertionError(m)

        def node(nd):
            return [nd.lower_id_bound, nd.step_size, nd.num_idle_workers, nd.total_workers,
                    [[e.total_workers, e.num_tasks, e.num_idle_workers, [[enc(a), c] for a, c in e.submit_cache]] for e in nd.employees]]
        return c15.fmt([
            node(self.S),
            [[dm(m, p) for m, p in d] for d in self.sm],
            [[um(m, p) for m, p in u] for u in self.ms],
            [[node(m), m.last_num_idle_sent_up, None if m.most_recent_read_submit is None else enc(m.most_recent_read_submit),
              [[dm(a, p) for a, p in d] for d in self.mw[i]],
              [[um(a, p) for a, p in u] for u in self.wm[i]],
              [[None if k.mrrs is None else enc(k.mrrs), [enc(t.unique_id) for t in k.held], k.blocked, [enc(a) for a in k.cancelled]]
               for k in self.wk[i]]] for i, m in enumerate(self.M)],
            self.quiescent(),
        ])

    # -- property oracle, evaluated on the real objects' fields ----------------------
    def oracle(self):
        """List of (signature, expected, observed, what)."""
        from bqskit.runtime.message import RuntimeMessage as M
        enc = _c15().encode
        out = []
        nodes = [('server', self.S)] + [(f'manager {i}', m) for i, m in enumerate(self.M)]
        for name, nd in nodes:
            tot = 0
            for k, e in enumerate(nd.employees):
                tot += e.num_idle_workers
                if not (0 <= e.num_idle_workers <= e.total_workers):
                    out.append((dict(call='tree_idle_bounds'), f'0..{e.total_workers}', e.num_idle_workers, f'{name} employee {k}: idle count out of bounds'))
                if e.num_tasks < 0:
                    out.append((dict(call='tree_num_tasks', symptom='negative'), '>= 0', e.num_tasks, f'{name} employee {k}: task count negative'))
            if nd.num_idle_workers != tot or not (0 <= nd.num_idle_workers <= nd.total_workers):
                out.append((dict(call='tree_idle_sum'), tot, nd.num_idle_workers, f'{name}: idle count is not the sum over employees / out of bounds'))
        truth_m = []
        for i, m in enumerate(self.M):
            # server <-> manager link: read receipts in flight and at the manager are in the boss's cache
            e = self.S.employees[i]
            addrs = [a for a, _ in e.submit_cache]
            for r in [p[1] for a, p in self.ms[i] if a == M.WAITING] + [m.most_recent_read_submit]:
                if r is not None and r not in addrs:
                    out.append((dict(call='tree_read_receipt', link='server-manager'), 'receipt in submit_cache', enc(r),
                                f'manager {i}: a read receipt in flight is not in the server\'s submit cache'))
            for a, p in self.ms[i]:
                if a == M.WAITING and not (0 <= p[0] <= e.total_workers):
                    out.append((dict(call='tree_waiting_payload'), f'0..{e.total_workers}', p[0], f'manager {i} reports an idle count outside its size'))
            tm = 0
            for j, ew in enumerate(m.employees):
                wk = self.wk[i][j]
                in_down = sum(len(p) for a, p in self.mw[i][j] if a == M.SUBMIT_BATCH)
                compl = sum(1 for a, p in self.wm[i][j] if a in (M.RESULT, M.UPDATE))
                truth = in_down + len(wk.held) + compl
                tm += truth
                # a manager manages its workers directly: the flat ground-truth relations must hold
                if (not self.cancel_used and ew.num_tasks != truth) or ew.num_tasks < truth:
                    out.append((dict(call='tree_num_tasks', symptom='differs_from_ground_truth', level='manager'), truth, ew.num_tasks,
                                f'manager {i} employee {j}: num_tasks differs from tasks in flight + held + completions in flight'))
                wa = [a for a, _ in ew.submit_cache]
                for r in [p[1] for a, p in self.wm[i][j] if a == M.WAITING] + [wk.mrrs]:
                    if r is not None and r not in wa:
                        out.append((dict(call='tree_read_receipt', link='manager-worker'), 'receipt in submit_cache', enc(r),
                                    f'manager {i} worker {j}: a read receipt in flight is not in the manager\'s submit cache'))
                if wk.blocked and not any(a == M.WAITING for a, p in self.wm[i][j]):
                    want = 0 if any(a == M.SUBMIT_BATCH for a, p in self.mw[i][j]) else 1
                    if ew.num_idle_workers != want:
                        out.append((dict(call='tree_idle_exact', level='manager'), want, ew.num_idle_workers,
                                    f'manager {i} employee {j}: blocked worker, WAITING processed, but the manager believes otherwise'))
            # server's count for manager i never below what the manager's subtree still owes it
            tm += sum(len(p) for a, p in self.sm[i] if a == M.SUBMIT_BATCH)
            tm += sum(1 for a, p in self.ms[i] if a == M.RESULT or (a == M.UPDATE and p < 0))
            kept_pending = sum(p for a, p in self.ms[i] if a == M.UPDATE and p > 0)
            truth_m.append(tm)
            if e.num_tasks + kept_pending < tm:
                out.append((dict(call='tree_num_tasks', symptom='below_ground_truth', level='server'), f'>= {tm}', e.num_tasks + kept_pending,
                            f'server employee {i}: num_tasks (+ announced keeps in flight) below the tasks its subtree holds'))
        # every task forwarded to exactly one worker through the tree
        wl = [t for _, _, ts in self.wlog for t in ts]
        in_sm = [enc(t.unique_id) for d in self.sm for a, p in d if a == M.SUBMIT_BATCH for t in p]
        pend = [enc(t.unique_id) for u in self.ms + [q for r in self.wm for q in r] for a, p in u if a in (M.SUBMIT, M.SUBMIT_BATCH)
                for t in ([p] if a == M.SUBMIT else p)]
        if len(set(wl)) != len(wl) or sorted(wl + in_sm + pend) != sorted(self.submitted) \
                or any(not ts for _, ts in self.slog) or any(not ts for _, _, ts in self.wlog):
            out.append((dict(call='tree_assign_once'), 'every submitted task forwarded to exactly one worker, no empty batch',
                        dict(to_workers=self.wlog, at_managers=in_sm, pending=pend, submitted=self.submitted), 'task lost, duplicated or empty batch sent'))
        if self.quiescent():
            for i, m in enumerate(self.M):
                for j, ew in enumerate(m.employees):
                    if ew.num_idle_workers != 1:
                        out.append((dict(call='tree_quiescent', symptom='idle', level='manager'), 1, ew.num_idle_workers,
                                    f'manager {i} employee {j}: worker not believed idle at quiescence'))
                    if ew.num_tasks != 0:
                        sig = dict(D9_SIG) if self.cancel_used else dict(call='tree_quiescent', symptom='num_tasks', level='manager')
                        out.append((sig, 0, ew.num_tasks, f'manager {i} employee {j}: num_tasks not zero at quiescence'))
                e = self.S.employees[i]
                if e.num_idle_workers != e.total_workers:
                    out.append((dict(D15_SIG), e.total_workers, e.num_idle_workers,
                                f'server employee {i} (a manager): not believed idle at quiescence'))
                if e.num_tasks != 0:
                    sig = dict(D9_SIG) if self.cancel_used else dict(D14_SIG)
                    out.append((sig, 0, e.num_tasks, f'server employee {i} (a manager): num_tasks not zero at quiescence'))
        return out


# --------------------------------------------------------------------------
# running event lists on both sides
# --------------------------------------------------------------------------
def ev_line(ev) -> str:
    fmt = _c15().fmt
    return ' '.join(fmt(x) if isinstance(x, (list, tuple)) else str(x) for x in ev)


def model_lines(nws, events):
    return ['tinit ' + _c15().fmt(nws)] + [ev_line(e) for e in events]


def run_impl(nws, events, stop_on_fault=True):
    fmt = _c15().fmt
    w = TreeSim(nws)
    trace = [('OK ' + w.state() + ' [] []', w.oracle())]
    for ev in events:
        r = w.apply(ev)
        if r[0] == 'OK':
            trace.append(('OK ' + w.state() + ' ' + fmt(r[1]) + ' ' + fmt(r[2]), w.oracle()))
        elif r[0] == 'DISABLED':
            trace.append(('DISABLED', []))
        else:
            trace.append(('FAULT ' + r[1], [(dict(call='tree_handler', symptom=r[1]), 'no exception', r[1],
                                              'a server / manager handler raised (the runtime would shut down)')]))
            if stop_on_fault:
                break
    return trace, w


def has_finding(nws, events, sig):
    try:
        tr, _ = run_impl(nws, events)
    except Exception:   # noqa
        return False
    return all(l != 'DISABLED' for l, _ in tr) and any(s == sig for _, fs in tr for s, _, _, _ in fs)


def shrink(nws, events, sig, limit=250):
    try:        # events that were not enabled change nothing: drop them first
        tr, _ = run_impl(nws, events)
        events = [e for e, (l, _) in zip(events, tr[1:]) if l != 'DISABLED']
    except Exception:   # noqa
        pass
    cur, tries, i = list(events), 0, len(events) - 1
    while i >= 0 and tries < limit:
        cand = cur[:i] + cur[i + 1:]
        tries += 1
        if has_finding(nws, cand, sig):
            cur = cand
        i -= 1
    return cur


def check_case(ctx, nws, events, model_out, shrink_new=True):
    """Oracle findings + line-by-line comparison with the model's answers (None = model unavailable)."""
    trace, w = run_impl(nws, events)
    bad = mismatch = False
    for i, (line, findings) in enumerate(trace):
        for sig, exp, obs, what in findings:
            if sig == D14_SIG or sig == D15_SIG:
                # the boss's belief about a MANAGER (not about directly managed workers): C15 as worded claims exactness only
                # for a node that manages its workers directly, so these are observations (fixes/D14.md, fixes/D15.md; the
                # Coq witnesses C15_tree_num_tasks_refuted_witness / C15_tree_idle_refuted_witness), not violations
                key = 'obs_boss_num_tasks_about_manager_drifts(D14)' if sig == D14_SIG else 'obs_boss_idle_about_manager_stale(D15)'
                ctx.cov.setdefault('manager_level_observations', {}).setdefault(key, 0)
                ctx.cov['manager_level_observations'][key] += 1
                continue
            evs = events[:i]
            known = ctx._match_known(sig) is not None or any(v['signature'] == sig for v in ctx.violations)
            if not known and shrink_new:
                evs = shrink(nws, evs, sig)
            if ctx.violation(sig, dict(nws=list(nws), events=evs), exp, obs, what + ' [manager topology]'):
                bad = True
        if model_out is not None and not mismatch and i < len(model_out) and model_out[i] != line:
            pe = events[i - 1] if i else ['init']
            label = pe[0] if pe[0] in ('init', 'tma', 'tmb') else pe[0] + ':' + str(pe[1] if pe[0] == 'ttop' else pe[2])
            ctx.violation(dict(call='tree-model-mismatch', event=label),
                          dict(nws=list(nws), events=events[:i]), model_out[i], line,
                          'Coq model of the manager topology and the real Manager/DetachedServer objects disagree after this event list',
                          kind='correspondence', corr='coq/rt/SchedTree.v vs bqskit/runtime/manager.py, base.py, detached.py')
            bad = mismatch = True
    return bad, w


# --------------------------------------------------------------------------
# random schedules on the tree
# --------------------------------------------------------------------------
class TreeGen:
    def __init__(self, rng, nws, cancels, adversarial, budget):
        self.rng, self.nws, self.cancels, self.adv, self.budget = rng, list(nws), cancels, adversarial, budget
        self.w = TreeSim(nws)
        self.events = []
        self.mbox, self.prog, self.kids, self.parent = {}, {}, {}, {}

    def new_ids(self, owner, k):
        m = self.mbox.get(owner, 0)
        self.mbox[owner] = m + 1
        return [(owner + 1) * 10000 + m * 10 + s for s in range(k)]

    def oracle_args(self, node):
        idle = TreeSim.idle_list(node)
        self.rng.shuffle(idle)
        return idle, [self.rng.randrange(0, 4) for _ in node.employees]

    def plan(self, tid, depth):
        ops = []
        if depth < 2 and self.budget > 0 and self.rng.random() < 0.6:
            for _ in range(self.rng.randint(1, 2)):
                ops.append('map' if self.rng.random() < 0.7 else 'sub')
        self.prog[tid] = ops
        self.kids[tid] = 0

    def enabled(self):
        enc = _c15().encode
        w, evs = self.w, []
        if self.budget > 0:
            evs.append(('csub',))
        for i, nw in enumerate(self.nws):
            if w.sm[i]:
                evs += [('tma', i)] * 3
            if w.ms[i]:
                evs += [('srecv', i)] * 3
            for j in range(nw):
                if w.mw[i][j]:
                    evs += [('wrecv', i, j)] * 3
                if w.wm[i][j]:
                    evs += [('tmb', i, j)] * 3
                k = w.wk[i][j]
                if k.blocked:
                    continue
                runnable = False
                for t in k.held:
                    tid = enc(t.unique_id)
                    if any(t.is_descendant_of(a) for a in k.cancelled):
                        evs.append(('wdrop', i, j, tid))
                        continue
                    if self.prog.get(tid):
                        evs.append(('spawn', i, j, tid))
                        runnable = True
                    elif self.kids.get(tid, 0) == 0 or self.adv:
                        evs.append(('wfin', i, j, tid))
                        runnable = True
                if not runnable or (self.adv and self.rng.random() < 0.3):
                    evs += [('widle', i, j)] * 2
                if self.cancels and k.held and self.rng.random() < 0.15:
                    evs.append(('wcancel', i, j))
        if self.cancels and w.submitted and self.rng.random() < 0.1:
            evs.append(('ccancel',))
        return evs

    def malformed(self):
        rng, nm = self.rng, len(self.nws)
        i = rng.randrange(0, nm + 1)
        j = rng.randrange(0, 4)
        k = rng.choice(['tma', 'tmb', 'srecv', 'wrecv', 'wfin', 'widle', 'csub', 'tma_badsh', 'top_worker', 'wk_top'])
        if k == 'tma':
            return ['tma', i, [], [0] * (self.nws[i] if i < nm else 1)]
        if k == 'tma_badsh':
            i = rng.randrange(0, nm)
            return ['tma', i, [0] * (self.nws[i] + 1), [0] * self.nws[i]]
        if k == 'tmb':
            return ['tmb', i, j, [], [0] * (self.nws[i] if i < nm else 1)]
        if k == 'srecv':
            return ['ttop', 'srecv', i, [], [0] * nm]
        if k == 'wrecv':
            return ['twk', i, 'wrecv', j, 0]
        if k == 'wfin':
            return ['twk', i, 'wfin', j, rng.choice(self.w.submitted) if self.w.submitted else 10]
        if k == 'widle':
            return ['twk', i, 'widle', j]
        if k == 'top_worker':
            return ['ttop', 'widle', 0]
        if k == 'wk_top':
            return ['twk', 0, 'ccancel', 10]
        t = rng.choice(self.w.submitted) if self.w.submitted else 5
        return ['ttop', 'csub', [[t, -1, []]], [], [0] * nm]

    def draw(self):
        from bqskit.runtime.message import RuntimeMessage as M
        enc = _c15().encode
        rng, w = self.rng, self.w
        if rng.random() < 0.1:
            return self.malformed()
        evs = self.enabled()
        if not evs:
            return None
        c = rng.choice(evs)
        k = c[0]
        nm = len(self.nws)
        tot = sum(self.nws)
        if k == 'csub':
            kk = rng.choice([1, 1, 2, 3, tot, tot + 1, tot + 2])
            kk = max(1, min(kk, self.budget))
            ids = [t for _ in range(kk) for t in self.new_ids(-1, 1)]
            self.budget -= kk
            for t in ids:
                self.plan(t, 0)
            sh, rs = self.oracle_args(w.S)
            return ['ttop', 'csub', [[t, -1, []] for t in ids], sh, rs]
        if k == 'srecv':
            sh, rs = self.oracle_args(w.S)
            return ['ttop', 'srecv', c[1], sh, rs]
        if k == 'tma':
            sh, rs = self.oracle_args(w.M[c[1]])
            return ['tma', c[1], sh, rs]
        if k == 'tmb':
            sh, rs = self.oracle_args(w.M[c[1]])
            return ['tmb', c[1], c[2], sh, rs]
        if k == 'ccancel':
            return ['ttop', 'ccancel', rng.choice(w.submitted)]
        i, j = c[1], c[2]
        wk = w.wk[i][j]
        if k == 'wrecv':
            msg, payload = w.mw[i][j][0]
            wake = False
            if msg == M.RESULT:
                p = self.parent.get(getattr(payload, '_child', None))
                if p is not None and self.kids.get(p, 0) > 0:
                    self.kids[p] -= 1
                    wake = self.kids[p] == 0
                if self.adv:
                    wake = rng.random() < 0.5
            return ['twk', i, 'wrecv', j, int(wake)]
        if k == 'spawn':
            tid = c[3]
            op = self.prog[tid].pop(0)
            nk = 1 if op == 'sub' else rng.choice([1, 2, 3, self.nws[i], self.nws[i] + 1])
            nk = max(1, min(nk, max(self.budget, 1)))
            self.budget -= nk
            ids = self.new_ids(wk.wid, nk)
            held = [t for t in wk.held if enc(t.unique_id) == tid][0]
            anc = [enc(a) for a in held.breadcrumbs] + [tid]
            for t in ids:
                self.plan(t, len(anc))
                self.parent[t] = tid
            self.kids[tid] += nk
            specs = [[t, wk.wid, anc] for t in ids]
            return ['twk', i, 'wsub', j, specs[0]] if op == 'sub' else ['twk', i, 'wmap', j, specs]
        if k == 'wfin':
            tid = c[3]
            p = self.parent.get(tid)
            if p is not None and tid // 10000 - 1 == wk.wid and self.kids.get(p, 0) > 0:
                self.kids[p] -= 1
            return ['twk', i, 'wfin', j, tid]
        if k == 'wcancel':
            t = rng.choice(wk.held)
            return ['twk', i, 'wcancel', j, rng.choice([enc(t.unique_id)] + [enc(a) for a in t.breadcrumbs])]
        if k == 'wdrop':
            return ['twk', i, 'wdrop', j, c[3]]
        if k == 'widle':
            return ['twk', i, 'widle', j]
        raise AssertionError(c)

    def run(self, max_events):
        while len(self.events) < max_events:
            ev = self.draw()
            if ev is None:
                break
            r = self.w.apply(ev)
            self.events.append(ev)
            if r[0] == 'FAULT':
                break
        return self.events


# witnesses of the refuted exactness statements (coq/rt/SchedTreeThm.v d14_witness / d15_witness), also in corpus/C15
def T(tid, ret, anc=()):
    return [tid, ret, list(anc)]
