"""Module-level callables used inside pickled Workflows (C16)."""


def keep_smaller(new_circuit, old_op):
    return new_circuit.num_operations <= 4


def accept(old_circuit, new_circuit):
    return True


def pick_first(circuits_and_data):
    return 0
