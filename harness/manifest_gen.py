"""Writes MANIFEST.json from harness/manifest_data.py (single source of truth)."""
import json, sys
from pathlib import Path
sys.path.insert(0, str(Path(__file__).resolve().parent))
from manifest_data import CHECKS, NOT_APPLICABLE, HOOK_COMMITS

ROOT = Path(__file__).resolve().parent.parent
base = json.loads(Path('/root/.vp/BASELINE.json').read_text()) if Path('/root/.vp/BASELINE.json').exists() else {}
m = dict(
    version=1,
    setup_cmd='bash /verif/setup.sh',
    hooks=dict(
        guard='BQSKIT_VERIF',
        enable='no source hooks are needed; checks export BQSKIT_VERIF=1 for uniformity (harness drives real classes through __new__, fake connections, sys.settrace and monkeypatching)',
        baseline_off_cmd='cd /repo && env -u BQSKIT_VERIF /venv/bin/python -m pytest -ra -q -p no:cacheprovider --timeout=900 --continue-on-collection-errors',
        source_commits=HOOK_COMMITS,
        add_only=True,
    ),
    engines=[dict(name='rocq', path='/verif/coq', serves_properties=[c['property_id'] for c in CHECKS],
                  kind_free_text='Coq 8.16.1 development (models, theorems, generated files) + ExtrOcamlBasic extraction + python correspondence harness')],
    checks=[],
    notes='See DESIGN.md. Every check rebuilds gen/*.v from /repo, re-runs make, re-checks Print Assumptions, then runs the correspondence and the property oracle against the live implementation.',
    not_applicable=NOT_APPLICABLE,
)
for c in CHECKS:
    pid = c['property_id']
    m['checks'].append(dict(
        property_id=pid,
        quick_cmd=f'./check {pid} --tier quick',
        thorough_cmd=f'./check {pid} --tier thorough',
        evidence_file=f'/verif/evidence/{pid}.json',
        replay_cmd_template=f'./check {pid} --replay {{path}}',
        engine='rocq',
        level_claimed=dict(category='proof', text=c['text'], design_ref=c.get('design_ref', 'DESIGN.md section 4 ' + pid)),
        level_note=c['note'],
        technique=c['technique'],
    ))
(ROOT / 'MANIFEST.json').write_text(json.dumps(m, indent=1) + '\n')
print('wrote MANIFEST.json with', len(CHECKS), 'checks;', len(NOT_APPLICABLE), 'not claimed')
