"""Float evaluator for the S-expressions printed by coq/lib/Expr.v (rprint/cprint).

Trusted: this is the bridge between the Coq transcription of a gate and numbers that
can be compared with get_unitary/get_grad.  Grammar (see Expr.v):
  real:    (q n d) | pi | (sqrt n) | (v k) | (+ a b) | (* a b) | (- a) | (cos a) | (sin a)
  complex: (r real) | i | (c+ a b) | (c* a b) | (c- a) | (cis real) | (conj a)
  matrix:  ((e00 e01 ...) (e10 ...) ...)
Evaluation is vectorised over sample points: `v` is an array of shape (nparams, npts);
every distinct sub-expression is evaluated once per matrix (hash-consing).
"""
from __future__ import annotations

import math
import re

import numpy as np

_TOK = re.compile(r'[()]|[^\s()]+')


def parse(text: str):
    """S-expression -> nested tuples of str (shared: equal sub-terms are one object)."""
    pool: dict = {}
    stack: list[list] = [[]]
    for t in _TOK.findall(text):
        if t == '(':
            stack.append([])
        elif t == ')':
            node = tuple(stack.pop())
            stack[-1].append(pool.setdefault(node, node))
        else:
            stack[-1].append(t)
    if len(stack) != 1 or len(stack[0]) != 1:
        raise ValueError('malformed S-expression')
    return stack[0][0]


def evaluator(v: np.ndarray):
    """Returns ev(node) evaluating a real or complex node at all sample points."""
    npts = v.shape[1] if v.ndim == 2 else 1
    one = np.ones(npts)
    memo: dict[int, np.ndarray] = {}

    def ev(n):
        if n == 'pi':
            return math.pi * one
        if n == 'i':
            return 1j * one
        k = id(n)
        if k in memo:
            return memo[k]
        h = n[0]
        if h == 'q':
            r = (int(n[1]) / int(n[2])) * one
        elif h == 'sqrt':
            r = math.sqrt(int(n[1])) * one
        elif h == 'v':
            r = v[int(n[1])]
        elif h == '+' or h == 'c+':
            r = ev(n[1]) + ev(n[2])
        elif h == '*' or h == 'c*':
            r = ev(n[1]) * ev(n[2])
        elif h == '-' or h == 'c-':
            r = -ev(n[1])
        elif h == 'cos':
            r = np.cos(ev(n[1]))
        elif h == 'sin':
            r = np.sin(ev(n[1]))
        elif h == 'r':
            r = ev(n[1]).astype(np.complex128)
        elif h == 'cis':
            x = ev(n[1])
            r = np.cos(x) + 1j * np.sin(x)
        elif h == 'conj':
            r = np.conj(ev(n[1]))
        else:
            raise ValueError(f'unknown head {h!r}')
        memo[k] = r
        return r
    return ev


def eval_matrix(tree, v: np.ndarray) -> np.ndarray:
    """tree: parsed matrix; v: (nparams, npts) -> array (npts, n, n) complex."""
    ev = evaluator(v)
    npts = v.shape[1]
    n = len(tree)
    out = np.empty((npts, n, n), dtype=np.complex128)
    for i, row in enumerate(tree):
        for j, e in enumerate(row):
            out[:, i, j] = ev(e)
    return out
