"""C07 (tree extension) - co-simulation of coq/rt/TreeNet.v with the REAL DetachedServer / Manager classes.

The model (coq/rt/TreeNet.v, extracted by coq/extract/treenet.v, line protocol coq/extract/treenet_driver.ml)
describes how SUBMIT / SUBMIT_BATCH / RESULT messages travel in a tree  DetachedServer -> Managers (any depth)
-> workers.  This module drives, in one process and without sockets:

  * a real `DetachedServer` (built with `__new__`) at the root and a real `Manager` for EVERY internal node of a
    randomly drawn tree shape (flat / 2 levels / 3 levels / mixed depth, unequal fan-outs).  The id ranges, step
    sizes and employee lists are produced by the REAL `ServerBase.connect_to_managers` / `connect_to_workers`
    (only `connect_to_manager`, `sel` and `base.Listener` are replaced by fakes) and cross-checked node by node
    against the model (`nodeat`, `workerat`);
  * stub workers at the leaves, which send RESULT / SUBMIT / SUBMIT_BATCH (and, outside the model, WAITING)
    upward and record what they receive;
  * a fake client whose submissions go through the real `DetachedServer.handle_message(SUBMIT, CLIENT, ..)`
    -> `handle_new_comp_task` -> `schedule_tasks([task])`.

Every link has one FIFO channel per direction.  An event = inject a message / deliver the oldest message of a
random non-empty channel to the REAL `handle_message` of the receiving node (then drain its `outgoing`) / let a
stub worker receive.  For every delivered SUBMIT / SUBMIT_BATCH / RESULT the oracles of the model are OBSERVED on
the real node (`num_idle_workers` before the call, the return value of the wrapped `assign_tasks`) and the same
event is replayed in the extracted model; after EVERY event the per-channel FIFO content (kind, ghost ids,
destination worker id, completed_by), what workers / client mailboxes received and the raised exceptions are
compared.  UPDATE / WAITING messages are delivered to the real nodes too but are not part of the comparison.
After the random phase the channels are drained; the model's `measure` must strictly decrease at every
deliver / worker-receive event.  Finally an oracle that does not use the model checks the real run: each RESULT
reached exactly the stub worker named in its return address (or the server mailbox it names) exactly once, each
task reached exactly one stub worker exactly once, no handler raised.

API
    run_tree(ctx, ncases) -> bool      generate and run `ncases` cases from ctx.rng; True if a violation was reported
    replay_tree(ctx, case) -> bool     re-run one case  dict(kind='tree', shape=<nested list>, seed=<int>, nevents=<int>)
    run_case(case) -> dict             (findings, stats) of one case, no ctx needed
The extracted driver `treenet` must have been built (BUILD['extracted'] += ['treenet'] in harness/props/c07.py).
"""
from __future__ import annotations

import random
import time
import traceback
import uuid

import vf

MODELLED = ('SUBMIT', 'SUBMIT_BATCH', 'RESULT')
EXN_NAME = {'RuntimeError': 'RuntimeError', 'AssertionError': 'AssertionError', 'IndexError': 'IndexError',
            'ZeroDivisionError': 'ZeroDiv'}


def fmt(x) -> str:
    """the value syntax of coq/extract/common.ml (`show`)"""
    if isinstance(x, (list, tuple)):
        return '[' + ' '.join(fmt(y) for y in x) + ']'
    return str(x)


def _body():      # the function of every RuntimeTask made here (never run)
    return None


class FakeCT:
    """Stands for a CompilationTask handed to DetachedServer.handle_new_comp_task."""

    def __init__(self):
        self.task_id = uuid.uuid4()
        self.logging_level = 30
        self.max_logging_depth = -1


class Conn:
    """One end of a link.  path = path of the LOWER endpoint of the link; end = 'boss' (held by the upper node,
    it is employee.conn) | 'up' (held by the lower node, it is manager.upstream) | 'client'."""

    def __init__(self, path, end, recv=None):
        self.path, self.end, self.closed, self._recv = path, end, False, recv

    def send(self, m):
        raise AssertionError('handlers must use self.outgoing')

    def recv(self):
        return self._recv()

    def close(self):
        self.closed = True


class FakeQueue:
    def __init__(self):
        self.items = []

    def put(self, x):
        self.items.append(x)

    def drain(self):
        it, self.items = self.items, []
        return it


class FakeSel:
    def register(self, *a):
        pass

    def unregister(self, *a):
        pass

    def close(self):
        pass


class Stub:
    """A worker: sends what the schedule tells it to, records what it receives."""

    def __init__(self, path, wid):
        self.path, self.wid = path, wid
        self.mrrs = None            # unique_id of the first task of the latest batch received (read receipt)


class Tree:
    """The real nodes of one case + the channels."""

    def __init__(self, shape):
        from bqskit.ir.circuit import Circuit  # noqa: F401  (import order)
        from bqskit.runtime.detached import DetachedServer
        self.shape = shape
        self.nodes = {}             # path -> real node
        self.stubs = {}             # path -> Stub
        self.chan = {}              # (path, 'U'|'D') -> [(msg, payload, canon|None, text)]   non-empty lists only
        self.asg_calls = []
        self.client_tid = {}        # server mailbox id -> ghost task id
        self.client_log = []
        S = DetachedServer.__new__(DetachedServer)
        self._base_init(S, ())
        S.lower_id_bound, S.upper_id_bound = 0, int(2 ** 30)          # ServerBase.__init__
        S.clients, S.tasks, S.mailbox_to_task_dict, S.mailboxes, S.mailbox_counter = {}, {}, {}, {}, 0
        self.client = Conn((), 'client')
        S.clients[self.client] = set()
        self.server = S
        self._populate(S, shape, ())

    # ---- construction: the real connect_to_managers / connect_to_workers decide ranges and ids
    def _base_init(self, node, path):
        node.running = True
        node.sel = FakeSel()
        node.employees, node.conn_to_employee_dict, node.outgoing = [], {}, FakeQueue()
        node.c07_path = path
        self.nodes[path] = node
        real = node.assign_tasks

        def wrapped(tasks, _real=real, _node=node):
            out = _real(tasks)
            self.asg_calls.append((_node, list(tasks), out))
            return out
        node.assign_tasks = wrapped

    def _populate(self, node, shape, path):
        import bqskit.runtime.base as base
        from bqskit.runtime.base import ServerBase
        from bqskit.runtime.manager import Manager
        from bqskit.runtime.message import RuntimeMessage as M
        if shape[0] == 'L':
            n = shape[1]
            made = []

            class FakeListener:
                def __init__(self_l, *a, **k):
                    pass

                def accept(self_l):
                    j = len(made)
                    c = Conn(path + (j,), 'boss')
                    # the worker echoes the id its boss told it in the STARTED message
                    c._recv = lambda c=c: next((m, p) for cc, m, p in node.outgoing.items if cc is c and m == M.STARTED)
                    made.append(c)
                    return c

                def close(self_l):
                    pass
            old = base.Listener
            base.Listener = FakeListener
            try:
                ServerBase.connect_to_workers(node, n, 0)
            finally:
                base.Listener = old
            node.outgoing.drain()
            for j, e in enumerate(node.employees):
                self.stubs[path + (j,)] = Stub(path + (j,), e.id)
        else:
            kids = shape[1:]

            def connect_to_manager(ip, port, lb, ub, _kids=kids):
                i = port
                m = Manager.__new__(Manager)
                self._base_init(m, path + (i,))
                m.upstream = Conn(path + (i,), 'up')
                m.lower_id_bound, m.upper_id_bound = lb, ub            # Manager.__init__: CONNECT payload
                self._populate(m, _kids[i], path + (i,))
                m.last_num_idle_sent_up = m.total_workers              # Manager.__init__
                m.most_recent_read_submit = None
                return Conn(path + (i,), 'boss', recv=lambda: (M.STARTED, m.total_workers))
            node.connect_to_manager = connect_to_manager
            ServerBase.connect_to_managers(node, [('x', i) for i in range(len(kids))])
            del node.connect_to_manager

    # ---- ghost ids recovered from the real objects
    def tid_of(self, task) -> int:
        ra = task.return_address
        return self.client_tid[ra.mailbox_index] if ra.worker_id == -1 else ra.mailbox_index

    def canon(self, msg, payload):
        n = msg.name
        if n == 'RESULT':
            return ['R', payload.result[1], payload.return_address.worker_id, payload.completed_by]
        if n == 'SUBMIT':
            return ['B', 1, [self.tid_of(payload)]]
        if n == 'SUBMIT_BATCH':
            return ['B', 0, [self.tid_of(t) for t in payload]]
        return None

    def put(self, key, msg, payload):
        c = self.canon(msg, payload)
        self.chan.setdefault(key, []).append((msg, payload, c, None if c is None else fmt(c)))

    def flush(self, node):
        up = getattr(node, 'upstream', None)
        for c, msg, p in node.outgoing.drain():
            if c is up:
                self.put((node.c07_path, 'U'), msg, p)
            elif c.end == 'boss':
                self.put((c.path, 'D'), msg, p)
            else:
                self.client_log.append((msg.name, p))

    def pop(self, key):
        q = self.chan[key]
        x = q.pop(0)
        if not q:
            del self.chan[key]
        return x

    def view(self) -> str:
        """modelled messages per channel, FIFO order, channels sorted by (path, U before D) - the text of the driver's
        brief `chan` field"""
        out = []
        for key in sorted(self.chan, key=lambda k: (k[0], k[1] != 'U')):
            ms = [t for _, _, _, t in self.chan[key] if t is not None]
            if ms:
                out.append('[[%s] %s [%s]]' % (' '.join(map(str, key[0])), key[1], ' '.join(ms)))
        return '[' + ' '.join(out) + ']'

    def boss_conn(self, path):
        return self.nodes[path[:-1]].employees[path[-1]].conn


def prepare(case: dict):
    """The REAL run of one case.  -> (model script lines, finish) where finish(model answers) -> dict(findings, stats)
    compares with the model and runs the oracle."""
    import bqskit.runtime.base as base
    old_random = base.random
    base.random = random.Random(case['seed'] ^ 0x5bd1e995)        # shuffle / tie-breaks of every node follow the seed
    try:
        return _prepare(case)
    except Exception:
        res = dict(findings=[dict(sig={'call': 'harness', 'symptom': 'tree-machinery-raised'}, what='tree co-simulation raised',
                                  expected='a completed run', observed=traceback.format_exc()[-1500:])], stats={})
        return [], (lambda out: res)
    finally:
        base.random = old_random


def run_case(case: dict) -> dict:
    """Real run first (events recorded), then the same events in the extracted model, then the oracle."""
    lines, finish = prepare(case)
    return _finish(finish, vf.run_model('treenet', lines) if lines else [])


def _finish(finish, out) -> dict:
    try:
        return finish(out)
    except Exception:
        return dict(findings=[dict(sig={'call': 'harness', 'symptom': 'tree-machinery-raised'}, what='tree comparison raised',
                                   expected='a completed run', observed=traceback.format_exc()[-1500:])], stats={})


def _prepare(case: dict):
    from bqskit.runtime.address import RuntimeAddress
    from bqskit.runtime.direction import MessageDirection as D
    from bqskit.runtime.message import RuntimeMessage as M
    from bqskit.runtime.result import RuntimeResult
    from bqskit.runtime.task import RuntimeTask
    rng = random.Random(case['seed'])
    shape, nevents = case['shape'], case['nevents']
    W = Tree(shape)
    S = W.server
    findings = []
    stats = dict(events=0, model_events=0, injres=0, injbatch=0, root=0, deliver=0, wrecv=0, wwait=0, other_msgs=0,
                 split=0, far=0, max_hops=0, results=0, tasks=0, client_results=0, drain=0)

    def add(sig, what, expected, observed):
        findings.append(dict(sig=sig, what=what, expected=expected, observed=observed))

    # ---- model script: set-up checks
    lines = ['init ' + fmt(shape), 'brief 1']
    expect = ['OK', 'OK']            # expected answer (exact, or prefix when it ends with ' measure ')
    descr = ['init', 'brief']
    for path in sorted(W.nodes):
        nd = W.nodes[path]
        lines.append('nodeat ' + fmt(list(path)))
        expect.append('%d %d %d %d' % (nd.lower_id_bound, nd.upper_id_bound, nd.step_size, len(nd.employees)))
        descr.append('node-range')
    for path in sorted(W.stubs):
        lines.append('workerat ' + fmt(list(path)))
        expect.append(str(W.stubs[path].wid))
        descr.append('worker-id')
    nsetup = len(lines)
    is_step = [False] * nsetup      # deliver / wrecv model events (the measure must decrease)

    stubs = [W.stubs[p] for p in sorted(W.stubs)]
    by_id = {s.wid: s for s in stubs}
    if len(by_id) != len(stubs):
        add({'call': 'connect_to_workers', 'symptom': 'duplicate-worker-id'}, 'two workers of the tree got the same id',
            'distinct ids', sorted(s.wid for s in stubs))
    next_id = [0]
    open_boxes = []                 # server mailboxes without a result yet
    res_sent = {}                   # rid -> ('w', id) | ('c', mailbox)
    res_recv = {}                   # rid -> [worker ids that received it]
    res_up, res_down = {}, {}       # rid -> number of upward / downward deliveries
    task_sent = {}                  # tid -> sender ('w', id) | ('c',)
    task_recv = {}                  # tid -> [worker ids]
    inbox_all, client_all, err_all = [], [], []
    pending_exc = []                # (model line index, finding) reported unless the model predicts the same error

    def fresh():
        next_id[0] += 1
        return next_id[0]

    def model_event(line, what, inbox=(), client=(), err=(), step=False):
        lines.append(line)
        expect.append('OK chan %s inbox %s client %s err %s measure ' % (W.view(), fmt(list(inbox)), fmt(list(client)), fmt(list(err))))
        descr.append(what)
        is_step.append(step)
        inbox_all.extend(inbox)
        client_all.extend(client)
        err_all.extend(err)
        stats['model_events'] += 1

    def pick_dest(src):
        others = [w for w in stubs if w is not src]
        if not others:
            return src
        far = [w for w in others if w.path[:1] != src.path[:1]]
        mid = [w for w in others if w.path[:1] == src.path[:1] and w.path[:-1] != src.path[:-1]]
        near = [w for w in others if w.path[:-1] == src.path[:-1]]
        r = rng.random()
        pool = far if (far and r < 0.6) else mid if (mid and r < 0.8) else near if (near and r < 0.9) else others
        return rng.choice(pool)

    def new_task(wid):
        tid = fresh()
        task_sent[tid] = ('w', wid)
        return RuntimeTask((_body, (), {}), RuntimeAddress(wid, tid, 0), 0, ())

    def inject():
        r = rng.random()
        if r < 0.15:
            # a client submits a compilation task: handle_new_comp_task -> schedule_tasks([task])
            tid = fresh()
            mb = S.mailbox_counter
            W.client_tid[mb] = tid
            task_sent[tid] = ('c',)
            W.asg_calls.clear()
            exc = call(S, M.SUBMIT, D.CLIENT, W.client, FakeCT())
            open_boxes.append(mb)
            asg = observed_asg(S)
            model_event('root %s %s' % (fmt([tid]), fmt(asg)), 'root', err=exc_entry(S, exc))
            note_exc(exc, S, 'client SUBMIT at the server')
            stats['root'] += 1
            return
        src = rng.choice(stubs)
        if r < 0.6:
            rid = fresh()
            if open_boxes and rng.random() < 0.18:
                mb = open_boxes.pop(rng.randrange(len(open_boxes)))
                addr, dst = RuntimeAddress(-1, mb, 0), 'N'
                res_sent[rid] = ('c', mb)
            else:
                d = pick_dest(src)
                addr, dst = RuntimeAddress(d.wid, rid, 0), fmt(list(d.path))
                res_sent[rid] = ('w', d.wid)
            W.put((src.path, 'U'), M.RESULT, RuntimeResult(addr, ('r', rid), src.wid))
            model_event('injres %s %d %s' % (fmt(list(src.path)), rid, dst), 'injres')
            stats['injres'] += 1
        else:
            if rng.random() < 0.3:
                t = new_task(src.wid)
                W.put((src.path, 'U'), M.SUBMIT, t)
                model_event('injbatch %s 1 %s' % (fmt(list(src.path)), fmt([W.tid_of(t)])), 'injbatch')
            else:
                ts = [new_task(src.wid) for _ in range(rng.randint(1, 5))]
                W.put((src.path, 'U'), M.SUBMIT_BATCH, ts)
                model_event('injbatch %s 0 %s' % (fmt(list(src.path)), fmt([W.tid_of(t) for t in ts])), 'injbatch')
            stats['injbatch'] += 1

    def call(node, msg, direction, conn, payload):
        try:
            node.handle_message(msg, direction, conn, payload)
            exc = None
        except Exception as ex:     # noqa: BLE001  a handler exception must not kill the run
            exc = ex
        W.flush(node)
        return exc

    def exc_entry(node, exc):
        if exc is None:
            return []
        return [[list(node.c07_path), EXN_NAME.get(type(exc).__name__, type(exc).__name__)]]

    def note_exc(exc, node, what, modelled=True):
        if exc is None:
            return
        f = dict(sig={'call': 'tree_route', 'symptom': 'handler-exception:' + type(exc).__name__},
                 what='%s: handler of node %s raised (event %d)' % (what, list(node.c07_path), stats['events']),
                 expected='no exception', observed=repr(exc))
        if modelled:
            pending_exc.append((len(lines) - 1, f))
        else:
            findings.append(f)

    def observed_asg(node):
        """the assignment the real schedule_tasks used, as ghost ids per employee; [] if assign_tasks was not called"""
        calls = [c for c in W.asg_calls if c[0] is node]
        if len(W.asg_calls) != len(calls) or len(calls) > 1:
            add({'call': 'assign_tasks', 'symptom': 'unexpected-call'}, 'assign_tasks called %d times / on another node during one event' % len(W.asg_calls),
                'at most one call, on the handling node', len(W.asg_calls))
        if not calls:
            return []
        _, tasks, out = calls[0]
        want = sorted(W.tid_of(t) for t in tasks)
        try:
            asg = [[W.tid_of(t) for t in a] for a in out]
        except Exception:
            asg = None
        if asg is None or len(asg) != len(node.employees) or sorted(x for a in asg for x in a) != want or len(set(want)) != len(want):
            add({'call': 'assign_tasks', 'symptom': 'not-a-partition'},
                'assign_tasks of node %s did not return a partition of the batch over its employees (event %d)' % (list(node.c07_path), stats['events']),
                dict(tasks=want, employees=len(node.employees)), repr(asg))
            return asg or []
        return asg

    def deliver(key):
        path, d = key
        msg, payload, canon, _ = W.pop(key)
        if d == 'D' and path in W.stubs:
            st = W.stubs[path]
            if canon is None:
                stats['other_msgs'] += 1
                return
            if canon[0] == 'R':
                rid = canon[1]
                res_recv.setdefault(rid, []).append(st.wid)
                res_down[rid] = res_down.get(rid, 0) + 1
            else:
                tasks = [payload] if msg == M.SUBMIT else list(payload)
                for t in tasks:
                    task_recv.setdefault(W.tid_of(t), []).append(st.wid)
                if tasks:
                    st.mrrs = tasks[0].unique_id
            model_event('wrecv ' + fmt(list(path)), 'wrecv', inbox=[[list(path)] + canon], step=True)
            stats['wrecv'] += 1
            return
        if d == 'U':
            node = W.nodes[path[:-1]]
            direction, conn = D.BELOW, W.boss_conn(path)
        else:
            node = W.nodes[path]
            direction, conn = D.ABOVE, node.upstream
        is_mgr = node is not S
        ni = node.num_idle_workers if (is_mgr and d == 'U') else 0
        W.asg_calls.clear()
        stored_before = None
        if canon is not None and canon[0] == 'R' and node is S and canon[2] == -1:
            mb = payload.return_address.mailbox_index
            stored_before = mb in S.mailboxes and S.mailboxes[mb].result == payload.result
        exc = call(node, msg, direction, conn, payload)
        if canon is None:
            stats['other_msgs'] += 1
            note_exc(exc, node, '%s from %s' % (msg.name, 'below' if d == 'U' else 'above'), modelled=False)
            return
        asg = observed_asg(node)
        client = []
        if canon[0] == 'R':
            rid = canon[1]
            if d == 'U':
                res_up[rid] = res_up.get(rid, 0) + 1
            else:
                res_down[rid] = res_down.get(rid, 0) + 1
            if stored_before is not None:
                mb = payload.return_address.mailbox_index
                if not stored_before and mb in S.mailboxes and S.mailboxes[mb].result == payload.result:
                    client = [rid]
        elif is_mgr and d == 'U' and 0 < ni < len(canon[2]):
            stats['split'] += 1
        model_event('deliver %s %s %d %s' % (fmt(list(path)), d, ni, fmt(asg)), 'deliver', client=client,
                    err=exc_entry(node, exc), step=True)
        note_exc(exc, node, '%s from %s' % (msg.name, 'below' if d == 'U' else 'above'))
        stats['deliver'] += 1

    # ---- random phase
    for _ in range(nevents):
        stats['events'] += 1
        keys = list(W.chan)
        r = rng.random()
        if r < 0.25 or not keys:
            inject()
        elif r < 0.33:
            st = rng.choice(stubs)          # outside the model: an idle worker reports (num_idle, read receipt)
            W.put((st.path, 'U'), M.WAITING, (1, st.mrrs))
            stats['wwait'] += 1
        else:
            deliver(rng.choice(sorted(keys)))
    # ---- drain: no more injections
    while W.chan:
        stats['events'] += 1
        stats['drain'] += 1
        if stats['drain'] > 20000:
            add({'call': 'tree_route', 'symptom': 'drain-not-terminating'}, 'channels still not empty after 20000 deliveries without injection',
                'quiescence', W.view()[:600])
            break
        deliver(rng.choice(sorted(W.chan)))
    lines.append('dump')
    expect.append('chan %s inbox %s client %s err %s measure ' % (W.view(), fmt(inbox_all), fmt(client_all), fmt(err_all)))
    descr.append('final dump')
    is_step.append(False)

    def finish(out):
        # ---- the model on the same events
        predicted = set()               # indices of events at which the model predicts the exception the real handler raised
        mism = None
        prev_measure = None
        for i, (ln, ex) in enumerate(zip(lines, expect)):
            got = out[i] if i < len(out) else '<no answer>'
            ok = got.startswith(ex) if ex.endswith(' measure ') else got == ex
            if ok and mism is None and ' err [[' in ex:
                predicted.add(i)
            if not ok and mism is None:
                mism = i
                what = descr[i]
                if what in ('node-range', 'worker-id'):
                    add({'call': 'connect_to_managers', 'symptom': 'range-mismatch'}, 'id range / step size / worker id of %s differs from the model' % ln,
                        got, ex)
                else:
                    add({'call': 'tree_route', 'symptom': 'model-mismatch'},
                        'extracted TreeNet model and the real nodes disagree after event %d of the script (%s)' % (i - nsetup, ln),
                        got[:1500], ex[:1500])
            if ok and mism is None and ex.endswith(' measure '):
                m = int(got[len(ex):].split()[0])
                if is_step[i] and prev_measure is not None and not m < prev_measure:
                    add({'call': 'tree_route', 'symptom': 'measure-not-decreasing'}, 'model measure did not decrease at event %d (%s)' % (i - nsetup, ln),
                        '< %d' % prev_measure, m)
                prev_measure = m
                if i == len(lines) - 1 and not W.chan and m != 0:
                    add({'call': 'tree_route', 'symptom': 'measure-not-decreasing'}, 'measure of the empty network is not 0', 0, m)
        for i, f in pending_exc:
            if i not in predicted:
                findings.append(f)

        # ---- oracle on the real run (does not use the model)
        for rid, (kind, x) in sorted(res_sent.items()):
            got = res_recv.get(rid, [])
            if kind == 'w':
                if len(got) > 1:
                    add({'call': 'tree_route', 'symptom': 'result-duplicated'}, 'RESULT %d for worker %d was received %d times' % (rid, x, len(got)), [x], got)
                elif not got:
                    add({'call': 'tree_route', 'symptom': 'result-lost'}, 'RESULT %d for worker %d never arrived' % (rid, x), [x], got)
                elif got != [x]:
                    add({'call': 'tree_route', 'symptom': 'result-misrouted'}, 'RESULT %d for worker %d was received by worker %d' % (rid, x, got[0]), [x], got)
            else:
                box = S.mailboxes.get(x)
                if got:
                    add({'call': 'tree_route', 'symptom': 'result-misrouted'}, 'RESULT %d for the client (mailbox %d) was received by a worker' % (rid, x), 'server mailbox', got)
                elif box is None or box.result != ('r', rid):
                    add({'call': 'tree_route', 'symptom': 'result-lost'}, 'RESULT %d for the client is not in server mailbox %d' % (rid, x),
                        ('r', rid), None if box is None else box.result)
                else:
                    stats['client_results'] += 1
        for rid in res_recv:
            if rid not in res_sent:
                add({'call': 'tree_route', 'symptom': 'result-duplicated'}, 'a RESULT nobody sent was received', 'none', rid)
        for tid in sorted(task_sent):
            got = task_recv.get(tid, [])
            if len(got) > 1:
                add({'call': 'tree_route', 'symptom': 'task-duplicated'}, 'task %d reached workers %s' % (tid, got), 'one worker, once', got)
            elif not got:
                add({'call': 'tree_route', 'symptom': 'task-lost'}, 'task %d (sent by %s) reached no worker' % (tid, task_sent[tid]), 'one worker, once', got)
        for tid in task_recv:
            if tid not in task_sent:
                add({'call': 'tree_route', 'symptom': 'task-duplicated'}, 'a task nobody sent was received', 'none', tid)
        far = 0
        for rid, (kind, x) in res_sent.items():
            hops = res_up.get(rid, 0) + res_down.get(rid, 0)
            stats['max_hops'] = max(stats['max_hops'], hops)
            if kind == 'w' and res_up.get(rid, 0) >= 2 and res_recv.get(rid):
                far += 1
        stats['far'] = far
        stats['results'], stats['tasks'] = len(res_sent), len(task_sent)
        stats['nodes'], stats['workers'] = len(W.nodes), len(stubs)
        return dict(findings=findings, stats=stats)

    return lines, finish


# ---------------------------------------------------------------------------------------------- generation
def shape_kind(shape) -> str:
    def depth(s):
        return 1 if s[0] == 'L' else 1 + max(depth(c) for c in s[1:])

    def uniform(s):
        return s[0] == 'L' or (len({depth(c) for c in s[1:]}) == 1 and all(uniform(c) for c in s[1:]))
    d = depth(shape)
    return 'flat' if d == 1 else ('%d-level' % d if uniform(shape) else 'mixed-depth')


def gen_shape(rng):
    r = rng.random()
    leaf = lambda: ['L', rng.randint(1, 3)]                                  # noqa: E731
    if r < 0.10:
        return ['L', rng.randint(1, 4)]
    if r < 0.40:
        return ['N'] + [leaf() for _ in range(rng.randint(1, 3))]
    if r < 0.85:
        return ['N'] + [['N'] + [leaf() for _ in range(rng.randint(1, 3))] for _ in range(rng.randint(1, 3))]
    # mixed depth: a top-level manager of workers next to managers of managers
    kids = [rng.choice([leaf, lambda: ['N'] + [leaf() for _ in range(rng.randint(1, 3))]])() for _ in range(rng.randint(2, 3))]
    return ['N'] + kids


def gen_case(rng) -> dict:
    return dict(kind='tree', shape=gen_shape(rng), seed=rng.randrange(1 << 30), nevents=rng.randint(40, 120))


def _report(ctx, case, res, source='generated') -> bool:
    st = res.get('stats', {})
    ctx.case(('tree', fmt(case['shape']), case['seed'], case['nevents']), nontrivial=bool(st.get('far') or st.get('split')))
    ctx.count('tree:shape:' + shape_kind(case['shape']))
    for k in ('injres', 'injbatch', 'root', 'deliver', 'wrecv', 'wwait', 'other_msgs'):
        ctx.count('tree:ev:' + k, st.get(k, 0))
    cov = ctx.cov.setdefault('tree', dict(cases=0, events=0, model_events=0, max_up_down_hops=0, far_results=0, split_batches=0,
                                          results=0, client_results=0, tasks=0, shapes={}))
    cov['cases'] += 1
    cov['events'] += st.get('events', 0)
    cov['model_events'] += st.get('model_events', 0)
    cov['max_up_down_hops'] = max(cov['max_up_down_hops'], st.get('max_hops', 0))
    cov['far_results'] += st.get('far', 0)
    cov['split_batches'] += st.get('split', 0)
    cov['results'] += st.get('results', 0)
    cov['client_results'] += st.get('client_results', 0)
    cov['tasks'] += st.get('tasks', 0)
    k = shape_kind(case['shape'])
    cov['shapes'][k] = cov['shapes'].get(k, 0) + 1
    bad = False
    for f in res['findings']:
        corr = 'correspondence TreeNet.v <-> bqskit/runtime/{base,manager,detached}.py' if f['sig'].get('symptom') in ('model-mismatch', 'range-mismatch') else None
        if ctx.violation(f['sig'], dict(case, source=source), f['expected'], f['observed'], f['what'], kind='schedule', corr=corr):
            bad = True
    return bad


def shrink(case: dict, sig: dict, budget: int = 10) -> dict:
    """Fewer random events with the same seed replay a prefix of the same schedule: smallest `nevents` (bisection,
    at most `budget` runs) that still shows a finding with signature `sig`."""
    lo, hi = 0, case['nevents']              # invariant: hi fails
    while lo < hi and budget > 0:
        mid = (lo + hi) // 2
        budget -= 1
        c = dict(case, nevents=mid)
        if any(f['sig'] == sig for f in run_case(c)['findings']):
            hi = mid
        else:
            lo = mid + 1
    return dict(case, nevents=hi)


def run_tree(ctx, ncases: int) -> bool:
    """Generate `ncases` cases from ctx.rng (deterministic for the seed), run and report them."""
    rng = random.Random(ctx.rng.getrandbits(64))
    bad = False
    cases = [gen_case(rng) for _ in range(ncases)]
    chunk = 50                      # one model process per chunk (`init` resets the model state)
    seen = set()
    for a in range(0, len(cases), chunk):
        preps = [prepare(c) for c in cases[a:a + chunk]]
        script = [ln for lines, _ in preps for ln in lines]
        try:
            out = vf.run_model('treenet', script) if script else []
        except Exception as ex:     # noqa: BLE001
            ctx.broken_obligation('extracted model treenet failed to run', repr(ex))
            out = []
        pos = 0
        for case, (lines, finish) in zip(cases[a:a + chunk], preps):
            res = _finish(finish, out[pos:pos + len(lines)])
            pos += len(lines)
            bad |= _report(ctx, case, res)
            for f in res['findings']:
                key = vf.canon(f['sig'])
                if key not in seen and f['sig'].get('call') != 'harness':
                    # first case with this signature: report a shrunk version too (it becomes the replay if smaller)
                    seen.add(key)
                    small = shrink(case, f['sig'])
                    if small['nevents'] < case['nevents']:
                        for v in ctx.violations:
                            if v['signature'] == f['sig'] and v['case'].get('seed') == case['seed']:
                                r2 = run_case(small)
                                g = next((x for x in r2['findings'] if x['sig'] == f['sig']), None)
                                if g is not None:
                                    v.update(case=dict(small, source='generated+shrunk'), expected=g['expected'], observed=g['observed'], what=g['what'])
    return bad


def replay_tree(ctx, case: dict) -> bool:
    case = dict(case)
    src = case.pop('source', 'replay')
    return _report(ctx, case, run_case(case), src)


if __name__ == '__main__':
    import sys
    n = int(sys.argv[1]) if len(sys.argv) > 1 else 50
    seed = int(sys.argv[2]) if len(sys.argv) > 2 else 1
    with vf.Lock():
        ok, log = vf.build_extracted('treenet')
    if not ok:
        print('extraction failed:\n' + log)
        sys.exit(2)
    ctx = vf.Ctx('C07', 'quick', seed)
    t0, c0 = time.time(), time.process_time()
    bad = run_tree(ctx, n)
    print('cases=%d distinct-nontrivial=%d wall=%.2fs cpu=%.2fs violations=%d' % (ctx.evaluations, len(ctx._hashes), time.time() - t0,
                                                                              time.process_time() - c0, len(ctx.violations)))
    print('dist', ctx.dist)
    print('cov', ctx.cov.get('tree'))
    for v in ctx.violations:
        print('VIOLATION', v['signature'], 'x%d' % v['count'], '\n  what:', v['what'], '\n  expected:', str(v['expected'])[:700],
              '\n  observed:', str(v['observed'])[:700], '\n  case:', v['case'])
    sys.exit(1 if bad else 0)
