"""Lead's tool: re-check the compiled property files with Coq's independent checker.

  python harness/coqchk_all.py [C01 C02 ...]      (default: every props/C*.vo; needs the .vo files, i.e. setup.sh has run)

For each property `coqchk -silent -o -Q coq BQ BQ.props.CNN` re-checks props/CNN.vo and everything it depends on and
prints the context summary (axioms of every loaded library, type-in-type, unsafe fixpoints, assumed positivity).  The
result is written to design/coqchk.md (assembled into DESIGN.md section 6.3) and design/coqchk.json."""
from __future__ import annotations

import json
import re
import subprocess
import sys
import time
from concurrent.futures import ThreadPoolExecutor
from pathlib import Path

ROOT = Path(__file__).resolve().parent.parent
COQ = ROOT / 'coq'


def one(pid: str) -> dict:
    t0 = time.time()
    p = subprocess.run(f'ulimit -s unlimited 2>/dev/null; timeout 3000 coqchk -silent -o -Q . BQ BQ.props.{pid}', shell=True, cwd=COQ,
                       capture_output=True, text=True)
    out = p.stdout + p.stderr
    res = dict(property=pid, rc=p.returncode, wall=round(time.time() - t0))
    m = re.search(r'CONTEXT SUMMARY\s*=+\s*(.*)', out, re.S)
    if not m:
        res['error'] = out[-600:]
        return res
    body = m.group(1)
    sections = {}
    for sec in re.split(r'\n\* ', '\n' + body):
        sec = sec.strip()
        if not sec:
            continue
        head, _, rest = sec.partition(':')
        items = [x.strip() for x in rest.strip().splitlines() if x.strip()]
        sections[head.strip()] = items
    res['sections'] = sections
    return res


def main():
    pids = sys.argv[1:] or sorted(f.stem for f in (COQ / 'props').glob('C*.vo'))
    with ThreadPoolExecutor(4) as ex:
        results = list(ex.map(one, pids))
    (ROOT / 'design' / 'coqchk.json').write_text(json.dumps(results, indent=1))
    lines = ['### 6.3 `coqchk -o` over the compiled property files\n',
             '`harness/coqchk_all.py` runs Coq\'s independent checker on `props/CNN.vo` and everything it depends on. Unlike',
             '`Print Assumptions` (per theorem) it lists the axioms of **every loaded library**, used by a theorem or not.\n',
             '| property | rc | axioms in the loaded context | type-in-type / unsafe fixpoints / assumed positivity | wall |', '|---|---|---|---|---|']
    for r in results:
        if 'sections' not in r:
            lines.append(f"| {r['property']} | {r['rc']} | (no summary: {r.get('error', '')[-120:].replace('|', '/')}) | | {r['wall']} s |")
            continue
        s = r['sections']
        ax = next((v for k, v in s.items() if k.startswith('Axioms')), [])
        ax = [a for a in ax if a != '<none>']
        other = []
        for k, v in s.items():
            if k.startswith('Axioms') or k.startswith('Theory'):
                continue
            vv = [x for x in v if x != '<none>']
            other.append('none' if not vv else f'{k}: {vv}')
        lines.append(f"| {r['property']} | {r['rc']} | {', '.join('`' + a + '`' for a in ax) if ax else 'none'} | {'; '.join(sorted(set(other)))} | {r['wall']} s |")
    (ROOT / 'design' / 'coqchk.md').write_text('\n'.join(lines) + '\n')
    print('\n'.join(lines))
    return 0 if all(r['rc'] == 0 for r in results) else 1


if __name__ == '__main__':
    sys.exit(main())
