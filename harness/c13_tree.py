"""C13 extension: ERROR / LOG on their way up through a tree of REAL Manager objects to the REAL
DetachedServer, co-simulated with the extracted model coq/rt/ErrTree.v (driver `errtree`).

Every manager is a real `bqskit.runtime.manager.Manager` (`__new__`, outgoing queue + upstream token); each
delivery goes through the real `Manager.handle_message(msg, BELOW, conn, payload)` resp. the real
`DetachedServer.handle_message`; links are harness-owned FIFOs.  After every event the server's answers and
the content of all links (path, kind, comp id, text) are compared with the model; oracle on the implementation:
the payload object that reaches the server is the very object the worker sent, every ERROR output goes to the
submitting client with the original text, never to another client, the server stays up."""
from __future__ import annotations

import collections
import queue

import vf

SIG_TREE = {'call': 'Manager.handle_message/handle_error', 'symptom': 'error-path-model-mismatch'}
SIG_OWNER = {'call': 'Manager.handle_message/handle_error', 'symptom': 'error-not-reported-to-owner'}


class Up:
    def __init__(self, path):
        self.path = path
        self.closed = False

    def __repr__(self):
        return f'<up {self.path}>'


def gen_tree(rng, depth=0):
    """list of paths (deepest index first) of managers and of workers"""
    mgrs, wrks = [], []

    def build(path, d):
        for i in range(rng.randint(1, 3)):
            p = (i,) + path
            if d < 3 and rng.random() < (0.75 if d == 0 else 0.45):
                mgrs.append(p)
                build(p, d + 1)
            else:
                wrks.append(p)
    build((), 0)
    return mgrs, wrks


def gen_case(rng, c13):
    mgrs, wrks = gen_tree(rng)
    base = c13.gen_history(rng, rng.randint(4, 16), avoid_d4=True)
    evs, nsub, live = [], 0, collections.Counter()
    base = list(base)
    while base or sum(live.values()):
        r = rng.random()
        if base and r < 0.4:
            e = base.pop(0)
            nsub += e[0] == c13.K_SUBMIT
            evs.append([2, e])
        elif r < 0.65 and base:
            p = rng.choice(wrks)
            evs.append([0, list(p), rng.randint(0, 1), rng.randint(0, nsub + 1), rng.randint(0, 9)])
            live[p] += 1
        else:
            cand = [p for p, k in live.items() if k]
            if cand and rng.random() < 0.93:
                p = rng.choice(cand)
                live[p] -= 1
                if len(p) > 1:
                    live[p[1:]] += 1
            else:
                p = rng.choice(mgrs + wrks)      # usually nothing to read there
                if live[p]:
                    live[p] -= 1
                    if len(p) > 1:
                        live[p[1:]] += 1
            evs.append([1, list(p)])
        if len(evs) > 80:
            break
    return dict(managers=[list(m) for m in mgrs], workers=[list(w) for w in wrks], events=evs)


def fmt(x):
    return '[' + ' '.join(fmt(y) for y in x) + ']' if isinstance(x, list) else str(x)


def run_impl(case, c13):
    from bqskit.runtime.manager import Manager
    from bqskit.runtime.message import RuntimeMessage as M
    from bqskit.runtime.direction import MessageDirection as D
    impl = c13.Impl()
    mg = {}
    for p in case['managers']:
        m = Manager.__new__(Manager)
        m.outgoing = queue.Queue()
        m.upstream = Up(tuple(p))
        mg[tuple(p)] = m
    links = collections.defaultdict(collections.deque)
    order = []                       # (path, kind, mb, m, payload) in flight, oldest first
    sent = []
    obs, problems = [], []
    for ev in case['events']:
        outs = []
        if ev[0] == 0:
            _, p, k, mb, m = ev
            payload = (mb, f'E{m}') if k == 0 else (mb, b'L%d' % m)
            item = (tuple(p), k, mb, m, payload)
            links[tuple(p)].append(item)
            order.append(item)
            sent.append(item)
        elif ev[0] == 1:
            p = tuple(ev[1])
            if links[p]:
                item = links[p].popleft()
                order.remove(item)
                _, k, mb, m, payload = item
                msg = M.ERROR if k == 0 else M.LOG
                boss = p[1:]
                if boss == ():
                    if impl.up:
                        try:
                            impl.s.handle_message(msg, D.BELOW, impl.wconns[0], payload)
                            outs = impl.drain()
                        except Exception as e:  # noqa
                            impl.up = False
                            outs = impl.drain() + [('crash',)]
                            problems.append(f'server raised {type(e).__name__}: {e}')
                    # oracle on the implementation: addressee = submitting client, text unchanged
                    exp = []
                    if impl.up and mb in impl.s.mailbox_to_task_dict:
                        c = impl.s.tasks[impl.s.mailbox_to_task_dict[mb]][1].idx
                        exp = [('error' if k == 0 else 'log', c, m)]
                    if impl.up and [o for o in outs if o[0] in ('error', 'log', 'errunknown')] != exp:
                        problems.append(f'server answered {outs} to {msg.name} {payload}, expected {exp}')
                elif boss in mg:
                    man = mg[boss]
                    man.handle_message(msg, D.BELOW, Up(p), payload)
                    got = []
                    while not man.outgoing.empty():
                        got.append(man.outgoing.get_nowait())
                    if len(got) != 1 or got[0][0] is not man.upstream or got[0][1] != msg or got[0][2] is not payload:
                        problems.append(f'manager {boss} forwarded {got} for {msg.name} {payload}')
                    for g in got:
                        if isinstance(g[2], tuple) and len(g[2]) == 2:
                            it = (boss, 0 if g[1] == M.ERROR else 1, g[2][0], m, g[2])
                            links[boss].append(it)
                            order.append(it)
                else:
                    problems.append(f'no manager at {boss}')
        else:
            o, _ = impl.apply(ev[1])
            outs = o
        chan = [[list(it[0]), it[1], it[2], it[3]] for it in order]
        obs.append(([list(o) for o in c13.sort_bcast_runs(outs)], chan))
    return obs, problems


def run_model(cases, fx):
    lines = [f"net {fx} {fmt(c['events'])}" for c in cases]
    res = []
    for ln in vf.run_model('errtree', lines):
        if ln.startswith('EXN') or ln == 'BADCMD':
            raise RuntimeError(f'errtree driver: {ln}')
        v = c13_parse(ln)
        res.append([([list(o) for o in _sort(outs)], ch) for outs, ch, _w in v])
    return res


c13_parse = None
_sort = None


def check_case(ctx, case, c13, fx, tag, mod=None):
    global c13_parse, _sort
    c13_parse, _sort = c13.parse_v, lambda outs: c13.sort_bcast_runs([tuple(o) for o in outs])
    obs, problems = run_impl(case, c13)
    if mod is None:
        mod = run_model([case], fx)[0]
    nraise = sum(1 for e in case['events'] if e[0] == 0)
    ctx.case(('tree', fmt(case['events'])), nontrivial=nraise > 0 and any(len(m) >= 2 for m in case['managers'] + case['workers']))
    ok = True
    for i, (a, b) in enumerate(zip(obs, mod)):
        if c13.norm(a) != c13.norm(b):
            ctx.violation(SIG_TREE, dict(kind='tree', **case), expected=c13.norm(b), observed=c13.norm(a),
                          what=f'{tag}: event {i} {case["events"][i]}: real Manager/DetachedServer objects and rt/ErrTree.v '
                               f'disagree (answers, links in flight)')
            ok = False
            break
    for p in problems[:1]:
        ctx.violation(SIG_OWNER, dict(kind='tree', **case), expected='payload forwarded unchanged to the boss; '
                      'ERROR/LOG to the submitting client only', observed=p, what=f'{tag}: {p}')
        ok = False
    return ok


DIRECTED = [
    # two clients; client 1's task raises on a depth-3 worker; client 0's LOG on another branch
    dict(managers=[[1], [0, 1], [0]], workers=[[2, 0, 1], [0, 0], [2]],
         events=[[2, [0, 0]], [2, [0, 1]], [2, [2, 0, 0]], [2, [2, 1, 1]], [0, [2, 0, 1], 0, 1, 9], [0, [0, 0], 1, 0, 4],
                 [1, [2, 0, 1]], [1, [0, 0]], [1, [0, 1]], [2, [3, 0, 0]], [1, [0]], [1, [1]], [2, [6, 0, 5]]]),
    # error for a compilation whose client has left meanwhile; then one for an unknown id
    dict(managers=[[0]], workers=[[0, 0], [1, 0]],
         events=[[2, [0, 0]], [2, [2, 0, 0]], [0, [1, 0], 0, 0, 3], [1, [1, 0]], [2, [1, 0]], [1, [0]],
                 [0, [0, 0], 0, 5, 1], [1, [0, 0]], [1, [0]], [2, [0, 1]], [2, [2, 1, 1]], [2, [4, 1, 1]]]),
]


def run_tree(ctx, mode, c13):
    fx = c13.MODES[mode]
    n_ok = 0
    cases = list(DIRECTED) + [gen_case(ctx.rng, c13) for _ in range(ctx.n(300, 4000))]
    global c13_parse, _sort
    c13_parse, _sort = c13.parse_v, lambda outs: c13.sort_bcast_runs([tuple(o) for o in outs])
    mods = run_model(cases, fx)
    for i, c in enumerate(cases):
        n_ok += check_case(ctx, c, c13, fx, 'tree-directed' if i < len(DIRECTED) else 'tree-random', mods[i])
    ctx.count('tree_error_path', len(cases))
    ctx.cov['tree_error_path_ok'] = n_ok
    ctx.cov['tree_max_depth'] = max(len(p) for c in cases for p in c['workers'])
    return n_ok
