"""Common driver for the history-based circuit properties C04 / C05 / C16."""
from __future__ import annotations

import json

import vf

BUILD = dict(extracted=['circuit'], translators=set())


def jsonable(x):
    return json.loads(json.dumps(x, default=str))


def run_histories(ctx: vf.Ctx, want: set, n_hist: int, max_len: int, classify):
    """classify(finding) -> (signature, what) or None to ignore."""
    import circ_common as cc
    import circ_run as cr
    run_corpus(ctx, want, classify)
    base = ctx.seed * 1000003
    seeds = [base + i for i in range(n_hist)]
    results = cr.run_many(seeds, max_len, want)
    flagged = set()
    for ri, r in enumerate(results):
        nontriv = any(s[3] not in ('noop', 'copy', 'clear') and not s[2].startswith('E') for s in r['steps'])
        ctx.case(('hist', r['seed']), nontrivial=nontriv)
        for s in r['steps']:
            ctx.count('call:' + s[3])
            if s[2].startswith('E'):
                ctx.count('error:' + s[2].split('|')[0].split(':')[0].strip())
        if ri < 2:
            ctx.sample(dict(seed=r['seed'], width=r['n'], radixes=list(r['rads']),
                            calls=[jsonable(c)[:3] for c in r['hist'][:6]], final=r['steps'][-1][2][:300] if r['steps'] else ''))
        for f in r['findings']:
            cl = classify(f)
            if cl is None:
                continue
            sig, what = cl
            flagged.add((ri, f['step']))
            ctx.violation(sig, dict(kind='circuit-history', seed=r['seed'], max_len=max_len, step=f['step'],
                                    pre=jsonable(f.get('pre')), call=jsonable(f['call'])),
                          jsonable(f.get('expected_timelines', 'see property oracle')),
                          jsonable(f.get('post', f.get('detail'))), what)
    # correspondence with the extracted Coq model, step by step
    lines, index = cr.model_script(results)
    out = vf.run_model('circuit', lines)
    if len(out) != len(lines):
        ctx.broken_obligation('correspondence coq/circuit/CModel.v: wrong number of answers', f'{len(out)} vs {len(lines)}')
        return results
    nm = nv = nvbad = 0
    for j, (what, ri, si) in enumerate(index):
        got = out[2 * j + 1]
        pre, cmd, impl, kind, post, iv = results[ri]['steps'][si]
        if what == 'step':
            nm_here = got != impl
            if nm_here:
                nm += 1
                if (ri, si) in flagged:
                    continue   # the oracle already produced a concrete failing input for this step
                ctx.mismatch('coq/circuit/CModel.v vs bqskit/ir/circuit.py (' + kind + ')', dict(pre=pre, cmd=cmd), got[:2000], impl[:2000])
            continue
        # views: the implementation's incrementally maintained views vs the functions of the grid of CViews.v
        nv += 1
        if isinstance(iv, tuple) and iv and iv[0] == 'raised':
            names, mv = ['accessor_raised'], None
        else:
            try:
                mv = cc.model_views(got)
                names = cc.diff_views(mv, iv)
            except Exception as e:
                ctx.broken_obligation('views answer of the extracted model unreadable', repr(e) + ' ' + got[:300])
                continue
        if names:
            nvbad += 1
            if (ri, si) in flagged:
                continue
            call = results[ri]['hist'][si]
            i0 = cc.VIEW_NAMES.index(names[0]) if names[0] in cc.VIEW_NAMES else None
            cl = classify(dict(kind='coq_views', call=call, symptoms=names))
            if cl is None:
                continue
            sig, what_ = cl
            ctx.violation(sig, dict(kind='circuit-history', seed=results[ri]['seed'], max_len=max_len, step=si,
                                    pre=jsonable(cc.parse_v(pre)[0]), call=jsonable(call)),
                          jsonable(mv[i0]) if i0 is not None and mv else 'consistent views',
                          jsonable(iv[i0]) if i0 is not None else jsonable(iv), what_)
    ctx.cov['view_steps_compared_with_coq'] = nv
    ctx.cov['view_steps_disagreeing_with_coq'] = nvbad
    ctx.cov['model_steps_compared'] = sum(1 for w, _, _ in index if w == 'step')
    ctx.cov['model_steps_disagreeing'] = nm
    return results


def run_corpus(ctx: vf.Ctx, want, classify):
    d = vf.ROOT / 'corpus' / ctx.prop
    if not d.exists():
        return
    for f in sorted(d.glob('*.json')):
        replay_case(ctx, json.loads(f.read_text()), want, classify, quiet=True)
        ctx.count('corpus_cases')


def followup_bad(c):
    """does one more append on every qudit fail or leave inconsistent views? (judged on a copy)"""
    import circ_common as cc
    try:
        return bool(cc.followup_appends(cc_copy_exact(c)))
    except Exception:
        return True


def cc_copy_exact(c):
    """an independent object in the same state (including any corrupted private view)"""
    import copy
    return copy.deepcopy(c)


def fold_stress(ctx: vf.Ctx, want: set, classify, seed_salt=7919):
    """Regions on circuits dense in 2-qudit gates: (a) grown by `surround` (valid), (b) random per-qudit cycle
    intervals, (c) deliberately non-convex (two operations connected through a chain of >= 2 outside operations),
    (d) staggered (different start cycles per qudit, so that straighten pushes gates back).
    'order' oracles (C04): is_valid_region / check_region agree with an independent brute-force convexity test; a fold
    that returns leaves the recursively unfolded per-qudit timelines (and, for small widths, the unitary) unchanged;
    straighten alone keeps every timeline; a fold that raises leaves the circuit alone.
    'views' oracles (C05): after every straighten / fold all views are consistent (Python recomputation and the Coq
    functions of the grid), and so they are after one more append on every qudit, which must not fail internally.
    Every case is also run through the extracted model of fold / check_region (coq/circuit/CFold.v)."""
    import random
    import numpy as np
    import circ_common as cc
    from bqskit.ir.region import CircuitRegion
    rng = random.Random(ctx.seed * 1000003 + seed_salt + (1 if 'views' in want else 0))
    n_reg = ctx.n(320, 6000)
    two = [g for g, gt in cc.GATES.items() if gt.num_qudits == 2 and gt.radixes == (2, 2)]
    one = [g for g, gt in cc.GATES.items() if gt.num_qudits == 1 and gt.radixes == (2,)]
    lines, cases, vlines, vcases, slines, scases = [], [], [], [], [], []

    def report(f, case, expected, observed):
        cl = classify(f)
        if cl is not None:
            ctx.violation(cl[0], case, expected, observed, cl[1])

    def view_checks(obj, call, case, pre, label):
        bad = cc.check_views(obj)
        if bad and all(b[0] == 'idle_cycle' for b in bad):
            # known finding D6; the other views of this state are still judged
            report(dict(kind='views', call=call, symptoms=['idle_cycle'], detail=bad[:3], pre=pre), case, 'no idle cycle', jsonable(bad[:3]))
            ctx.count('fold_stress_idle_cycle_states')
            bad = cc.check_views(obj, tolerate_idle=True)
        if bad:
            report(dict(kind='views', call=call, symptoms=[b[0] for b in bad], detail=bad[:3], pre=pre), case, 'consistent views', jsonable(bad[:3]))
            return
        try:
            vlines.extend(['set ' + cc.dump(obj), 'views'])
            vcases.append((cc.impl_views(obj), case, call))
        except Exception as e:
            report(dict(kind='views', call=call, symptoms=['accessor_raised'], detail=repr(e)[:200], pre=pre), case, 'consistent views', repr(e)[:200])
            return
        bad = cc.followup_appends(obj)
        if bad:
            report(dict(kind='views', call=call, symptoms=[b[0] for b in bad], detail=bad[:3], pre=pre), case, 'consistent views', jsonable(bad[:3]))

    import circ_run as cr
    state = {}

    def one_region(t):
        n = rng.randint(4, 6)
        c = cc.Circuit(n)
        state.clear()
        for _ in range(rng.randint(8, 26)):
            if rng.random() < 0.8:
                g = rng.choice(two)
                loc = tuple(rng.sample(range(n), 2))
            else:
                g = rng.choice(one)
                loc = (rng.randrange(n),)
            c.append(cc.op_from_snap((0, g, loc, cc.rand_params(rng, cc.GATES[g].num_params), tuple(cc.GATES[g].radixes), ())))
        pre = cc.snap(c)
        kind = rng.choice(['surround', 'random', 'nonconvex', 'nonconvex', 'staggered', 'staggered'])
        region = None
        if kind == 'surround':
            call = cc.gen_fold(rng, c, cc.existing_points(c), True)
            region = call[1] if call[0] == 'fold' else None
        elif kind == 'nonconvex':
            region = cc.nonconvex_region(rng, pre)
        elif kind == 'staggered':
            region = cc.staggered_region(rng, pre)
        if region is None:
            kind = 'random'
            qs = rng.sample(range(n), rng.randint(2, 3))
            reg = []
            for q in qs:
                a = rng.randint(0, c.num_cycles - 1)
                reg.append((q, (a, rng.randint(a, min(c.num_cycles - 1, a + rng.randint(0, 5))))))
            region = tuple(sorted(reg))
        ctx.count('fold_stress:' + kind)
        verdict = cc.region_verdict(pre, region)
        ctx.count('fold_stress_verdict:' + verdict)
        call = ('fold', region)
        scall = ('straighten', region)
        case = dict(kind='circuit-history', pre=pre, call=call)
        scase = dict(kind='circuit-history', pre=pre, call=scall)
        state['case'], state['call'], state['pre'] = case, call, pre
        ctx.case(('fold_stress', pre, region))
        # (1) check_region's verdict
        try:
            accepted = c.is_valid_region(CircuitRegion({q: iv for q, iv in region}))
        except Exception as e:
            accepted = 'raised ' + type(e).__name__
        if 'order' in want and accepted != (verdict == 'ok'):
            ctx.violation(dict(call='check_region', symptom='verdict'), case, f'brute-force convexity test: {verdict}',
                          f'is_valid_region: {accepted}', 'check_region disagrees with the independent convexity test')
        # (2) straighten alone
        d = c.copy()
        try:   # the returned (region, net_new_cycles, shadow region): compared with the model's shadow bookkeeping
            fr = lambda r: cc.fmt(tuple((q, (iv.lower, iv.upper)) for q, iv in sorted(r.items())))
            d2 = c.copy()
            r1, net, sh = d2.straighten(CircuitRegion({q: iv for q, iv in region}))
            sres = f'S {fr(r1)} {net} {fr(sh)} | {cc.dump(d2)}'
        except (IndexError, ValueError, TypeError) as e:
            sres = f'E {type(e).__name__} | {cc.dump(d2)}'
        except Exception:
            sres = None
        if sres is not None:
            slines.extend(['set ' + cc.fmt(pre), ('straightenx ' if cc.fold_cmd() == 'foldx' else 'straighten ') + cc.fmt(region)])
            scases.append((scase, sres))
        sout = cc.apply_impl(d, scall)
        if sout.kind == 'E' and sout.val.startswith('Internal'):
            report(dict(kind='internal_error', call=scall, detail=sout.val, pre=pre), scase, 'ValueError or success', sout.val)
        elif sout.kind != 'E':
            if cc.snap(d) != pre:
                ctx.count('fold_stress_straighten_moved')
            if 'order' in want and cc.TL(cc.snap(d)) != cc.TL(pre):
                ctx.violation(dict(call='straighten', symptom='order'), scase, jsonable(cc.TL(pre)), jsonable(cc.TL(cc.snap(d))), 'straighten changed a timeline')
            if 'views' in want:
                view_checks(d, scall, scase, pre, 'straighten')
        # (3) fold
        U = c.get_unitary() if ('order' in want and n <= 5) else None
        out = cc.apply_impl(c, call)
        post = cc.snap(c)
        lines.extend(['set ' + cc.fmt(pre), 'check_region ' + cc.fmt(region), 'set ' + cc.fmt(pre), cc.fold_cmd() + ' ' + cc.fmt(region)])
        cases.append((case, '1' if accepted is True else '0', f'{out} | {cc.fmt(post)}'))
        if out.kind == 'E':
            if out.val.startswith('Internal'):
                report(dict(kind='internal_error', call=call, detail=out.val, pre=pre), case, 'ValueError or success', out.val)
            elif post != pre and 'order' in want:
                ctx.violation(dict(call='fold', symptom='error-changed-circuit'), case, jsonable(pre), jsonable(post), 'fold raised but changed the circuit')
        else:
            ctx.count('fold_stress_folded')
            if 'order' in want:
                if verdict != 'ok':
                    report(dict(kind='fold_accepted_invalid_region', call=call, detail=verdict), case, 'ValueError', jsonable(post))
                if cc.UTL(pre) != cc.UTL(post):
                    report(dict(kind='structure_only_changed_program', call=call), case, jsonable(cc.UTL(pre)), jsonable(cc.UTL(post)))
                elif U is not None and not np.allclose(c.get_unitary(), U, atol=1e-9):
                    ctx.violation(dict(call='fold', symptom='unitary-changed'), case, 'same unitary', 'different', 'fold changed the unitary')
        if 'views' in want:
            view_checks(c, call, case, pre, 'fold')

    for t in range(n_reg):
        try:
            with cr.watchdog(60):
                one_region(t)
        except cr.HistoryTimeout:
            if 'case' in state:
                report(dict(kind='hang', call=state['call'], detail='no return within 60s', pre=state['pre']), state['case'],
                       'the call returns', 'no return within 60s')
    got = vf.run_model('circuit', lines + vlines + slines)
    bad = 0
    for j, (case, impl) in enumerate(scases):
        g = got[len(lines) + len(vlines) + 2 * j + 1]
        if g != impl:
            bad += 1
            ctx.mismatch('coq/circuit/CFold.v vs Circuit.straighten (fold_stress)', jsonable(case), g[:2000], impl[:2000])
    for j, (case, acc, impl) in enumerate(cases):
        if got[4 * j + 1] != acc or got[4 * j + 3] != impl:
            bad += 1
            ctx.mismatch('coq/circuit/CFold.v vs Circuit.fold/check_region (fold_stress)', jsonable(case),
                         (got[4 * j + 1] + ' ; ' + got[4 * j + 3])[:2000], (acc + ' ; ' + impl)[:2000])
    vbad = 0
    for j, (iv, case, call) in enumerate(vcases):
        names = cc.diff_views(cc.model_views(got[len(lines) + 2 * j + 1]), iv)
        if names:
            vbad += 1
            report(dict(kind='coq_views', call=call, symptoms=names), case, 'the views derived by coq/circuit/CViews.v', names)
    ctx.cov['fold_stress_regions'] = len(cases)
    ctx.cov['straighten_algorithm_under_test'] = 'repaired (fixes/D6.patch)' if cc.fold_cmd() == 'foldx' else 'current (leaves idle cycles: D6)'
    ctx.cov['fold_stress_model_disagreements'] = bad
    if 'views' in want:
        ctx.cov['fold_stress_view_states_compared_with_coq'] = len(vcases)
        ctx.cov['fold_stress_view_states_disagreeing'] = vbad


def coq_view_diff(c):
    """names of the views on which the implementation differs from the functions of its own grid defined in
    coq/circuit/CViews.v (evaluated by the extracted model)"""
    import circ_common as cc
    try:
        iv = cc.impl_views(c)
    except Exception:
        return ['accessor_raised']
    out = vf.run_model('circuit', ['set ' + cc.dump(c), 'views'])
    return cc.diff_views(cc.model_views(out[1]), iv)


def replay_case(ctx: vf.Ctx, data, want, classify, quiet=False):
    import circ_common as cc
    case = data['case']

    def tup(x):
        return tuple(tup(y) for y in x) if isinstance(x, list) else x
    pre, call = tup(case['pre']), tup(case['call'])
    c = cc.circ_from_snap_exact(pre)
    import circ_run as cr
    out = cc.apply_impl(c, call)
    post = cc.snap(c)
    if not quiet:
        print('replay: call', call, '->', str(out)[:200])
    f = None
    try:
        cc.existing_points(c)
        iter_exc = None
    except Exception as e:
        iter_exc = type(e).__name__ + ':' + str(e)[:120]
    if out.kind == 'E' and out.val.startswith('Internal'):
        f = dict(kind='internal_error', step=0, call=call, detail=out.val, pre=pre)
    elif iter_exc is not None and 'views' not in want:
        f = dict(kind='iteration_raised', step=0, call=call, detail=iter_exc, pre=pre)
    elif 'views' in want and cc.check_views(c) and (cc.check_views(c, tolerate_idle=True) or not followup_bad(c)):
        bad = cc.check_views(c, tolerate_idle=True) or cc.check_views(c)   # anything beyond the known idle cycle first
        f = dict(kind='views', step=0, call=call, symptoms=[b[0] for b in bad], detail=bad[:3], pre=pre)
    elif 'views' in want and coq_view_diff(c):
        f = dict(kind='coq_views', step=0, call=call, symptoms=coq_view_diff(c), pre=pre)
    elif 'views' in want and followup_bad(c):
        bad = cc.followup_appends(c)
        f = dict(kind='views', step=0, call=call, symptoms=[b[0] for b in bad], detail=bad[:3], pre=pre)
    elif 'order' in want and out.kind != 'E':
        try:
            if call[0] == 'fold' and cc.region_verdict(pre, call[1]) != 'ok':
                f = dict(kind='fold_accepted_invalid_region', step=0, call=call, pre=pre, post=post, detail=cc.region_verdict(pre, call[1]))
            elif call[0] in cr.SPEC and not cc.grouped_ok(cc.ref_apply(pre, call), post):
                f = dict(kind='order', step=0, call=call, pre=pre, post=post)
            elif (call[0] in cr.STRUCT_ONLY or call[0] == 'unfold') and cc.UTL(pre) != cc.UTL(post):
                f = dict(kind='structure_only_changed_program', step=0, call=call, pre=pre, post=post)
        except cc.SpecError:
            pass
    ctx.case(('replay', str(case)[:200]))
    if f is not None and classify(f):
        sig, what = classify(f)
        ctx.violation(sig, case, data.get('expected'), jsonable(f.get('post', f.get('detail'))), what)
    elif not quiet:
        print('replay: the recorded failure does not reproduce on the current tree')
