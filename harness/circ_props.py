"""Common driver for the history-based circuit properties C04 / C05 / C16."""
from __future__ import annotations

import json

import vf

BUILD = dict(extracted=['circuit'], translators=set())


def jsonable(x):
    return json.loads(json.dumps(x, default=str))


def run_histories(ctx: vf.Ctx, want: set, n_hist: int, max_len: int, classify):
    """classify(finding) -> (signature, what) or None to ignore."""
    import circ_common as cc
    import circ_run as cr
    run_corpus(ctx, want, classify)
    base = ctx.seed * 1000003
    seeds = [base + i for i in range(n_hist)]
    results = cr.run_many(seeds, max_len, want)
    flagged = set()
    for ri, r in enumerate(results):
        nontriv = any(s[3] not in ('noop', 'copy', 'clear') and not s[2].startswith('E') for s in r['steps'])
        ctx.case(('hist', r['seed']), nontrivial=nontriv)
        for s in r['steps']:
            ctx.count('call:' + s[3])
            if s[2].startswith('E'):
                ctx.count('error:' + s[2].split('|')[0].split(':')[0].strip())
        if ri < 2:
            ctx.sample(dict(seed=r['seed'], width=r['n'], radixes=list(r['rads']),
                            calls=[jsonable(c)[:3] for c in r['hist'][:6]], final=r['steps'][-1][2][:300] if r['steps'] else ''))
        for f in r['findings']:
            cl = classify(f)
            if cl is None:
                continue
            sig, what = cl
            flagged.add((ri, f['step']))
            ctx.violation(sig, dict(kind='circuit-history', seed=r['seed'], max_len=max_len, step=f['step'],
                                    pre=jsonable(f.get('pre')), call=jsonable(f['call'])),
                          jsonable(f.get('expected_timelines', 'see property oracle')),
                          jsonable(f.get('post', f.get('detail'))), what)
    # correspondence with the extracted Coq model, step by step
    lines, index = cr.model_script(results)
    out = vf.run_model('circuit', lines)
    if len(out) != len(lines):
        ctx.broken_obligation('correspondence coq/circuit/CModel.v: wrong number of answers', f'{len(out)} vs {len(lines)}')
        return results
    nm = nv = nvbad = 0
    for j, (what, ri, si) in enumerate(index):
        got = out[2 * j + 1]
        pre, cmd, impl, kind, post, iv = results[ri]['steps'][si]
        if what == 'step':
            nm_here = got != impl
            if nm_here:
                nm += 1
                if (ri, si) in flagged:
                    continue   # the oracle already produced a concrete failing input for this step
                ctx.mismatch('coq/circuit/CModel.v vs bqskit/ir/circuit.py (' + kind + ')', dict(pre=pre, cmd=cmd), got[:2000], impl[:2000])
            continue
        # views: the implementation's incrementally maintained views vs the functions of the grid of CViews.v
        nv += 1
        if isinstance(iv, tuple) and iv and iv[0] == 'raised':
            names, mv = ['accessor_raised'], None
        else:
            try:
                mv = cc.model_views(got)
                names = cc.diff_views(mv, iv)
            except Exception as e:
                ctx.broken_obligation('views answer of the extracted model unreadable', repr(e) + ' ' + got[:300])
                continue
        if names:
            nvbad += 1
            if (ri, si) in flagged:
                continue
            call = results[ri]['hist'][si]
            i0 = cc.VIEW_NAMES.index(names[0]) if names[0] in cc.VIEW_NAMES else None
            cl = classify(dict(kind='coq_views', call=call, symptoms=names))
            if cl is None:
                continue
            sig, what_ = cl
            ctx.violation(sig, dict(kind='circuit-history', seed=results[ri]['seed'], max_len=max_len, step=si,
                                    pre=jsonable(cc.parse_v(pre)[0]), call=jsonable(call)),
                          jsonable(mv[i0]) if i0 is not None and mv else 'consistent views',
                          jsonable(iv[i0]) if i0 is not None else jsonable(iv), what_)
    ctx.cov['view_steps_compared_with_coq'] = nv
    ctx.cov['view_steps_disagreeing_with_coq'] = nvbad
    ctx.cov['model_steps_compared'] = sum(1 for w, _, _ in index if w == 'step')
    ctx.cov['model_steps_disagreeing'] = nm
    return results


def run_corpus(ctx: vf.Ctx, want, classify):
    d = vf.ROOT / 'corpus' / ctx.prop
    if not d.exists():
        return
    for f in sorted(d.glob('*.json')):
        replay_case(ctx, json.loads(f.read_text()), want, classify, quiet=True)
        ctx.count('corpus_cases')


def coq_view_diff(c):
    """names of the views on which the implementation differs from the functions of its own grid defined in
    coq/circuit/CViews.v (evaluated by the extracted model)"""
    import circ_common as cc
    try:
        iv = cc.impl_views(c)
    except Exception:
        return ['accessor_raised']
    out = vf.run_model('circuit', ['set ' + cc.dump(c), 'views'])
    return cc.diff_views(cc.model_views(out[1]), iv)


def replay_case(ctx: vf.Ctx, data, want, classify, quiet=False):
    import circ_common as cc
    case = data['case']

    def tup(x):
        return tuple(tup(y) for y in x) if isinstance(x, list) else x
    pre, call = tup(case['pre']), tup(case['call'])
    c = cc.circ_from_snap_exact(pre)
    import circ_run as cr
    out = cc.apply_impl(c, call)
    post = cc.snap(c)
    if not quiet:
        print('replay: call', call, '->', str(out)[:200])
    f = None
    try:
        cc.existing_points(c)
        iter_exc = None
    except Exception as e:
        iter_exc = type(e).__name__ + ':' + str(e)[:120]
    if out.kind == 'E' and out.val.startswith('Internal'):
        f = dict(kind='internal_error', step=0, call=call, detail=out.val, pre=pre)
    elif iter_exc is not None and 'views' not in want:
        f = dict(kind='iteration_raised', step=0, call=call, detail=iter_exc, pre=pre)
    elif 'views' in want and cc.check_views(c):
        bad = cc.check_views(c)
        f = dict(kind='views', step=0, call=call, symptoms=[b[0] for b in bad], detail=bad[:3], pre=pre)
    elif 'views' in want and coq_view_diff(c):
        f = dict(kind='coq_views', step=0, call=call, symptoms=coq_view_diff(c), pre=pre)
    elif 'order' in want and out.kind != 'E':
        try:
            if call[0] == 'fold' and cc.region_verdict(pre, call[1]) != 'ok':
                f = dict(kind='fold_accepted_invalid_region', step=0, call=call, pre=pre, post=post, detail=cc.region_verdict(pre, call[1]))
            elif call[0] in cr.SPEC and not cc.grouped_ok(cc.ref_apply(pre, call), post):
                f = dict(kind='order', step=0, call=call, pre=pre, post=post)
            elif (call[0] in cr.STRUCT_ONLY or call[0] == 'unfold') and cc.UTL(pre) != cc.UTL(post):
                f = dict(kind='structure_only_changed_program', step=0, call=call, pre=pre, post=post)
        except cc.SpecError:
            pass
    ctx.case(('replay', str(case)[:200]))
    if f is not None and classify(f):
        sig, what = classify(f)
        ctx.violation(sig, case, data.get('expected'), jsonable(f.get('post', f.get('detail'))), what)
    elif not quiet:
        print('replay: the recorded failure does not reproduce on the current tree')
