"""Shared framework for the /verif checks (see DESIGN.md section 2).

Every check:  build (regenerate gen/*.v from /repo, make, extraction) ->
proof obligations of coq/props/<ID>.v (+ Print Assumptions whitelist) ->
correspondence / property oracle runs of the property module -> evidence.
"""
from __future__ import annotations

import fcntl
import hashlib
import json
import os
import random
import re
import subprocess
import sys
import time
from pathlib import Path

ROOT = Path(__file__).resolve().parent.parent
COQ = ROOT / 'coq'
BUILD = ROOT / 'build'
REPO = Path(os.environ.get('VERIF_REPO', '/repo'))
PY = '/venv/bin/python'

# Axioms a property theorem may depend on (all declared by the standard
# library / Coquelicot's dependencies, never by this development).
AXIOM_WHITELIST = {
    'ClassicalDedekindReals.sig_forall_dec',
    'ClassicalDedekindReals.sig_not_dec',
    'FunctionalExtensionality.functional_extensionality_dep',
    'Classical_Prop.classic',
    'functional_extensionality_dep',
    'sig_forall_dec', 'sig_not_dec', 'classic',
    'Eqdep.Eq_rect_eq.eq_rect_eq', 'Eq_rect_eq.eq_rect_eq', 'eq_rect_eq',
    'JMeq.JMeq_eq', 'JMeq_eq',
    'ProofIrrelevance.proof_irrelevance', 'proof_irrelevance',
    'PropExtensionality.propositional_extensionality',
    'propositional_extensionality',
}

FORBIDDEN = [
    r'\bAdmitted\b', r'\badmit\b', r'\bAxiom\b', r'\bAxioms\b',
    r'\bParameter\b', r'\bParameters\b', r'\bConjecture\b',
    r'\bAdmit\s+Obligations\b', r'Unset\s+Guard', r'bypass_check',
    r'type-in-type', r'impredicative-set', r'Unset\s+Positivity',
    r'Unset\s+Universe', r'\bnative_compute\b',
]


def env_for_impl() -> dict:
    e = dict(os.environ)
    e['PYTHONPATH'] = str(REPO)
    e['PYTHONHASHSEED'] = '0'
    e['BQSKIT_VERIF'] = '1'
    e.setdefault('OMP_NUM_THREADS', '1')
    e.setdefault('OPENBLAS_NUM_THREADS', '1')
    return e


def sh(cmd, cwd=None, timeout=1800, env=None, inp=None):
    p = subprocess.run(
        cmd, cwd=cwd, shell=isinstance(cmd, str), capture_output=True,
        text=True, timeout=timeout, env=env, input=inp,
    )
    return p.returncode, p.stdout, p.stderr


def strip_comments(src: str) -> str:
    out, depth, i = [], 0, 0
    while i < len(src):
        if src.startswith('(*', i):
            depth += 1
            i += 2
        elif src.startswith('*)', i) and depth:
            depth -= 1
            i += 2
        else:
            if not depth:
                out.append(src[i])
            i += 1
    return ''.join(out)


def strip_strings(src: str) -> str:
    return re.sub(r'"[^"]*"', '""', src)


def forbidden_scan() -> list[str]:
    """Reject Admitted/Axiom/... anywhere in the development (comments and
    string literals stripped; Variable/Hypothesis outside a Section too)."""
    bad = []
    for f in sorted(COQ.rglob('*.v')):
        if f.name.startswith('wip_'):
            continue
        src = strip_strings(strip_comments(f.read_text()))
        for pat in FORBIDDEN:
            for m in re.finditer(pat, src):
                bad.append(f'{f.relative_to(ROOT)}: {m.group(0)}')
        depth = 0
        for m in re.finditer(
            r'(?m)^\s*(Section|Module|End|Variables?|Hypothes[ie]s|Context)\b', src,
        ):
            w = m.group(1)
            if w == 'Section':
                depth += 1
            elif w == 'End':
                depth = max(0, depth - 1)
            elif w == 'Module':
                depth += 1  # Module M. ... End M. (balanced with End)
            elif depth == 0:
                bad.append(f'{f.relative_to(ROOT)}: top-level {w}')
    return bad


# --------------------------------------------------------------------------
# build
# --------------------------------------------------------------------------

class Lock:
    def __enter__(self):
        BUILD.mkdir(exist_ok=True)
        self.f = open(BUILD / '.lock', 'w')
        fcntl.flock(self.f, fcntl.LOCK_EX)
        return self

    def __exit__(self, *a):
        fcntl.flock(self.f, fcntl.LOCK_UN)
        self.f.close()


def write_if_changed(path: Path, text: str) -> bool:
    if path.exists() and path.read_text() == text:
        return False
    path.parent.mkdir(parents=True, exist_ok=True)
    path.write_text(text)
    return True


def coq_files() -> list[str]:
    fs = []
    for f in sorted(COQ.rglob('*.v')):
        rel = f.relative_to(COQ)
        if rel.parts[0] in ('extract',) or rel.name.startswith('wip_'):
            continue
        fs.append(str(rel))
    return fs


def run_translators(only: set[str] | None = None) -> dict[str, str]:
    """Run every harness/gen/gen_*.py translator.  Returns {name: error}
    for translators that aborted (a broken tie for the properties served)."""
    errs = {}
    gdir = ROOT / 'harness' / 'gen'
    procs = []
    for g in sorted(gdir.glob('gen_*.py')):
        if only is not None and g.stem not in only:
            continue
        p = subprocess.Popen(
            [PY, str(g)], cwd=str(ROOT), env=env_for_impl(),
            stdout=subprocess.PIPE, stderr=subprocess.PIPE, text=True,
        )
        procs.append((g.stem, p))
    for name, p in procs:
        try:
            out, err = p.communicate(timeout=900)
        except subprocess.TimeoutExpired:
            p.kill()
            out, err = p.communicate()
            err += '\nTIMEOUT'
        if p.returncode != 0:
            errs[name] = (err or out)[-4000:]
    return errs


def make(targets: list[str] | None = None) -> tuple[int, str]:
    files = coq_files()
    cp = '-Q . BQ\n-arg -w -arg -notation-overridden,-deprecated-hint-without-locality,-deprecated-instance-without-locality,-ambiguous-paths,-redundant-canonical-projection\n' + '\n'.join(files) + '\n'
    changed = write_if_changed(COQ / '_CoqProject', cp)
    if changed or not (COQ / 'Makefile').exists():
        rc, out, err = sh('coq_makefile -f _CoqProject -o Makefile', cwd=COQ)
        if rc:
            return rc, out + err
    cmd = ['make', '-k', '-j16', 'COQC=timeout 1200 coqc'] + (targets or [])
    rc, out, err = sh(cmd, cwd=COQ, timeout=3000)
    return rc, out + err


def vo_ok(rel_v: str) -> bool:
    """Is coq/<rel_v>'s .vo present and up to date w.r.t. make's view?"""
    vo = rel_v[:-2] + '.vo'
    if not (COQ / vo).exists():
        return False
    rc, _, _ = sh(['make', '-q', vo], cwd=COQ)
    return rc == 0


def vo_closure(src: Path) -> list[Path] | None:
    """The .vo files of this development that `src` (a .v file) depends on, through its `From BQ Require ...` /
    `Require BQ....` sentences, transitively.  None when a referenced module cannot be resolved (caller falls back to
    every .vo): the extracted binaries are rebuilt only when something they are extracted from has changed."""
    seen: dict[Path, None] = {}
    todo = [src]
    while todo:
        f = todo.pop()
        try:
            txt = re.sub(r'\(\*.*?\*\)', ' ', f.read_text(), flags=re.S)
        except OSError:
            return None
        for m in re.finditer(r'(From\s+BQ\s+)?Require\s+(?:Import\s+|Export\s+)?(.*?)\.(?=\s|$)', txt, flags=re.S):
            frombq = bool(m.group(1))
            for name in m.group(2).split():
                if name.startswith('BQ.'):
                    rel = name[3:]
                elif frombq:
                    rel = name
                else:
                    continue            # a library of Coq itself or of user-contrib
                v = COQ / (rel.replace('.', '/') + '.v')
                if not v.exists():
                    return None
                if v not in seen:
                    seen[v] = None
                    todo.append(v)
    return [v.with_suffix('.vo') for v in seen]


def build_extracted(name: str) -> tuple[bool, str]:
    """coq/extract/<name>.v (Extraction "<name>_model.ml" ...) +
    coq/extract/<name>_driver.ml -> build/bin/<name>."""
    src_v = COQ / 'extract' / f'{name}.v'
    src_ml = COQ / 'extract' / f'{name}_driver.ml'
    out_dir = BUILD / 'extract' / name
    out_dir.mkdir(parents=True, exist_ok=True)
    binp = BUILD / 'bin' / name
    binp.parent.mkdir(parents=True, exist_ok=True)
    deps = vo_closure(src_v)
    newest = max(
        [src_v.stat().st_mtime, src_ml.stat().st_mtime, (COQ / 'extract' / 'common.ml').stat().st_mtime]
        + [p.stat().st_mtime for p in (deps if deps is not None else COQ.rglob('*.vo')) if p.exists()],
    )
    if binp.exists() and binp.stat().st_mtime >= newest:
        return True, ''
    rc, out, err = sh(
        ['coqc', '-Q', str(COQ), 'BQ', '-w', '-extraction', str(src_v), '-o', str(out_dir / f'{name}.vo')],
        cwd=out_dir, timeout=900,
    )
    if rc:
        return False, out + err
    mls = sorted(p.name for p in out_dir.glob('*.ml') if not p.name.endswith('_driver.ml'))
    for p in out_dir.glob('*.mli'):
        p.unlink()  # avoid interface mismatches; implementation is enough
    (out_dir / f'{name}_driver.ml').write_text(src_ml.read_text())
    (out_dir / 'common.ml').write_text((COQ / 'extract' / 'common.ml').read_text())
    mls = ['common.ml'] + [m for m in mls if m != 'common.ml']
    rc, out, err = sh(
        ['ocamlfind', 'ocamlopt', '-O2', '-package', 'str', '-linkpkg', '-w', '-a']
        + mls + [f'{name}_driver.ml', '-o', str(binp)],
        cwd=out_dir, timeout=900,
    )
    if rc:
        # flambda flag -O2 may be unsupported: retry without
        rc, out, err = sh(
            ['ocamlfind', 'ocamlopt', '-package', 'str', '-linkpkg', '-w', '-a']
            + mls + [f'{name}_driver.ml', '-o', str(binp)],
            cwd=out_dir, timeout=900,
        )
    return rc == 0, out + err


def theorems_of(prop: str) -> tuple[list[str], list[str]]:
    f = COQ / 'props' / f'{prop}.v'
    if not f.exists():
        return [], []
    src = strip_comments(f.read_text())
    thms = re.findall(r'(?m)^\s*(?:Theorem|Lemma|Corollary)\s+([A-Za-z0-9_\']+)', src)
    exs = re.findall(r'(?m)^\s*(?:Example|Fact)\s+([A-Za-z0-9_\']+)', src)
    return thms, exs


def print_assumptions(prop: str, names: list[str]) -> dict[str, list[str]]:
    d = BUILD / 'pa'
    d.mkdir(parents=True, exist_ok=True)
    lines = [f'Require Import BQ.props.{prop}.']
    for n in names:
        lines.append(f'Goal True. idtac "@@@ {n}". exact I. Qed.')
        lines.append(f'Print Assumptions {n}.')
    f = d / f'PA_{prop}.v'
    f.write_text('\n'.join(lines) + '\n')
    rc, out, err = sh(['coqc', '-Q', str(COQ), 'BQ', str(f)], cwd=d, timeout=900)
    res: dict[str, list[str]] = {}
    if rc:
        return {n: ['<Print Assumptions failed: ' + (err or out)[-300:] + '>'] for n in names}
    cur = None
    for ln in out.splitlines():
        m = re.match(r'@@@ (\S+)', ln)
        if m:
            cur = m.group(1)
            res[cur] = []
            continue
        if cur is None:
            continue
        if ln.startswith('Closed under the global context') or ln.startswith('Axioms:') or not ln.strip():
            continue
        m = re.match(r'^([A-Za-z_][A-Za-z0-9_\'.]*)\s*(:.*)?$', ln)
        if m and not ln.startswith(' '):
            res[cur].append(m.group(1))
    return res


# --------------------------------------------------------------------------
# extracted model process (line protocol)
# --------------------------------------------------------------------------

def run_model(name: str, lines: list[str], timeout=1800) -> list[str]:
    binp = BUILD / 'bin' / name
    p = subprocess.run(
        [str(binp)], input='\n'.join(lines) + '\n', capture_output=True,
        text=True, timeout=timeout,
    )
    if p.returncode != 0:
        raise RuntimeError(f'model {name} failed: {p.stderr[-2000:]}')
    return p.stdout.splitlines()


# --------------------------------------------------------------------------
# context
# --------------------------------------------------------------------------

def canon(x) -> str:
    return json.dumps(x, sort_keys=True, default=str, separators=(',', ':'))


class Ctx:
    def __init__(self, prop: str, tier: str, seed: int):
        self.prop, self.tier, self.seed = prop, tier, seed
        self.rng = random.Random(seed)
        self.t0 = time.time()
        self.level = 'proof'
        self.evaluations = 0
        self._hashes: set[str] = set()
        self.samples: list = []
        self.dist: dict[str, int] = {}
        self.cov: dict = {}
        self.assumptions: list[str] = []
        self.rule = ''
        self.violations: list[dict] = []
        self.known_hits: list[str] = []
        self.broken: list[dict] = []
        self.obligations = 0
        self.discharged = 0
        self.axioms: dict[str, list[str]] = {}
        self.trusted: list[str] = []
        self.known = self._load_known()
        self.translator_errors: dict[str, str] = {}
        self.build_log = ''

    # -- known findings ----------------------------------------------------
    def _load_known(self):
        ks = []
        f = ROOT / 'known_findings.json'
        if f.exists():
            ks += json.loads(f.read_text())
        for g in sorted((ROOT / 'known_findings.d').glob('*.json')) if (ROOT / 'known_findings.d').exists() else []:
            ks += json.loads(g.read_text())
        return [k for k in ks if k.get('property') == self.prop]

    def _match_known(self, sig: dict):
        for k in self.known:
            if k.get('status') != 'open':
                continue
            ks = k.get('signature', {})
            if ks and all(sig.get(a) == b for a, b in ks.items()):
                return k
        return None

    # -- accounting --------------------------------------------------------
    def quick(self) -> bool:
        return self.tier == 'quick'

    def n(self, quick: int, thorough: int) -> int:
        return quick if self.tier == 'quick' else thorough

    def case(self, key, nontrivial: bool = True):
        self.evaluations += 1
        if nontrivial:
            self._hashes.add(hashlib.sha1(canon(key).encode()).hexdigest())

    def count(self, key: str, n: int = 1):
        self.dist[key] = self.dist.get(key, 0) + n

    def sample(self, x, limit: int = 6):
        if len(self.samples) < limit:
            self.samples.append(x)

    # -- outcomes ----------------------------------------------------------
    def violation(self, signature: dict, case, expected, observed, what: str, kind='input', corr=None):
        k = self._match_known(signature)
        if k is not None:
            msg = f"KNOWN-FINDING: property={self.prop} {k.get('id', '')} {k.get('what', what)}"
            if msg not in self.known_hits:
                self.known_hits.append(msg)
            return False
        # one replay per distinct signature
        for v in self.violations:
            if v['signature'] == signature:
                v['count'] += 1
                return True
        self.violations.append(dict(
            signature=signature, case=case, expected=expected, observed=observed,
            what=what, kind=kind, theorem_or_correspondence=corr, count=1,
        ))
        return True

    def mismatch(self, corr: str, case, model, impl):
        """Model and implementation disagree on `case` while the property oracle found nothing wrong
        with the implementation: the correspondence no longer checks (first few cases are kept)."""
        self.count('correspondence_mismatch')
        for b in self.broken:
            if b['what'] == f'correspondence {corr} disagrees':
                b['n'] = b.get('n', 1) + 1
                return
        self.broken.append(dict(what=f'correspondence {corr} disagrees', detail=canon(dict(case=case, model=model, impl=impl))[:6000], n=1))

    def broken_obligation(self, what: str, detail: str):
        """A theorem or a correspondence/translator no longer checks."""
        self.broken.append(dict(what=what, detail=detail[-3000:]))

    # -- build + proof obligations ----------------------------------------
    def build(self, extracted: list[str] = (), translators: set[str] | None = None, props: list[str] | None = None,
              vo_targets: list[str] = ()):
        """translators: names of harness/gen/gen_*.py to run (None = all).  Only the .vo closure of
        props/<ID>.v (+ vo_targets, e.g. 'rt/ServerM.vo', + what the extraction files import) is built."""
        with Lock():
            self.translator_errors = run_translators(translators)
            tg = [f'props/{p}.vo' for p in (props or [self.prop])] + list(vo_targets)
            for name in extracted:
                src = (COQ / 'extract' / f'{name}.v').read_text()
                for m in re.finditer(r'(?:From\s+BQ\s+)?Require\s+(?:Import\s+|Export\s+)?([^.]*(?:\.[A-Za-z_][\w]*)*)\.', strip_comments(src)):
                    for mod in m.group(1).split():
                        mod = mod.removeprefix('BQ.')
                        f = COQ / (mod.replace('.', '/') + '.v')
                        if f.exists():
                            tg.append(mod.replace('.', '/') + '.vo')
            rc, log = make(sorted(set(tg)))
            self.build_log = log
            self.make_rc = rc
            self.extract_ok = {}
            for name in extracted:
                ok, elog = build_extracted(name)
                self.extract_ok[name] = ok
                if not ok:
                    self.broken_obligation(f'extraction of model {name} failed', elog)
            bad = forbidden_scan()
            if bad:
                self.broken_obligation('forbidden token in the Coq development', '\n'.join(bad))
            self._obligations(props or [self.prop])
        for t, e in self.translator_errors.items():
            self.translator_broken(t, e)

    def translator_broken(self, name: str, err: str):
        # property modules override relevance through self.uses_translators
        uses = getattr(self, 'uses_translators', None)
        if uses is None or name in uses:
            self.broken_obligation(f'translator {name} aborted (model cannot be regenerated from /repo)', err)

    def _obligations(self, props: list[str]):
        for prop in props:
            thms, exs = theorems_of(prop)
            self.obligations += len(thms) + len(exs)
            ok = vo_ok(f'props/{prop}.v')
            if ok:
                self.discharged += len(thms) + len(exs)
                pa = print_assumptions(prop, thms)
                self.axioms.update(pa)
                for t, axs in pa.items():
                    for a in axs:
                        if a not in AXIOM_WHITELIST and a.split('.')[-1] not in AXIOM_WHITELIST:
                            self.broken_obligation(f'theorem {t} depends on non-whitelisted axiom {a}', a)
            else:
                err = self._first_error(prop)
                self.broken_obligation(f'proof obligations of props/{prop}.v do not check', err)
        self.theorem_names = sum((theorems_of(p)[0] for p in props), [])

    def _first_error(self, prop: str) -> str:
        log = self.build_log
        # find the first failing file in the make log
        m = re.search(r'(File "[^"]+", line \d+, characters [\d-]+:\n(?:.*\n){0,12})', log)
        errs = re.findall(r'make.*?\*\*\* \[[^\]]*?([A-Za-z0-9_/]+\.vo)\]', log)
        return (f'failed targets: {sorted(set(errs))}\n' if errs else '') + (m.group(1) if m else log[-1500:])

    # -- finish ------------------------------------------------------------
    def finish(self) -> int:
        wall = time.time() - self.t0
        rep_dir = ROOT / 'replays'
        rep_dir.mkdir(exist_ok=True)
        lines = []
        for v in self.violations:
            h = hashlib.sha1(canon([v['signature'], v['case']]).encode()).hexdigest()[:12]
            p = rep_dir / f'{self.prop}-{h}.json'
            p.write_text(json.dumps(dict(property=self.prop, seed=self.seed, **v), indent=1, default=str))
            lines.append(f'VIOLATION property={self.prop} replay={p}')
        if self.broken and not self.violations:
            h = hashlib.sha1(canon(self.broken).encode()).hexdigest()[:12]
            p = rep_dir / f'{self.prop}-broken-{h}.json'
            p.write_text(json.dumps(dict(
                property=self.prop, kind='broken-obligation', seed=self.seed,
                theorem_or_correspondence=[b['what'] for b in self.broken], broken=self.broken,
            ), indent=1, default=str))
            lines.append(f'VIOLATION property={self.prop} replay={p} no-failing-input-found')
        elif self.broken:
            # a failing input was found; still name the broken obligations in its replay
            pass
        cov = dict(
            obligations=self.obligations, discharged=self.discharged,
            checker_cmd='cd /verif/coq && make (coqc 8.16.1, full .vo build) ; Print Assumptions per theorem of props/%s.v' % self.prop,
            trusted_base=self.trusted or ['Coq 8.16.1 kernel + vm_compute', 'ExtrOcamlBasic extraction + OCaml 4.13.1', 'python harness / canonicalisation'],
            theorems=getattr(self, 'theorem_names', []),
            axioms={k: v for k, v in self.axioms.items() if v},
            evaluations=self.evaluations,
            distinct_nontrivial=len(self._hashes),
            rule=self.rule,
            samples=self.samples or ['<none>'],
            distribution=self.dist,
            known_findings_reproduced=self.known_hits,
            broken=[b['what'] for b in self.broken],
        )
        cov.update(self.cov)
        level = self.level
        if level == 'proof' and (self.obligations == 0 or self.discharged != self.obligations):
            # never claim a proof-level run when obligations are open
            pass
        ev = dict(
            property_id=self.prop, tier=self.tier, seed=self.seed, level=level,
            coverage=cov, assumptions=self.assumptions, wall_s=round(wall, 2),
            violations=len(self.violations) + (1 if self.broken and not self.violations else 0),
        )
        (ROOT / 'evidence').mkdir(exist_ok=True)
        (ROOT / 'evidence' / f'{self.prop}.json').write_text(json.dumps(ev, indent=1, default=str))
        for m in self.known_hits:
            print(m)
        for ln in lines:
            print(ln)
        print(f'[{self.prop}] tier={self.tier} seed={self.seed} obligations={self.discharged}/{self.obligations} '
              f'evaluations={self.evaluations} distinct={len(self._hashes)} violations={len(lines)} wall={wall:.1f}s')
        sys.stdout.flush()
        return 1 if lines else 0
