"""In-process BQSKit runtime simulator: REAL Worker objects (both of their threads) under a
REAL DetachedServer object, with every channel and every thread switch owned by the caller.
No edits to /repo: fake connections, instrumented Queue/list/Lock, sys.settrace.

API (reusable by other properties, e.g. C12/C14)
------------------------------------------------
  sim = Sim(k, seed=0, fine=True)       k workers (ids 0..k-1) directly under one server.
                                        fine=True additionally parks the worker main thread
                                        inside Worker._process_await (aw1/aw1c/aw2).
  sim.add_client() -> c                 a fake client connection registered at the server
  sim.submit_root(c, script, nid, falsy=None)
                                        real handle_new_comp_task; returns dict(box=<server mailbox id>,
                                        target=<worker>, uuid=..).  falsy in FALSY_KINDS makes the root's result a
                                        falsy-but-not-None python object (empty Circuit, 0, '', [], ()) tagged with nid
  sim.request(c, root) / sim.status(c, root)
                                        the client's REQUEST / STATUS through the real server handlers
  sim.enabled() -> [('recv', i) | ('recv2', i) | ('main', i) | ('server', i)]
  sim.do(ev) -> info                    executes exactly one event:
       ('recv', i)    worker i's real receiving thread (recv_incoming) handles the next message
       ('recv2', i)   only after sim.arm_deposit_gate(i): the receiving thread was parked INSIDE
                      WorkerMailbox.deposit_result, between storing the value and counting it (whichever
                      the code does first); this event lets it finish the handler
       ('main', i)    worker i's real main thread (_loop) runs from its current gate to the next
       ('server', i)  real server.handle_message for the next message from worker i; info['asg'] is
                      the assignment it made ([[worker, [positions in the batch]], ...])
  sim.dump() -> str                     canonical text of all worker tables, channels (see vworker
                                        in coq/extract/worker_driver.ml: same syntax)
  sim.workers[i].w                      the real Worker;  sim.server  the real DetachedServer
  sim.down[i], sim.workers[i].up        FIFO lists of (RuntimeMessage, payload)
  sim.clients[c].inbox                  messages the server sent to client c
  sim.exceptions                        [(where, exception text)] raised outside task bodies
  sim.log                               what the task bodies saw: ('start', nid, addr),
                                        ('obs', nid, f, kind, value), ('ret', nid, v)
  sim.close()                           stops all threads (always call; use try/finally)

sim.arm_gnr_gate(i): the main thread of worker i is additionally parked before EVERY source line of
WorkerMailbox.get_new_results (label 'gnr'), so that the caller can let the receiving thread deposit further
results in between (sim.arm_deposit_gate(i) is the dual: receiving thread parked inside deposit_result).

Gates of the main thread (label = where it is parked):  loop (top of `while True` in
_get_next_ready_task, inside Queue.empty()), promote (before _delayed_tasks.pop()), get
(before read_receipt_mutex.acquire()), blocked (inside the blocking Queue.get()), aw1 / aw1c /
aw2 (before `box.dest_addr = ..`, `task.wake_on_next = ..`, `if box.ready` in _process_await,
located through the ast, fail-closed), dead (_loop returned).

Task bodies are scripts interpreted by `body` below:
  ('sub', script, nid) ('map', [(script, nid), ...]) ('aw', f) ('nx', f) ('na', f) ('ret', v)
"""
from __future__ import annotations

import ast
import inspect
import logging
import queue
import random
import sys
import textwrap
import threading
import time
import uuid

from bqskit.ir.circuit import Circuit  # noqa: F401  (import order)
import bqskit.runtime.worker as wmod
import bqskit.runtime.base as bmod
from bqskit.runtime.worker import Worker
from bqskit.runtime.detached import DetachedServer
from bqskit.runtime.base import RuntimeEmployee
from bqskit.runtime.message import RuntimeMessage as M
from bqskit.runtime.direction import MessageDirection as D
from bqskit.runtime.address import RuntimeAddress
from bqskit.runtime.task import RuntimeTask
from bqskit.runtime import get_runtime

logging.getLogger('bqskit.runtime').setLevel(logging.CRITICAL + 1)   # worker/server tracebacks are observed, not printed
TIMEOUT = 90.0       # generous: the box may be heavily loaded; a real hang is still reported


class SimHang(Exception):
    pass


# ---------------------------------------------------------------------------
# task bodies
# ---------------------------------------------------------------------------
_tl = threading.local()
wmod.get_worker = lambda: _tl.worker          # one "process" per thread


class WorkerKilled(Exception):
    """The real worker would have SIGKILLed its own process here (SHUTDOWN / lost connection)."""


class _OsProxy:
    # bqskit.runtime.worker calls os.kill(os.getpid(), SIGKILL) on SHUTDOWN: never let that hit the harness
    def __getattr__(self, name):
        import os as _os
        return getattr(_os, name)

    def kill(self, pid, sig):
        raise WorkerKilled('os.kill(%s, %s)' % (pid, sig))


wmod.os = _OsProxy()
import bqskit.runtime.detached as _dmod  # noqa: E402
_dmod.time = type('T', (), {'sleep': staticmethod(lambda s: None), 'time': staticmethod(__import__('time').time)})()
_LOG: list = []                                # replaced per Sim (single Sim alive at a time per process)


FALSY_KINDS = ('circuit', 'int', 'str', 'list', 'tuple')


class _TInt(int):
    pass


class _TStr(str):
    pass


class _TList(list):
    pass


class _TTuple(tuple):
    pass


def make_falsy(kind, tag):
    """A falsy, not-None result object that remembers which task returned it."""
    if kind == 'circuit':
        v = Circuit(1)                  # no operations: len(v) == 0, so bool(v) is False
    else:
        v = {'int': _TInt, 'str': _TStr, 'list': _TList, 'tuple': _TTuple}[kind]()
    v.c07_tag = tag
    assert not v and v is not None
    return v


def _canon_val(v):
    if hasattr(v, 'c07_tag'):
        return v.c07_tag
    if v is None or isinstance(v, int):
        return v
    if isinstance(v, (list, tuple)):
        return [_canon_val(x) for x in v]
    return '?' + type(v).__name__


async def body(script, nid):
    rt = get_runtime()
    addr = tuple(rt._active_task.return_address)
    _LOG.append(('start', nid, addr))
    futs = []
    sizes = []
    for cmd in script:
        op = cmd[0]
        if op == 'sub':
            futs.append(rt.submit(body, cmd[1], cmd[2]))
            sizes.append(1)
        elif op == 'map':
            futs.append(rt.map(body, [c[0] for c in cmd[1]], [c[1] for c in cmd[1]]))
            sizes.append(len(cmd[1]))
        elif op == 'aw':
            v = await futs[cmd[1]]
            _LOG.append(('obs', nid, cmd[1], 'await', _canon_val(v)))
        elif op == 'nx':
            b = await rt.next(futs[cmd[1]])
            _LOG.append(('obs', nid, cmd[1], 'next', _canon_val(b)))
        elif op == 'na':
            got = 0
            n = sizes[cmd[1]]      # IndexError for a bad future index, like futs[...]
            while got < n:
                b = await rt.next(futs[cmd[1]])
                _LOG.append(('obs', nid, cmd[1], 'next', _canon_val(b)))
                got += len(b)
        elif op == 'ret':
            _LOG.append(('ret', nid, cmd[1]))
            return cmd[1]
        else:
            raise ValueError(op)
    _LOG.append(('ret', nid, None))
    return None


class FakeWorkflow:
    def __init__(self, script, nid, falsy=None):
        self.script, self.nid, self.owner, self.falsy = script, nid, None, falsy

    async def run(self, circuit, data):
        v = await body(self.script, self.nid)
        self.owner.circuit = make_falsy(self.falsy, v) if self.falsy else v


class FakeCT:
    """Stands for CompilationTask: the real CompilationTask.run is the root body."""

    def __init__(self, script, nid, falsy=None):
        self.task_id = uuid.uuid4()
        self.logging_level = None
        self.max_logging_depth = -1
        self.request_data = False
        self.circuit = None
        self.data = None
        self.workflow = FakeWorkflow(script, nid, falsy)
        self.workflow.owner = self


# ---------------------------------------------------------------------------
# gates
# ---------------------------------------------------------------------------
class Gate:
    def __init__(self):
        # two raw locks used as binary semaphores (strict alternation harness <-> thread): much cheaper
        # than threading.Semaphore, the co-simulation is bound by these hand-offs
        self.go = threading.Lock()
        self.go.acquire()
        self.arrived = threading.Lock()
        self.arrived.acquire()
        self.label = None
        self.info = None
        self.passthrough = False
        self.thread_ident = None

    def park(self, label, info=None):            # worker side
        if self.passthrough:
            return
        self.label, self.info = label, info
        self.arrived.release()
        self.go.acquire()

    def finish(self, label, info=None):          # worker side: thread ends
        self.label, self.info = label, info
        try:
            self.arrived.release()
        except RuntimeError:
            pass

    def wait(self):                              # harness side
        """Wait for the thread to park.  A thread that is slow (loaded box) but moving is waited
        for; one whose frame does not change over 3 samples (TIMEOUT seconds) is a hang."""
        import traceback as _tb
        last, same, t0 = None, 0, time.time()
        while not self.arrived.acquire(timeout=TIMEOUT / 3.0):
            fr = sys._current_frames().get(self.thread_ident) if self.thread_ident else None
            sig = None if fr is None else (id(fr), fr.f_lineno, fr.f_lasti)
            same = same + 1 if sig == last else 0
            last = sig
            if same >= 2 or time.time() - t0 > 10 * TIMEOUT:
                stacks = ['alive threads: %d, waited %.0fs' % (threading.active_count(), time.time() - t0)]
                me_ = threading.get_ident()
                for tid, f in sys._current_frames().items():
                    if tid != me_:
                        stacks.append('thread %s:\n%s' % (tid, ''.join(_tb.format_stack(f)[-70:])))
                text = 'thread did not reach a gate (label=%s)\n%s' % (self.label, '\n'.join(stacks))
                try:        # keep the full picture for diagnosis
                    import os as _os
                    d = _os.path.join(_os.path.dirname(_os.path.dirname(_os.path.abspath(__file__))), 'build')
                    _os.makedirs(d, exist_ok=True)
                    open(_os.path.join(d, 'c07_gate_timeout_%d.txt' % _os.getpid()), 'w').write(text)
                except Exception:
                    pass
                raise SimHang(text[-6000:])

    def advance(self):                           # harness side
        self.go.release()
        self.wait()


class IQueue(queue.Queue):
    def __init__(self, wr):
        super().__init__()
        self.wr = wr

    def empty(self):
        if threading.current_thread() is self.wr.main_thread:
            self.wr.gate.park('loop')
        return super().empty()

    def get(self, block=True, timeout=None):
        if block and threading.current_thread() is self.wr.main_thread:
            self.wr.gate.park('blocked')
            return super().get(False)
        return super().get(block, timeout)


class GList(list):
    def __init__(self, wr, *a):
        super().__init__(*a)
        self.wr = wr

    def pop(self, *a):
        if threading.current_thread() is self.wr.main_thread:
            self.wr.gate.park('promote')
        return super().pop(*a)


class GLock:
    def __init__(self, wr):
        self.wr = wr
        self.lock = threading.Lock()

    def acquire(self, *a, **k):
        if threading.current_thread() is self.wr.main_thread:
            self.wr.gate.park('get')
        return self.lock.acquire(*a, **k)

    def release(self):
        self.lock.release()


class Chan:
    """The worker's duplex connection: send = append to the upward FIFO, recv = gate."""

    def __init__(self, wr):
        self.wr = wr
        self.closed = False

    def send(self, m):
        self.wr.up.append(m)

    def recv(self):
        self.wr.rgate.park('recv')
        m = self.wr.inbox
        self.wr.inbox = None
        if m is None:                            # closing
            return (M.IMPORTPATH, [])
        return m

    def close(self):
        self.closed = True


class DownChan:
    def __init__(self, lst):
        self.q = lst
        self.closed = False

    def send(self, m):
        self.q.append(m)

    def close(self):
        self.closed = True


class ClientChan:
    def __init__(self, name):
        self.name = name
        self.inbox = []
        self.closed = False

    def send(self, m):
        self.inbox.append(m)

    def close(self):
        self.closed = True


class FakeSel:
    def unregister(self, c):
        pass

    def close(self):
        pass


def await_markers():
    """Line numbers of the three registration statements of Worker._process_await, found
    through the ast (robust to renamed locals); fail-closed."""
    src = textwrap.dedent(inspect.getsource(Worker._process_await))
    first = Worker._process_await.__code__.co_firstlineno
    fn = ast.parse(src).body[0]
    marks = {}
    for st in fn.body:
        if isinstance(st, ast.Assign) and len(st.targets) == 1 and isinstance(st.targets[0], ast.Attribute):
            if st.targets[0].attr == 'dest_addr':
                marks.setdefault('aw1', st.lineno + first - 1)
            elif st.targets[0].attr == 'wake_on_next':
                marks.setdefault('aw1c', st.lineno + first - 1)
        elif isinstance(st, ast.If) and isinstance(st.test, ast.Attribute) and st.test.attr == 'ready':
            marks['aw2'] = st.lineno + first - 1
    if set(marks) != {'aw1', 'aw1c', 'aw2'} or not (marks['aw1'] < marks['aw1c'] < marks['aw2']):
        raise RuntimeError('Worker._process_await no longer has the shape dest_addr=.. ; wake_on_next=.. ; '
                           'if box.ready (found %r): the interleaving harness cannot be tied to it' % marks)
    return {v: k for k, v in marks.items()}


def deposit_marker():
    """WorkerMailbox.deposit_result both stores the value (`if self.expecting_single_result: ...`) and counts
    it (`self.num_results += 1`).  Returns the line of whichever of the two statements comes LATER, so a
    receiving thread parked there has done exactly one of them (found through the ast; -1 = shape changed,
    the gate is then never reached)."""
    fn = wmod.WorkerMailbox.deposit_result
    src = textwrap.dedent(inspect.getsource(fn))
    first = fn.__code__.co_firstlineno
    node = ast.parse(src).body[0]
    inc = store = None
    for st in node.body:
        if isinstance(st, ast.AugAssign) and isinstance(st.target, ast.Attribute) and st.target.attr == 'num_results':
            inc = st.lineno
        if isinstance(st, ast.If) and isinstance(st.test, ast.Attribute) and st.test.attr == 'expecting_single_result':
            store = st.lineno
    if inc is None or store is None:
        return -1
    return max(inc, store) + first - 1


class WorkerRig:
    def __init__(self, sim, wid, fine):
        self.sim, self.wid, self.fine = sim, wid, fine
        self.up: list = []
        self.inbox = None
        self.gate = Gate()
        self.rgate = Gate()
        self.main_thread = None
        self.rdead = None
        self.mdead = False
        w = Worker.__new__(Worker)
        self.w = w
        self.conn = Chan(self)
        old = logging.getLogRecordFactory()
        self.dep_armed = False
        dep_code = wmod.WorkerMailbox.deposit_result.__code__
        dep_line = deposit_marker()

        def rlocal(frame, event, arg):
            if event == 'line' and frame.f_lineno == dep_line and self.dep_armed:
                self.dep_armed = False
                self.rgate.park('dep')
            return rlocal

        def rtracer(frame, event, arg):
            if frame.f_code is dep_code:
                return rlocal
            return None

        try:
            if fine:
                threading.settrace(rtracer)        # inherited by the receiving thread started in __init__
            Worker.__init__(w, wid, self.conn)     # real constructor: starts the real receiving thread
        finally:
            threading.settrace(None)
            logging.setLogRecordFactory(old)
        # the receiving thread is now running recv_incoming and heads for conn.recv()
        self.rthread = w.incoming_thread
        self.rgate.thread_ident = self.rthread.ident
        self.rgate.wait()
        assert self.up and self.up[0] == (M.STARTED, wid)
        self.up.clear()
        w._ready_task_ids = IQueue(self)
        w._delayed_tasks = GList(self)
        w.read_receipt_mutex = GLock(self)
        markers = await_markers() if fine else {}
        code = Worker._process_await.__code__

        def local(frame, event, arg):
            if event == 'line' and frame.f_lineno in markers:
                names = code.co_varnames
                t, f = frame.f_locals[names[1]], frame.f_locals[names[2]]
                self.gate.park(markers[frame.f_lineno], (tuple(t.return_address), f.mailbox_id, bool(f._next_flag)))
            return local

        gnr_code = wmod.WorkerMailbox.get_new_results.__code__
        self.gnr_armed = False

        def local_gnr(frame, event, arg):
            if event == 'line' and self.gnr_armed:
                self.gate.park('gnr', frame.f_lineno)
            return local_gnr

        def tracer(frame, event, arg):
            if frame.f_code is code:
                return local
            if frame.f_code is gnr_code:
                return local_gnr
            return None

        def run():
            _tl.worker = w
            if fine:
                sys.settrace(tracer)
            try:
                w._loop()
            except BaseException as e:  # noqa
                self.sim.exceptions.append(('main%d' % wid, repr(e)))
            finally:
                sys.settrace(None)
                self.mdead = True
                self.gate.finish('dead')

        self.main_thread = threading.Thread(target=run, daemon=True)
        # the receiving thread: catch an uncaught handler exception (the real thread would die)
        self.main_thread.start()
        self.gate.thread_ident = self.main_thread.ident
        self.gate.wait()                           # parked at 'loop'

    # canonical pc
    def pc(self):
        lb = self.gate.label
        if lb in ('aw1', 'aw1c'):
            a, m, nx = self.gate.info
            return [lb, list(a), m, 'T' if nx else 'F']
        if lb == 'aw2':
            a, m, nx = self.gate.info
            return [lb, list(a), m]
        return lb


def _install_thread_excepthook():
    # a handler exception kills the real receiving thread; tell the rig
    if getattr(threading, '_rtsim_hook', False):
        return
    old = threading.excepthook

    def hook(args):
        rig = _RIGS.get(args.thread)
        if rig is not None:
            rig.rdead = repr(args.exc_value)
            rig.sim.exceptions.append(('recv%d' % rig.wid, ''.join(__import__('traceback').format_exception(args.exc_type, args.exc_value, args.exc_traceback))[-600:]))
            rig.rgate.finish('rdead')
            return
        old(args)
    threading.excepthook = hook
    threading._rtsim_hook = True


_RIGS: dict = {}


def fmt(x) -> str:
    if isinstance(x, (list, tuple)):
        return '[' + ' '.join(fmt(y) for y in x) + ']'
    if x is None:
        return 'N'
    if x is True:
        return 'T'
    if x is False:
        return 'F'
    return str(x)


def caddr(a):
    return None if a is None else [a[0], a[1], a[2]]


def cmsg(mp):
    m, p = mp
    if m == M.SUBMIT:
        return ['submit', caddr(p.return_address)]
    if m == M.SUBMIT_BATCH:
        return ['batch'] + [caddr(t.return_address) for t in p]
    if m == M.RESULT:
        return ['result', caddr(p.return_address), _canon_val(p.result), p.completed_by]
    if m == M.WAITING:
        return ['waiting', caddr(p[1])] if p[0] == 1 else ['waiting', p[0], caddr(p[1])]
    if m == M.UPDATE:
        return 'update' if p == -1 else ['update', p]
    if m == M.ERROR:
        return ['error', p[0]] if isinstance(p, tuple) else 'fatal'
    if m == M.CANCEL:
        return ['cancel', caddr(p)]
    return ['other', m.name]


def cchan(q):
    # SHUTDOWN is what a dying server broadcasts; the run ends there and the model has no such message
    return [cmsg(m) for m in q if m[0] != M.SHUTDOWN]


class Sim:
    def __init__(self, k: int, seed: int = 0, fine: bool = True):
        global _LOG
        _install_thread_excepthook()
        self.k, self.fine = k, fine
        self.exceptions: list = []
        self.log: list = []
        _LOG = self.log
        RuntimeTask.task_counter = 0
        self.workers = [WorkerRig(self, i, fine) for i in range(k)]
        for r in self.workers:
            _RIGS[r.rthread] = r
        self.down = [[] for _ in range(k)]
        self.rng = random.Random(seed)
        s = DetachedServer.__new__(DetachedServer)
        s.lower_id_bound, s.upper_id_bound, s.running = 0, 2 ** 30, True
        s.sel = FakeSel()
        s.employees, s.conn_to_employee_dict = [], {}
        s.outgoing = queue.Queue()
        s.clients, s.tasks, s.mailbox_to_task_dict, s.mailboxes, s.mailbox_counter = {}, {}, {}, {}, 0
        self.dconn = []
        for r in self.workers:
            c = DownChan(self.down[r.wid])
            self.dconn.append(c)
            e = RuntimeEmployee(r.wid, c, 1)
            s.employees.append(e)
            s.conn_to_employee_dict[c] = e
        s.step_size, s.total_workers, s.num_idle_workers = 1, k, k
        self.server = s
        self.clients: list[ClientChan] = []
        self.roots: list[dict] = []
        self.server_dead = None

    # -- server side -------------------------------------------------------
    def _with_rng(self, f):
        old = bmod.random
        bmod.random = self.rng
        try:
            return f()
        finally:
            bmod.random = old

    def _drain(self, batch=None):
        """Move the server's outgoing queue into the channels; returns the assignment made."""
        asg = []
        while not self.server.outgoing.empty():
            c, m, p = self.server.outgoing.get()
            if c.closed:
                continue
            c.send((m, p))
            if m == M.SUBMIT_BATCH and batch is not None and isinstance(c, DownChan):
                pos = []
                for t in p:
                    pos.append(next(i for i, u in enumerate(batch) if u is t))
                asg.append([self.dconn.index(c), pos])
        return asg

    def add_client(self) -> int:
        c = ClientChan('client%d' % len(self.clients))
        self.server.clients[c] = set()
        self.clients.append(c)
        return len(self.clients) - 1

    def submit_root(self, c: int, script, nid, falsy=None) -> dict:
        ct = FakeCT(script, nid, falsy)
        conn = self.clients[c]
        before = [len(d) for d in self.down]
        self._with_rng(lambda: self.server.handle_message(M.SUBMIT, D.CLIENT, conn, ct))
        self._drain()
        target = next(i for i in range(self.k) if len(self.down[i]) > before[i])
        box = self.server.tasks[ct.task_id][0]
        info = dict(uuid=ct.task_id, box=box, target=target, client=c, nid=nid)
        self.roots.append(info)
        return info

    def request(self, c: int, root: dict):
        """The client's blocking result(): REQUEST now, the RESULT shows up in clients[c].inbox."""
        self.server.handle_message(M.REQUEST, D.CLIENT, self.clients[c], root['uuid'])
        self._drain()

    def status(self, c: int, root: dict) -> str:
        """The client's status(): 'DONE' / 'RUNNING' / 'UNKNOWN' as answered by the real server."""
        conn = self.clients[c]
        n = len(conn.inbox)
        self.server.handle_message(M.STATUS, D.CLIENT, conn, root['uuid'])
        self._drain()
        ans = [p for m, p in conn.inbox[n:] if m == M.STATUS]
        conn.inbox[n:] = [mp for mp in conn.inbox[n:] if mp[0] != M.STATUS]
        return ans[0].name if len(ans) == 1 else 'ANSWERS=%d' % len(ans)

    # -- events ------------------------------------------------------------
    def enabled(self):
        ev = []
        if self.server_dead is not None:
            return ev           # the server shut the whole runtime down
        for r in self.workers:
            if r.rgate.label == 'dep' and r.rdead is None:
                ev.append(('recv2', r.wid))
            elif self.down[r.wid] and r.rdead is None:
                ev.append(('recv', r.wid))
            if not r.mdead and (r.gate.label != 'blocked' or r.w._ready_task_ids.qsize() > 0):
                ev.append(('main', r.wid))
            if r.up and self.server_dead is None:
                ev.append(('server', r.wid))
        return ev

    def do(self, ev):
        kind, i = ev
        r = self.workers[i]
        info = {}
        if kind == 'recv':
            r.inbox = self.down[i].pop(0)
            if r.inbox[0] == M.SHUTDOWN:        # would SIGKILL the process
                r.inbox = None
                r.rdead = 'SHUTDOWN'
                return info
            r.rgate.advance()
        elif kind == 'recv2':
            r.rgate.advance()
        elif kind == 'main':
            r.gate.advance()
        elif kind == 'server':
            m, p = r.up.pop(0)
            batch = [p] if m == M.SUBMIT else list(p) if m == M.SUBMIT_BATCH else None
            try:
                # messages from below are looked up by the connection they arrive on
                self.server.conn_to_employee_dict[r.conn] = self.server.employees[i]
                self._with_rng(lambda: self.server.handle_message(m, D.BELOW, r.conn, p))
            except Exception as e:  # noqa
                import traceback
                self.exceptions.append(('server', traceback.format_exc()[-600:]))
                self.server_dead = repr(e)
            info['asg'] = self._drain(batch)
        return info

    def arm_gnr_gate(self, i, on=True):
        """Park the main thread of worker i before every source line of WorkerMailbox.get_new_results."""
        self.workers[i].gnr_armed = on

    def arm_deposit_gate(self, i):
        """The next RESULT handled by worker i parks its receiving thread inside deposit_result."""
        self.workers[i].dep_armed = True

    # -- observation -------------------------------------------------------
    def dump_worker(self, r):
        w = r.w
        tasks = [[caddr(t.return_address), t.comp_task_id, t.desired_box_id, bool(t.wake_on_next), list(t.owned_mailboxes)]
                 for t in w._tasks.values()]
        boxes = []
        for k, b in w._mailboxes.items():
            res = _canon_val(b.result)
            fresh = None if b.fresh_results is None else [[s, _canon_val(v)] for s, v in b.fresh_results]
            boxes.append([k, bool(b.expecting_single_result), b.expected_num_results, b.num_results, res,
                          caddr(b.dest_addr), fresh])
        return ['W', w._id, r.pc(), tasks, [caddr(t.return_address) for t in w._delayed_tasks],
                [caddr(a) for a in list(w._ready_task_ids.queue)], boxes, w._mailbox_counter,
                caddr(w.most_recent_read_submit), cchan(r.up), r.rdead is not None]

    def dump(self) -> str:
        ws = [self.dump_worker(r) for r in self.workers]
        down = [cchan(d) for d in self.down]
        return fmt([ws, down])

    def close(self):
        for r in self.workers:
            r.w._running = False
            r.gate.passthrough = True
            r.rgate.passthrough = True
            try:
                r.w._ready_task_ids.put(RuntimeAddress(-9, -9, -9))
            except Exception:
                pass
            for g in (r.gate, r.rgate):
                try:
                    g.go.release()
                except RuntimeError:
                    pass
            _RIGS.pop(r.rthread, None)
        for r in self.workers:
            if r.main_thread is not None:
                r.main_thread.join(timeout=2)
            r.rthread.join(timeout=2)
