"""Instrumented passes, predicates and callables for the C11 correspondence runs.

Everything here is defined at module level so that workflows survive dill/pickle to the
runtime's workers (the client ships its sys.path; workers import this module by name).

Trace channel: every body start / predicate answer / condition answer is one JSON line,
appended with a single os.write to `trace_path` (O_APPEND, so concurrent workers do not
interleave inside a line); when trace_path is None the event goes to the in-process list
TRACE (direct `asyncio.run(pass.run(...))` runs).
"""
from __future__ import annotations

import json
import os
from fractions import Fraction

from bqskit.compiler.basepass import BasePass
from bqskit.compiler.machine import MachineModel
from bqskit.ir.circuit import Circuit
from bqskit.ir.gates import CCXGate
from bqskit.ir.gates import CircuitGate
from bqskit.ir.gates import CNOTGate
from bqskit.ir.gates import CZGate
from bqskit.ir.gates import HGate
from bqskit.ir.gates import RZGate
from bqskit.ir.gates import SwapGate
from bqskit.ir.gates import TGate
from bqskit.ir.gates import U3Gate
from bqskit.ir.gates import XGate
from bqskit.ir.operation import Operation
from bqskit.passes.control.predicate import PassPredicate
from bqskit.qis.graph import CouplingGraph

TRACE: list = []

# ---- gate catalogue: id -> (gate, params).  The model only sees the ids. -------------
CATALOGUE = {
    1: (XGate(), ()),
    2: (HGate(), ()),
    3: (CNOTGate(), ()),
    4: (CZGate(), ()),
    5: (TGate(), ()),
    6: (RZGate(), (0.01,)),       # bounded perturbation
    7: (RZGate(), (0.02,)),
    8: (SwapGate(), ()),
    9: (CCXGate(), ()),
    10: (U3Gate(), (0.3, 0.2, 0.1)),
    11: (RZGate(), (0.3,)),       # a large perturbation
}
ARITY = {k: g.num_qudits for k, (g, _) in CATALOGUE.items()}
USER_KEYS = {0: 'c11_k0', 1: 'c11_k1', 2: 'c11_k2', 3: 'c11_k3'}


def models(n: int) -> dict[int, MachineModel]:
    """prebuilt machine models for `data.model = ...` actions (tag -> model); told apart by gate set"""
    from bqskit.compiler.gateset import GateSet
    lin = CouplingGraph([(i, i + 1) for i in range(n - 1)], n)
    return {0: MachineModel(n), 1: MachineModel(n, lin, GateSet({CZGate(), HGate(), TGate()}))}


def model_tag(m: MachineModel) -> int:
    return 1 if CZGate() in m.gate_set else 0


def intern_op(op: Operation) -> int:
    """(gate, params) -> catalogue id; -1 when unknown"""
    for k, (g, p) in CATALOGUE.items():
        if op.gate == g and len(op.params) == len(p) and all(abs(a - b) < 1e-12 for a, b in zip(op.params, p)):
            return k
    return -1


def flat_ops(circuit: Circuit) -> list:
    """[[g, [loc]] ...] in iteration order (primitive gates only)"""
    return [[intern_op(op), [int(q) for q in op.location]] for op in circuit]


def emit(path, ev: list) -> None:
    if path is None:
        TRACE.append(ev)
        return
    fd = os.open(path, os.O_WRONLY | os.O_APPEND | os.O_CREAT, 0o644)
    try:
        os.write(fd, (json.dumps(ev) + '\n').encode())
    finally:
        os.close(fd)


def ctx_of(data) -> list | None:
    """which ForEach block this pass data belongs to (None at top level)"""
    if 'point' in data._data:
        p = data['point']
        return [int(p[0]), int(p[1])]
    return None


def apply_action(a: list, circuit: Circuit, data) -> None:
    k = a[0]
    if k == 'app':
        g, p = CATALOGUE[a[1]]
        circuit.append_gate(g, a[2], list(p))
    elif k == 'rm':
        q = a[1]
        for c in reversed(range(circuit.num_cycles)):
            if not circuit.is_point_idle((c, q)):
                circuit.pop((c, q))
                break
    elif k == 'clr':
        circuit.clear()
    elif k == 'pl':
        data.placement = a[1]
    elif k == 'im':
        data.initial_mapping = a[1]
    elif k == 'fm':
        data.final_mapping = a[1]
    elif k == 'err':
        data.error = a[1] / a[2]
    elif k == 'mul':
        data.update_error_mul(a[1] / a[2])
    elif k == 'key':
        data[USER_KEYS[a[1]]] = a[2]
    elif k == 'seed':
        data.seed = a[1]
    elif k == 'model':
        data.model = models(circuit.num_qudits)[a[1]]
    elif k == 'raise':
        raise RuntimeError('c11 scripted failure')
    else:
        raise ValueError(f'unknown action {a}')


class ScriptedLeaf(BasePass):
    """A body pass: logs its start (id, number of operations it sees, block context), then
    performs its scripted actions on circuit and data."""

    def __init__(self, lid: int, actions: list, trace_path: str | None, see: bool = False) -> None:
        self.lid = lid
        self.actions = actions
        self.trace_path = trace_path
        self.see = see     # also log the operations it was given / leaves behind (ForEach probes)

    async def run(self, circuit: Circuit, data) -> None:
        ev = ['leaf', self.lid, circuit.num_operations, ctx_of(data)]
        if self.see:
            ev.append(flat_ops(circuit))
            ev.append(block_view(data))
        emit(self.trace_path, ev)
        for a in self.actions:
            apply_action(a, circuit, data)


def block_view(data) -> dict | None:
    """what ForEachBlockPass put into the block data (None outside a block)"""
    if 'point' not in data._data:
        return None
    sn = data['subnumbering']
    m = data.model
    return dict(
        numbering=sorted([int(k), int(v)] for k, v in sn.items()),
        edges=sorted(sorted([int(a), int(b)]) for a, b in m.coupling_graph),
        radixes=[int(r) for r in m.radixes],
        ceb=bool(data['calculate_error_bound']),
        width=int(m.num_qudits),
        seed=data.seed,
    )


class ScriptedPredicate(PassPredicate):
    """Answers with the next entry of its script; an exhausted script answers False."""

    def __init__(self, pid: int, script: list, trace_path: str | None) -> None:
        self.pid = pid
        self.script = [bool(x) for x in script]
        self.pos = 0
        self.trace_path = trace_path

    def get_truth_value(self, circuit: Circuit, data) -> bool:
        v = self.script[self.pos] if self.pos < len(self.script) else False
        if self.pos < len(self.script):
            self.pos += 1
        emit(self.trace_path, ['pred', self.pid, int(v), ctx_of(data)])
        return v


class Cond:
    """DoThenDecide condition(old_circuit, new_circuit): kinds as Control.cond_std."""

    def __init__(self, kind: int, cid: int, trace_path: str | None) -> None:
        self.kind, self.cid, self.trace_path = kind, cid, trace_path

    def __call__(self, old: Circuit, new: Circuit) -> bool:
        a, b = old.num_operations, new.num_operations
        v = [False, True, b < a, b <= a][min(self.kind, 3)]
        emit(self.trace_path, ['cond', self.cid, int(v), None])
        return v


class LessThan:
    """ParallelDo less_than(circ, best_circ): kinds as Control.lt_std."""

    def __init__(self, kind: int) -> None:
        self.kind = kind

    def __call__(self, x: Circuit, best: Circuit) -> bool:
        a, b = x.num_operations, best.num_operations
        return [False, True, a < b, b < a][min(self.kind, 3)]


# ---- collection / replace filters (module level: shipped to workers) -------------------
def cf_all(op: Operation) -> bool:
    return True


def cf_none(op: Operation) -> bool:
    return False


def cf_wide(op: Operation) -> bool:
    return op.num_qudits >= 2


def cf_circuitgate(op: Operation) -> bool:
    return isinstance(op.gate, CircuitGate)


def rf_parity(new: Circuit, old: Operation) -> bool:
    """a callable replace filter: accept results with an even number of operations"""
    return new.num_operations % 2 == 0


COLLECTION_FILTERS = {'default': None, 'all': cf_all, 'none': cf_none, 'wide': cf_wide, 'cg': cf_circuitgate}


def frac(x: float) -> Fraction:
    return Fraction(x)
