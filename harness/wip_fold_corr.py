"""Correspondence test: Circuit.fold of /repo against the extracted model coq/circuit/CFold.v (driver `cfold`).

Random histories (circ_common.gen_call) on a live Circuit; every fold call of the history (many are forced) and
many extra fold calls on exact copies of the current state (valid regions from `surround`, random regions,
malformed regions, states with an injected idle cycle) are replayed on the model:
    set <fmt(pre)> ; fold <fmt(region)>     must answer     '<outcome> | <fmt(post)>'
Usage: wip_fold_corr.py [n_histories] [first_seed]"""
from __future__ import annotations

import collections
import json
import multiprocessing as mp
import random
import sys

import circ_common as cc
import vf
from bqskit.ir.circuit import Circuit


def tup(x):
    return tuple(tup(y) for y in x) if isinstance(x, list) else x


def rand_region(rng, c):
    """regions that need not be valid: arbitrary intervals, sometimes off the circuit / reversed / bad qudits"""
    n, ncyc = c.num_qudits, c.num_cycles
    k = rng.randint(1, min(4, n))
    qs = rng.sample(range(n), k)
    reg = []
    for q in qs:
        a = rng.randint(0, max(0, ncyc - 1))
        b = rng.randint(a, max(a, ncyc - 1))
        r = rng.random()
        if r < 0.05:
            b = ncyc + rng.randint(0, 1)
        elif r < 0.08:
            a, b = b + 1, a
        elif r < 0.10:
            q = n + rng.randint(0, 1)
        reg.append((q, (a, b)))
    if rng.random() < 0.5:
        reg.sort()
    return ('fold', tuple(reg))


def grown_region(rng, c, pts):
    """a surround region made sloppy: intervals widened / shrunk by one, a qudit dropped or added"""
    call = cc.gen_fold(rng, c, pts, True)
    if call[0] != 'fold':
        return call
    reg = [list([q, list(iv)]) for q, iv in call[1]]
    for e in reg:
        r = rng.random()
        if r < 0.25 and e[1][0] > 0:
            e[1][0] -= 1
        elif r < 0.5 and e[1][1] < c.num_cycles - 1:
            e[1][1] += 1
        elif r < 0.6 and e[1][0] < e[1][1]:
            e[1][0] += 1
        elif r < 0.7 and e[1][0] < e[1][1]:
            e[1][1] -= 1
    if rng.random() < 0.2 and len(reg) > 1:
        reg.pop(rng.randrange(len(reg)))
    if rng.random() < 0.2:
        free = [q for q in range(c.num_qudits) if q not in [e[0] for e in reg]]
        if free:
            a = rng.randint(0, c.num_cycles - 1)
            reg.append([rng.choice(free), [a, rng.randint(a, c.num_cycles - 1)]])
    if rng.random() < 0.3:
        rng.shuffle(reg)
    return ('fold', tuple((e[0], tuple(e[1])) for e in reg))


STAT = dict(ins=0, popc=0)
_orig_ins, _orig_popc = Circuit._insert_cycle, Circuit.pop_cycle


def _ins(self, i):
    STAT['ins'] += 1
    return _orig_ins(self, i)


def _popc(self, i):
    if self._is_cycle_idle(i):
        STAT['popc'] += 1
    return _orig_popc(self, i)


Circuit._insert_cycle, Circuit.pop_cycle = _ins, _popc


def fmt_region(r):
    return cc.fmt(tuple((q, (iv.lower, iv.upper)) for q, iv in sorted(r.items())))


def one_straighten(c, call, tag, out_list, findings):
    """straighten / is_valid_region alone, on a copy"""
    from bqskit.ir.region import CircuitRegion
    pre = cc.snap(c)
    try:
        reg = CircuitRegion({q: iv for q, iv in call[1]})
        valid = '1' if c.is_valid_region(reg) else '0'
    except ValueError:
        valid = '0'
    out_list.append((cc.fmt(pre), 'check_region ' + cc.fmt(call[1]), valid, tag + '-check'))
    try:
        reg = CircuitRegion({q: iv for q, iv in call[1]})
        r, net, sh = c.straighten(reg)
        o = f'S {fmt_region(r)} {net} {fmt_region(sh)}'
    except (IndexError, ValueError, TypeError) as e:
        o = 'E ' + type(e).__name__
    except Exception as e:
        findings.append(dict(kind='internal_error', tag=tag + '-straighten', pre=pre, call=call, detail=repr(e)[:100]))
        return
    out_list.append((cc.fmt(pre), 'straighten ' + cc.fmt(call[1]), f'{o} | {cc.dump(c)}', tag + '-straighten'))


def one_fold(c, call, tag, out_list, findings):
    pre = cc.snap(c)
    if tag.startswith('copy') or tag.startswith('idle'):
        one_straighten(cc.circ_from_snap_exact(pre), call, tag, out_list, findings)
    STAT['ins'] = STAT['popc'] = 0
    out = cc.apply_impl(c, call)
    tag = tag + f"|ins{min(STAT['ins'], 3)}|pop{min(STAT['popc'], 3)}"
    post = cc.snap(c)
    impl = f'{out} | {cc.fmt(post)}'
    if out.kind == 'E' and out.val.startswith('Internal'):
        findings.append(dict(kind='internal_error', tag=tag, pre=pre, call=call, detail=out.val))
        return out
    out_list.append((cc.fmt(pre), 'fold ' + cc.fmt(call[1]), impl, tag))
    return out


def run(args):
    seed, max_len = args
    rng = random.Random(seed)
    # a quarter of the histories on wide circuits: Python sets of ints >= 8 do not iterate in sorted order
    n = rng.randint(1, 6) if seed % 4 else rng.randint(7, 12)
    rads = tuple(rng.choice([2, 2, 2, 3]) for _ in range(n))
    c = Circuit(n, list(rads))
    folds, findings = [], []
    for step in range(rng.randint(3, max_len)):
        pts = cc.existing_points(c)
        # extra folds on exact copies of the current state
        if pts:
            pre = cc.snap(c)
            for j in range(4):
                d = cc.circ_from_snap_exact(pre)
                if cc.snap(d) != pre:
                    findings.append(dict(kind='rebuild_mismatch', pre=pre))
                    break
                kind = ('valid', 'invalid', 'random', 'grown')[j]
                if kind == 'valid':
                    call = cc.gen_fold(rng, d, cc.existing_points(d), True)
                elif kind == 'invalid':
                    call = cc.gen_fold(rng, d, cc.existing_points(d), False)
                elif kind == 'random':
                    call = rand_region(rng, d)
                else:
                    call = grown_region(rng, d, cc.existing_points(d))
                if call[0] != 'fold':
                    continue
                one_fold(d, call, 'copy-' + kind, folds, findings)
                bad = [b for b in cc.check_views(d) if b[0] != 'idle_cycle']
                if bad:
                    findings.append(dict(kind='views', tag='copy-' + kind, pre=pre, call=call, detail=bad[:3]))
            # a state with an idle cycle somewhere (what D6 leaves behind)
            if rng.random() < 0.3:
                k = rng.randint(0, len(pre[2]))
                pre2 = (pre[0], pre[1], pre[2][:k] + ((),) + pre[2][k:])
                d = cc.circ_from_snap_exact(pre2)
                if cc.snap(d) == pre2:
                    call = cc.gen_fold(rng, d, cc.existing_points(d), rng.random() < 0.7)
                    if rng.random() < 0.3:
                        call = grown_region(rng, d, cc.existing_points(d))
                    if call[0] == 'fold':
                        one_fold(d, call, 'idle-injected', folds, findings)
        # the history itself, on the live object
        if pts and rng.random() < 0.35:
            r = rng.random()
            call = cc.gen_fold(rng, c, pts, True) if r < 0.6 else (cc.gen_fold(rng, c, pts, False) if r < 0.8 else grown_region(rng, c, pts))
        else:
            call = cc.gen_call(rng, c)
        if call[0] == 'fold':
            pre = cc.snap(c)
            one_fold(c, call, 'live', folds, findings)
        else:
            pre = cc.snap(c)
            out = cc.apply_impl(c, call)
            if out.kind == 'E' and out.val.startswith('Internal'):
                findings.append(dict(kind='internal_error', tag='live-other', pre=pre, call=call, detail=out.val))
                break
        bad = cc.check_views(c)
        if [b for b in bad if b[0] != 'idle_cycle']:
            findings.append(dict(kind='views', tag='live', pre=pre, call=call, detail=bad[:3]))
            break
    return dict(seed=seed, folds=folds, findings=findings)


def model_chunk(chunk):
    lines = []
    for pre, reg, impl, tag in chunk:
        lines.append('set ' + pre)
        lines.append(reg)
    out = vf.run_model('cfold', lines)
    return out[1::2]


def main():
    nh = int(sys.argv[1]) if len(sys.argv) > 1 else 3000
    s0 = int(sys.argv[2]) if len(sys.argv) > 2 else 0
    ok, msg = vf.build_extracted('cfold')
    assert ok, msg
    cases = []
    # corpus
    d = json.load(open('/verif/corpus/C05/D6.json'))['case']
    pre, call = tup(d['pre']), tup(d['call'])
    c = cc.circ_from_snap_exact(pre)
    assert cc.snap(c) == pre
    fnd = []
    one_fold(c, call, 'corpus-D6', cases, fnd)
    with mp.get_context('fork').Pool(14) as pool:
        res = pool.map(run, [(s, 14) for s in range(s0, s0 + nh)], chunksize=20)
        for r in res:
            cases.extend(r['folds'])
            fnd.extend(r['findings'])
        chunks = [cases[i:i + 500] for i in range(0, len(cases), 500)]
        outs = pool.map(model_chunk, chunks)
    model = [x for o in outs for x in o]
    assert len(model) == len(cases)
    stats = collections.Counter()
    dis = []
    nfold = 0
    for (pre, reg, impl, tag), m in zip(cases, model):
        if not reg.startswith('fold'):
            stats[(tag.split('-')[-1], impl.split(' ')[0])] += 1
            if m != impl:
                dis.append(dict(tag=tag, pre=pre, region=reg, impl=impl, model=m))
            continue
        nfold += 1
        kind = impl.split(' | ')[0].split(' ')[0]
        stats[(tag, 'returned' if kind == 'N' else impl.split(' | ')[0])] += 1
        if impl.split(' | ')[1] != pre:
            stats['changed_state:' + ('ok' if kind == 'N' else 'error')] += 1
        if m != impl:
            dis.append(dict(tag=tag, pre=pre, region=reg, impl=impl, model=m))
    tot = nfold
    ret = sum(v for k, v in stats.items() if isinstance(k, tuple) and k[1] == 'returned' and '|' in k[0])
    print(f'histories={nh} fold_calls={tot} returned={ret} errors={tot - ret} disagreements={len(dis)} findings={len(fnd)}')
    for k in sorted(stats, key=str):
        print('  ', k, stats[k])
    for x in dis[:10]:
        print('DISAGREE', json.dumps(x))
    kinds = collections.Counter((f['kind'], f.get('tag'), str(f.get('detail'))[:60]) for f in fnd)
    for k, v in kinds.most_common(20):
        print('FINDING', v, k)
    for f in fnd[:5]:
        print('FINDING-EX', json.dumps(f, default=str)[:1500])
    return 1 if dis else 0


if __name__ == '__main__':
    sys.exit(main())
