"""In-process, single-threaded co-simulation of the real BQSKit runtime for C12.

Real `Worker` objects (built with `__new__`, no threads, no sockets) and a real `DetachedServer` are driven one
handler call at a time over harness-owned FIFO channels:

  down k   worker k's `recv_incoming` reads exactly one message from the server->worker channel
  up k     the server's `handle_message(..., BELOW, ...)` handles the next message of worker k
  step k   one call of `Worker._try_step_next_ready_task` (the blocking `Queue.get()` raises `Blocked` instead)
  cl ...   a client request handled by the server (`handle_message(..., CLIENT, ...)`)

Task bodies are scripts interpreted by the coroutine `body` (submit / map / await / next / cancel); a task running
program p returns p.  Nothing in /repo is edited; wrappers only record what happened (labels).
"""
from __future__ import annotations

import queue
from threading import Lock

from bqskit.ir.circuit import Circuit  # noqa: F401  (import order)
import bqskit.runtime.worker as wmod
from bqskit.runtime.worker import Worker
from bqskit.runtime.detached import DetachedServer
from bqskit.runtime.base import RuntimeEmployee
from bqskit.runtime.message import RuntimeMessage as M
from bqskit.runtime.direction import MessageDirection as D
from bqskit.runtime.task import RuntimeTask
from bqskit.runtime.address import RuntimeAddress
from bqskit.runtime.result import RuntimeResult

SIM = None          # the RealSys whose workers are currently executing


class Blocked(BaseException):
    """The worker's main thread would block in Queue.get()."""


class IQueue(queue.Queue):
    def __init__(self, owner):
        super().__init__()
        self.owner = owner

    def get(self, block=True, timeout=None):
        if block and not self._qsize():
            raise Blocked()
        x = super().get(block, timeout)
        self.owner.pops.append((x, self.owner._tasks.get(x)))      # the entry in _tasks at the moment it is popped
        return x


class Chan:
    def __init__(self, name):
        self.name, self.q, self.closed = name, [], False
        self.reader = None
        self.inbox = None

    def send(self, m):
        self.q.append(m)

    def close(self):
        self.closed = True

    def recv(self):          # Worker.recv_incoming reads its duplex connection: hand over one message of the
        m = self.inbox.q.pop(0)          # server->worker channel, then stop the receiving loop
        self.reader._running = False
        return m

    def __repr__(self):
        return f'<{self.name}>'


class FakeSel:
    def unregister(self, c):
        pass

    def close(self):
        pass


class TState:
    __slots__ = ('pc', 'futs')

    def __init__(self):
        self.pc, self.futs = 0, []


async def body(p):
    """Interpreter of the script PROGS[p]; the coroutine of every simulated task."""
    sim = SIM
    w = wmod.get_worker()
    me = w._active_task
    st = sim.tstate.setdefault(me.return_address, TState())
    prog = sim.progs[p]                      # IndexError for an unknown program
    for i, ins in enumerate(prog):
        st.pc = i + 1
        op = ins[0]
        if op == 's':
            f = w.submit(body, ins[1])
            st.futs.append(f.mailbox_id)
            sim.note_children(me, f.mailbox_id, [ins[1]])
        elif op == 'm':
            f = w.map(body, list(ins[1:]))
            st.futs.append(f.mailbox_id)
            sim.note_children(me, f.mailbox_id, list(ins[1:]))
        elif op == 'a':
            mb = st.futs[ins[1]]
            from bqskit.runtime.future import RuntimeFuture
            r = await RuntimeFuture(mb)
            box_single = sim.single.get((w._id, mb), True)
            vals = [(0, r)] if box_single else list(enumerate(r))
            sim.on_obs(w, me, mb, False, vals)
        elif op == 'n':
            mb = st.futs[ins[1]]
            from bqskit.runtime.future import RuntimeFuture
            r = await w.next(RuntimeFuture(mb))
            sim.on_obs(w, me, mb, True, list(r))
        elif op == 'c':
            mb = st.futs[ins[1]]
            from bqskit.runtime.future import RuntimeFuture
            w.cancel(RuntimeFuture(mb))
        else:
            raise ValueError(op)
    return p


class FakeWorkflow:
    def __init__(self, p):
        self.p = p

    async def run(self, circuit, data):
        circuit.append(await body(self.p))


class FakeCT:
    """Stands for a CompilationTask (CompilationTask.run is the real method)."""

    def __init__(self, tid, p):
        self.task_id = tid
        self.logging_level = 30
        self.max_logging_depth = -1
        self.workflow = FakeWorkflow(p)
        self.circuit = []
        self.data = None
        self.request_data = False


# ---------------------------------------------------------------- canonical forms (same text as cancel_driver.ml)
def enc_addr(a):
    return [a.worker_id + 1, a.mailbox_index, a.mailbox_slot]


def fmt(x):
    if isinstance(x, (list, tuple)):
        return '[' + ' '.join(fmt(y) for y in x) + ']'
    if x is None:
        return 'N'
    if x is True:
        return '1'
    if x is False:
        return '0'
    return str(x)


def val(v):
    """Task results are program ids; the root's result is the fake circuit [p]."""
    if isinstance(v, list):
        return v[0] if v else None
    return v


def exc_kind(e):
    s = str(e)
    if isinstance(e, RuntimeError):
        if 'Cannot await on a canceled task' in s:
            return 1
        if 'Cannot wait on an already completed result' in s:
            return 2
        if 'Unable to map 0 tasks' in s:
            return 5
        return 90
    if isinstance(e, KeyError):
        return 3
    if isinstance(e, IndexError):
        return 4
    if isinstance(e, AssertionError):
        return 6
    if isinstance(e, ValueError):
        return 3
    return 99


class RealSys:
    def __init__(self, nw, progs):
        global SIM
        SIM = self
        self.nw, self.progs = nw, progs
        self.tstate = {}
        self.labels = []
        self.single = {}            # (worker, mailbox) -> expecting_single_result
        self.prog_of = {}           # enc addr tuple -> program id   (harness' own record of every task created)
        self.parent = {}            # enc addr tuple -> enc addr tuple of the submitting task (None for roots)
        self.children = {}          # (enc worker, mailbox) -> list of child enc addrs
        self.owner = {}             # (enc worker, mailbox) -> enc addr of the creating task
        self.cli_log = []           # (conn index, canonical message) in sending order
        self.step_exc = None
        self.in_step = False
        self.workers = [self._mkworker(k) for k in range(nw)]
        self.wmap = {w._id: w for w in self.workers}
        self.server = self._mkserver()
        self.clients = {}           # client index -> Chan
        self._install_wrappers()

    # ---- construction
    def _mkworker(self, wid):
        w = Worker.__new__(Worker)
        w._id = wid
        w._conn = Chan(f'w{wid}->s')
        w._tasks = {}
        w._delayed_tasks = []
        w.pops = []
        w._ready_task_ids = IQueue(w)
        w._cancelled_task_ids = set()
        w._active_task = None
        w._running = True
        w._mailboxes = {}
        w._mailbox_counter = 0
        w._cache = {}
        w.most_recent_read_submit = None
        w.read_receipt_mutex = Lock()
        w.blocked = False
        w.crashed = False
        return w

    def _mkserver(self):
        s = DetachedServer.__new__(DetachedServer)
        s.lower_id_bound = 0
        s.upper_id_bound = 2 ** 30
        s.running = True
        s.sel = FakeSel()
        s.employees = []
        s.conn_to_employee_dict = {}
        s.outgoing = queue.Queue()
        s.clients = {}
        s.tasks = {}
        s.mailbox_to_task_dict = {}
        s.mailboxes = {}
        s.mailbox_counter = 0
        self.down = []
        for w in self.workers:
            c = Chan(f's->w{w._id}')
            w._conn.inbox = c
            w._conn.reader = w
            e = RuntimeEmployee(w._id, c, 1)
            s.employees.append(e)
            s.conn_to_employee_dict[c] = e
            s.conn_to_employee_dict[w._conn] = e    # messages from below are looked up by the conn they arrive on
            self.down.append(c)
        s.step_size = 1
        s.total_workers = len(self.workers)
        s.num_idle_workers = len(self.workers)
        return s

    # ---- wrappers that only record (installed on the instances / restored by close())
    def _install_wrappers(self):
        sim = self
        self._orig = (RuntimeTask.step, RuntimeTask.cancel, Worker.cancel, Worker._handle_result,
                      Worker._process_task_completion, Worker._process_await, Worker._get_desired_result)
        o_step, o_tcancel, o_cancel, o_hres, o_done, o_await, o_des = self._orig

        def step(task, send_val=None):
            w = wmod._worker
            sim._flush_pops(w, ran=True)
            sim.labels.append(['run', w._id + 1, sim.ctask(task)])
            try:
                return o_step(task, send_val)
            except StopIteration:
                raise
            except Exception as e:
                sim.step_exc = e
                raise

        def tcancel(task):
            if not sim.in_step:      # inside a main-thread step the discarded task is reported by its `skip` label
                sim.labels.append(['drop', wmod._worker._id + 1, sim.ctask(task)])
            return o_tcancel(task)

        def cancel(w, future):
            box = w._mailboxes.get(future.mailbox_id)
            n = box.expected_num_results if box is not None else None
            a = w._active_task.return_address
            r = o_cancel(w, future)
            sim.labels.append(['cancel', w._id + 1, enc_addr(a), future.mailbox_id, n])
            sim.on_cancel(w, a, future.mailbox_id, n)
            return r

        def hres(w, result):
            if result.return_address.mailbox_index not in w._mailboxes:
                sim.labels.append(['discard', w._id + 1, enc_addr(result.return_address), val(result.result)])
            return o_hres(w, result)

        def done(w, task, result):
            sim.labels.append(['done', w._id + 1, sim.ctask(task)])
            sim.on_done(w, task, result)
            owned = list(task.owned_mailboxes)
            r = o_done(w, task, result)
            sim.labels.append(['left', w._id + 1, enc_addr(task.return_address), [m for m in owned if m in w._mailboxes]])
            return r

        def p_await(w, task, future):
            try:
                return o_await(w, task, future)
            except Exception as e:
                sim.step_exc = e
                raise

        def des(w, task):
            try:
                return o_des(w, task)
            except Exception as e:
                sim.step_exc = e
                sim.des_failed = True
                raise

        RuntimeTask.step, RuntimeTask.cancel = step, tcancel
        Worker.cancel, Worker._handle_result = cancel, hres
        Worker._process_task_completion, Worker._process_await, Worker._get_desired_result = done, p_await, des

    def close(self):
        for w in self.workers:                     # leaked (never run / never finished) coroutines: close quietly
            for t in list(w._tasks.values()):
                try:
                    if t.coro is not None:
                        t.coro.close()
                except Exception:
                    pass
        (RuntimeTask.step, RuntimeTask.cancel, Worker.cancel, Worker._handle_result,
         Worker._process_task_completion, Worker._process_await, Worker._get_desired_result) = self._orig

    # ---- harness-side bookkeeping for the oracle (independent of the implementation's tables)
    def note_children(self, me, mb, ps):
        w = wmod._worker
        pa = tuple(enc_addr(me.return_address))
        self.single[(w._id, mb)] = w._mailboxes[mb].expecting_single_result
        self.owner[(w._id + 1, mb)] = pa
        kids = []
        for i, p in enumerate(ps):
            ca = (w._id + 1, mb, i)
            self.prog_of[ca] = p
            self.parent[ca] = pa
            kids.append(ca)
        self.children[(w._id + 1, mb)] = kids

    def on_obs(self, w, me, mb, nx, vals):
        vals = [[s, val(v)] for s, v in vals]
        self.labels.append(['obs', w._id + 1, enc_addr(me.return_address), mb, nx, vals])
        self.hook('obs', w._id + 1, tuple(enc_addr(me.return_address)), mb, nx, vals)

    def on_cancel(self, w, a, mb, n):
        self.hook('cancel', w._id + 1, tuple(enc_addr(a)), mb, n)

    def on_done(self, w, task, result):
        self.hook('done', w._id + 1, tuple(enc_addr(task.return_address)), val(result))

    def hook(self, *a):      # replaced by the oracle
        pass

    def ctask(self, t):
        return [enc_addr(t.return_address), [enc_addr(b) for b in t.breadcrumbs], t.comp_task_id,
                self.prog_of.get(tuple(enc_addr(t.return_address)), -1)]

    def _flush_pops(self, w, ran):
        pops, w.pops = w.pops, []
        skipped = pops[:-1] if ran else pops
        for a, held in skipped:
            self.labels.append(['skip', w._id + 1, enc_addr(a), self.ctask(held) if held is not None else None])

    # ---- channels
    def _drain_outgoing(self):
        """What ServerBase.send_outgoing does, in order."""
        s = self.server
        while not s.outgoing.empty():
            conn, msg, payload = s.outgoing.get()
            if conn.closed:
                continue
            conn.send((msg, payload))
            if conn in self._client_index:
                cm = self.cmsg(msg, payload)
                ci = self._client_index[conn]
                self.cli_log.append([ci, cm])
                self.labels.append(['cli', ci, cm])

    @property
    def _client_index(self):
        return {c: i for i, c in self.clients.items()}

    def cmsg(self, msg, payload):
        if msg == M.RESULT:
            return ['R', val(payload)]
        if msg == M.ERROR:
            return ['E', self.err_kind_of(payload)]
        if msg == M.CANCEL:
            return ['A']
        return ['?', msg.name]

    def err_kind_of(self, text):
        if text == 'Unknown task.':
            return 0
        if 'Cannot await on a canceled task' in text:
            return 1
        if 'Cannot wait on an already completed result' in text:
            return 2
        if 'Unable to map 0 tasks' in text:
            return 5
        if 'KeyError' in text:
            return 3
        if 'IndexError' in text:
            return 4
        if 'AssertionError' in text:
            return 6
        if 'ValueError' in text:
            return 3
        return 99

    # ---- events
    def enabled(self):
        evs = []
        for k, w in enumerate(self.workers):
            if w.crashed:
                continue
            if self.down[k].q:
                evs.append(('down', k))
            if w._conn.q:
                evs.append(('up', k))
            if not (w.blocked and w._ready_task_ids.qsize() == 0):
                evs.append(('step', k))
        return evs

    def do(self, ev):
        """Execute one event on the real objects.  Returns (labels, exception or None, extra) where extra carries the
        oracle inputs the model needs (assignment made by schedule_tasks, set iteration order)."""
        global SIM
        SIM = self
        self.labels = []
        self.step_exc = None
        extra = {}
        exc = None
        s = self.server
        n_up = len(self.workers[ev[1]]._conn.q) if ev[0] == 'step' else 0
        try:
            if ev[0] == 'down':
                k = ev[1]
                w = self.workers[k]
                wmod._worker = w
                msg, payload = self.down[k].q[0]
                delayed_before = list(w._delayed_tasks)
                assert self.down[k].q and w._conn.inbox is self.down[k]   # recv must not fail (recv_incoming would SIGKILL)
                try:
                    w._running = True
                    w.recv_incoming()
                finally:
                    w._running = True
                if msg == M.CANCEL:
                    kept = {id(t) for t in w._delayed_tasks}
                    for t in delayed_before:
                        if id(t) not in kept:
                            self.labels.append(['drop', k + 1, self.ctask(t)])
            elif ev[0] == 'up':
                k = ev[1]
                w = self.workers[k]
                msg, payload = w._conn.q.pop(0)
                if msg == M.RESULT and payload.return_address.worker_id == -1 \
                        and payload.return_address.mailbox_index not in s.mailboxes:
                    self.labels.append(['sdiscard', payload.return_address.mailbox_index, val(payload.result)])
                batch = [payload] if msg == M.SUBMIT else (list(payload) if msg == M.SUBMIT_BATCH else [])
                s.handle_message(msg, D.BELOW, w._conn, payload)
                extra['asg'] = self._assignment(batch)
            elif ev[0] == 'step':
                k = ev[1]
                w = self.workers[k]
                wmod._worker = w
                w.pops = []
                self.des_failed = False
                n_err = sum(1 for m, _ in w._conn.q if m == M.ERROR)
                ran = False
                self.in_step = True
                try:
                    w._try_step_next_ready_task()
                    ran = True
                    w.blocked = False
                except Blocked:
                    w.blocked = True
                    self._flush_pops(w, ran=False)
                finally:
                    self.in_step = False
                if ran and self.step_exc is not None:
                    t_addr = self._last_run_addr()
                    sent = sum(1 for m, _ in w._conn.q if m == M.ERROR) > n_err
                    self.labels.append(['err', k + 1, t_addr, 6 if self.des_failed else exc_kind(self.step_exc), sent])
            elif ev[0] == 'cl':
                c, what = ev[1], ev[2]
                if what == 'connect':
                    if c in self.clients:
                        raise KeyError('already connected')
                    conn = Chan(f's->c{c}')
                    self.clients[c] = conn
                    s.clients[conn] = set()            # what the listen thread does
                else:
                    conn = self.clients[c]
                    if what == 'submit':
                        ct = FakeCT(ev[3], ev[4])
                        n0 = s.mailbox_counter
                        s.handle_message(M.SUBMIT, D.CLIENT, conn, ct)
                        a = (0, n0, 0)
                        self.prog_of[a] = ev[4]
                        self.parent[a] = None
                        extra['asg'] = self._assignment_root()
                    elif what == 'request':
                        extra['order'] = list(s.clients.get(conn, []))
                        s.handle_message(M.REQUEST, D.CLIENT, conn, ev[3])
                    elif what == 'cancel':
                        s.handle_message(M.CANCEL, D.CLIENT, conn, ev[3])
                    elif what == 'disconnect':
                        extra['order'] = list(s.clients.get(conn, []))
                        s.handle_message(M.DISCONNECT, D.CLIENT, conn, None)
                    else:
                        raise ValueError(what)
            else:
                raise ValueError(ev)
        except Blocked:
            raise
        except Exception as e:       # a handler of the receiving thread / server loop / worker loop raised
            exc = e
        iss = []
        if ev[0] == 'step':
            for m, pl in self.workers[ev[1]]._conn.q[n_up:]:
                if m == M.CANCEL:
                    iss.append(tuple(enc_addr(pl)))
        elif ev[0] == 'cl':
            for conn, m, pl in list(s.outgoing.queue):
                if m == M.CANCEL and pl is not None and tuple(enc_addr(pl)) not in iss:
                    iss.append(tuple(enc_addr(pl)))
        extra['issued'] = iss
        self._drain_outgoing()
        return self.labels, exc, extra

    def _last_run_addr(self):
        for lab in reversed(self.labels):
            if lab[0] == 'run':
                return lab[2][0]
        return None

    def _assignment(self, batch):
        """Read the assignment schedule_tasks made off the server's outgoing queue (trace replay of random)."""
        if not batch:
            return []
        pos = {id(t): i for i, t in enumerate(batch)}
        asg = []
        for conn, msg, payload in list(self.server.outgoing.queue):
            if msg == M.SUBMIT_BATCH:
                k = self.down.index(conn)
                asg.append([k, [pos[id(t)] for t in payload]])
        return asg

    def _assignment_root(self):
        asg = []
        for conn, msg, payload in list(self.server.outgoing.queue):
            if msg == M.SUBMIT_BATCH:
                asg.append([self.down.index(conn), list(range(len(payload)))])
        return asg

    # ---- canonical state (same layout as vsys in cancel_driver.ml)
    def cmsg_w(self, m):
        msg, p = m
        if msg == M.SUBMIT:
            return ['S', self.ctask(p)]
        if msg == M.SUBMIT_BATCH:
            return ['B', [self.ctask(t) for t in p]]
        if msg == M.RESULT:
            return ['R', enc_addr(p.return_address), val(p.result), p.completed_by + 1]
        if msg == M.CANCEL:
            return ['C', enc_addr(p)]
        if msg == M.WAITING:
            return ['W']
        if msg == M.UPDATE:
            return ['U']
        if msg == M.ERROR:
            if isinstance(p, tuple):
                return ['E', p[0], self.err_kind_of(p[1])]
            return ['E', -1, self.err_kind_of(p)]
        return ['?', msg.name]

    def cbox(self, mid, b):
        slots = [b.result] if b.expecting_single_result else list(b.result)
        return [mid, b.expecting_single_result, b.expected_num_results, [val(x) for x in slots], b.num_results,
                enc_addr(b.dest_addr) if b.dest_addr is not None else None,
                None if b.fresh_results is None else [[s, val(v)] for s, v in b.fresh_results]]

    def cworker(self, w):
        tasks = []
        for a, t in w._tasks.items():
            st = self.tstate.get(a) or TState()
            tasks.append([self.ctask(t), st.pc, list(st.futs), list(t.owned_mailboxes), t.desired_box_id, t.wake_on_next])
        return [w._id + 1, tasks, [self.ctask(t) for t in w._delayed_tasks],
                [enc_addr(a) for a in list(w._ready_task_ids.queue)],
                sorted(enc_addr(a) for a in w._cancelled_task_ids),
                [self.cbox(i, b) for i, b in w._mailboxes.items()], w._mailbox_counter, w.blocked]

    def cserver(self):
        s = self.server
        ci = self._client_index
        return [
            [[ci[c], sorted(ids)] for c, ids in s.clients.items()],
            [[tid, mb, ci[c]] for tid, (mb, c) in s.tasks.items()],
            [[mb, tid] for mb, tid in s.mailbox_to_task_dict.items()],
            [[mb, val(b.result), b.client_waiting] for mb, b in s.mailboxes.items()],
            s.mailbox_counter,
            sorted(i for i, c in self.clients.items() if c.closed),
        ]

    def canon(self, issued):
        return fmt([[self.cworker(w) for w in self.workers], self.cserver(),
                    [[self.cmsg_w(m) for m in w._conn.q] for w in self.workers],
                    [[self.cmsg_w(m) for m in c.q] for c in self.down],
                    self.cli_log, sorted(list(a) for a in issued)])


# ================================================================================================ manager topologies
class TreeSys(RealSys):
    """Real DetachedServer -> nm real Managers -> nw real Workers each (all in process, one FIFO channel per
    direction per link).  Events:
      ('cl', c, ...)   client request at the server        ('up', i)      server handles next message of manager i
      ('mdown', i)     manager i handles next message from the server
      ('mup', i, j)    manager i handles next message of its worker j
      ('down', wid)    worker wid's receiving thread handles its next message     ('step', wid)  its main thread
    Worker ids are lb_i + j with lb_i = i * stride (the id ranges connect_to_managers would hand out, scaled down)."""

    STRIDE = 4

    def __init__(self, nm, nw, progs):
        global SIM
        SIM = self
        from bqskit.runtime.manager import Manager
        self.nm, self.nwm, self.progs = nm, nw, progs
        self.nw = nm * nw
        self.tstate, self.labels, self.single = {}, [], {}
        self.prog_of, self.parent, self.children, self.owner = {}, {}, {}, {}
        self.cli_log, self.step_exc, self.in_step = [], None, False
        self.clients = {}
        self.routes = []
        s = DetachedServer.__new__(DetachedServer)
        s.lower_id_bound, s.upper_id_bound, s.running = 0, nm * self.STRIDE, True
        s.sel, s.employees, s.conn_to_employee_dict, s.outgoing = FakeSel(), [], {}, queue.Queue()
        s.clients, s.tasks, s.mailbox_to_task_dict, s.mailboxes, s.mailbox_counter = {}, {}, {}, {}, 0
        s.step_size = (s.upper_id_bound - s.lower_id_bound) // nm
        self.server = s
        self.managers, self.workers = [], []
        self.sm, self.ms = [], []              # server->manager i, manager i->server
        self.mw, self.wm = {}, {}              # manager->worker id, worker id->manager
        self.mgr_of = {}
        for i in range(nm):
            lb = i * s.step_size
            c_sm, c_ms = Chan(f'S->M{i}'), Chan(f'M{i}->S')
            self.sm.append(c_sm)
            self.ms.append(c_ms)
            e = RuntimeEmployee(i, c_sm, nw, is_manager=True)
            s.employees.append(e)
            s.conn_to_employee_dict[c_sm] = e
            m = Manager.__new__(Manager)
            m.lower_id_bound, m.upper_id_bound, m.running = lb, lb + s.step_size, True
            m.sel, m.employees, m.conn_to_employee_dict, m.outgoing = FakeSel(), [], {}, queue.Queue()
            m.upstream = c_ms
            for j in range(nw):
                wid = lb + j
                w = self._mkworker(wid)
                c_mw = Chan(f'M{i}->w{wid}')
                w._conn.inbox, w._conn.reader = c_mw, w
                ew = RuntimeEmployee(wid, c_mw, 1)
                m.employees.append(ew)
                m.conn_to_employee_dict[c_mw] = ew
                self.mw[wid], self.wm[wid] = c_mw, w._conn
                self.mgr_of[wid] = (i, j)
                self.workers.append(w)
            m.step_size, m.total_workers, m.num_idle_workers = 1, nw, nw
            m.last_num_idle_sent_up, m.most_recent_read_submit = nw, None
            self.managers.append(m)
        s.total_workers = s.num_idle_workers = nm * nw
        self.wmap = {w._id: w for w in self.workers}
        self._install_wrappers()

    # ---- channels
    def _drain(self, node):
        while not node.outgoing.empty():
            conn, msg, payload = node.outgoing.get()
            if conn.closed:
                continue
            conn.send((msg, payload))
            if conn in self._client_index:
                cm = self.cmsg(msg, payload)
                ci = self._client_index[conn]
                self.cli_log.append([ci, cm])
                self.labels.append(['cli', ci, cm])

    def enabled(self):
        evs = []
        for i in range(self.nm):
            if self.sm[i].q:
                evs.append(('mdown', i))
            if self.ms[i].q:
                evs.append(('up', i))
        for w in self.workers:
            i, j = self.mgr_of[w._id]
            if self.mw[w._id].q:
                evs.append(('down', w._id))
            if w._conn.q:
                evs.append(('mup', i, j))
            if not (w.blocked and w._ready_task_ids.qsize() == 0):
                evs.append(('step', w._id))
        return evs

    def _route(self, node, kind, direction, before):
        """destinations a node sent a CANCEL to while handling one (for the correspondence with route_cancel)"""
        new = list(node.outgoing.queue)[before:]
        dests = []
        for conn, msg, payload in new:
            if msg != M.CANCEL:
                continue
            if kind == 'mgr' and conn is node.upstream:
                dests.append('up')
            else:
                dests.append([e.conn for e in node.employees].index(conn))
        self.routes.append([kind, direction, len(node.employees), dests])
        return dests

    def do(self, ev):
        global SIM
        SIM = self
        self.labels, self.step_exc = [], None
        extra, exc = {}, None
        s = self.server
        iss = []
        try:
            if ev[0] == 'down':
                wid = ev[1]
                w = self.wmap[wid]
                wmod._worker = w
                msg, payload = self.mw[wid].q[0]
                extra['msg'] = self.cmsg_w((msg, payload))
                delayed_before = list(w._delayed_tasks)
                try:
                    w._running = True
                    w.recv_incoming()
                finally:
                    w._running = True
                if msg == M.CANCEL:
                    kept = {id(t) for t in w._delayed_tasks}
                    for t in delayed_before:
                        if id(t) not in kept:
                            self.labels.append(['drop', wid + 1, self.ctask(t)])
            elif ev[0] == 'step':
                wid = ev[1]
                w = self.wmap[wid]
                wmod._worker = w
                w.pops = []
                self.des_failed = False
                n_up = len(w._conn.q)
                n_err = sum(1 for m, _ in w._conn.q if m == M.ERROR)
                ran = False
                self.in_step = True
                try:
                    w._try_step_next_ready_task()
                    ran = True
                    w.blocked = False
                except Blocked:
                    w.blocked = True
                    self._flush_pops(w, ran=False)
                finally:
                    self.in_step = False
                if ran and self.step_exc is not None:
                    sent = sum(1 for m, _ in w._conn.q if m == M.ERROR) > n_err
                    self.labels.append(['err', wid + 1, self._last_run_addr(), 6 if self.des_failed else exc_kind(self.step_exc), sent])
                for m, pl in w._conn.q[n_up:]:
                    if m == M.CANCEL:
                        iss.append(tuple(enc_addr(pl)))
            elif ev[0] == 'mup':
                i, j = ev[1], ev[2]
                mgr = self.managers[i]
                wid = mgr.lower_id_bound + j
                msg, payload = self.wm[wid].q.pop(0)
                extra['msg'] = self.cmsg_w((msg, payload))
                before = mgr.outgoing.qsize()
                mgr.handle_message(msg, D.BELOW, self.mw[wid], payload)
                if msg == M.CANCEL:
                    extra['route'] = self._route(mgr, 'mgr', 'below', before)
            elif ev[0] == 'mdown':
                i = ev[1]
                mgr = self.managers[i]
                msg, payload = self.sm[i].q.pop(0)
                extra['msg'] = self.cmsg_w((msg, payload))
                before = mgr.outgoing.qsize()
                mgr.handle_message(msg, D.ABOVE, mgr.upstream, payload)
                if msg == M.CANCEL:
                    extra['route'] = self._route(mgr, 'mgr', 'above', before)
            elif ev[0] == 'up':
                i = ev[1]
                msg, payload = self.ms[i].q.pop(0)
                extra['msg'] = self.cmsg_w((msg, payload))
                if msg == M.RESULT and payload.return_address.worker_id == -1 \
                        and payload.return_address.mailbox_index not in s.mailboxes:
                    self.labels.append(['sdiscard', payload.return_address.mailbox_index, val(payload.result)])
                before = s.outgoing.qsize()
                s.handle_message(msg, D.BELOW, self.sm[i], payload)
                if msg == M.CANCEL:
                    extra['route'] = self._route(s, 'root', 'below', before)
            elif ev[0] == 'cl':
                c, what = ev[1], ev[2]
                if what == 'connect':
                    conn = Chan(f's->c{c}')
                    self.clients[c] = conn
                    s.clients[conn] = set()
                else:
                    conn = self.clients[c]
                    if what == 'submit':
                        n0 = s.mailbox_counter
                        s.handle_message(M.SUBMIT, D.CLIENT, conn, FakeCT(ev[3], ev[4]))
                        self.prog_of[(0, n0, 0)] = ev[4]
                        self.parent[(0, n0, 0)] = None
                    elif what == 'request':
                        s.handle_message(M.REQUEST, D.CLIENT, conn, ev[3])
                    elif what == 'cancel':
                        s.handle_message(M.CANCEL, D.CLIENT, conn, ev[3])
                    elif what == 'disconnect':
                        s.handle_message(M.DISCONNECT, D.CLIENT, conn, None)
                    else:
                        raise ValueError(what)
                for conn2, m, pl in list(s.outgoing.queue):
                    if m == M.CANCEL and pl is not None and tuple(enc_addr(pl)) not in iss:
                        iss.append(tuple(enc_addr(pl)))
            else:
                raise ValueError(ev)
        except Blocked:
            raise
        except Exception as e:
            exc = e
        extra['issued'] = iss
        self._drain(s)
        for mgr in self.managers:
            self._drain(mgr)
        return self.labels, exc, extra

    def in_flight(self):
        return sum(len(c.q) for c in self.sm + self.ms) + sum(len(c.q) for c in self.mw.values()) \
            + sum(len(c.q) for c in self.wm.values())
