"""Test passes for the C14 real-process fault runs (imported by the runtime's workers:
the client ships its sys.path in CONNECT, the server broadcasts IMPORTPATH).

Every pass reports where it is by creating flag files `<dir>/<name>.<pid>[.<i>]`, so
the fault injector can pick its victim (the worker running the root task, one running
a sub-task, one holding only delayed tasks, an idle one) and its crash point without
any change to /repo.  The *complete correct output* of the workflow `workflow(...)` is
`expected_marks(...)` X gates on qudit 0 appended to the input; anything else returned
to a client as a result is a partial result.
"""
from __future__ import annotations

import os
import time

from bqskit.compiler.basepass import BasePass
from bqskit.ir.gates import XGate
from bqskit.runtime import get_runtime


def _flag(d: str, name: str) -> None:
    try:
        with open(os.path.join(d, name), 'w') as f:
            f.write(str(time.time()))
    except OSError:
        pass


def _wait_for(d: str, name: str, timeout: float) -> bool:
    t0 = time.time()
    p = os.path.join(d, name)
    while time.time() - t0 < timeout:
        if os.path.exists(p):
            return True
        time.sleep(0.01)
    return False


def sub_task(arg: tuple[str, int, float, str, bytes]) -> int:
    """A sub-task: flag, sleep (or wait for a release flag), flag, return its index squared.
    The last component is padding that only makes the SUBMIT_BATCH message large."""
    d, i, t, gate, _pad = arg
    _flag(d, f'sub_start.{os.getpid()}.{i}')
    if gate:
        _wait_for(d, gate, t)
    else:
        time.sleep(t)
    _flag(d, f'sub_done.{os.getpid()}.{i}')
    return i * i


class MarkPass(BasePass):
    """Appends one X gate: the output is complete iff all marks are present."""

    def __init__(self, d: str, k: int) -> None:
        self.d, self.k = d, k

    async def run(self, circuit, data) -> None:  # type: ignore
        circuit.append_gate(XGate(), 0)
        _flag(self.d, f'mark{self.k}.{os.getpid()}')


class SleepPass(BasePass):
    """Blocks the worker's main thread (the incoming thread keeps reading)."""

    def __init__(self, d: str, t: float, gate: str = '') -> None:
        self.d, self.t, self.gate = d, t, gate

    async def run(self, circuit, data) -> None:  # type: ignore
        _flag(self.d, f'root_sleep.{os.getpid()}')
        if self.gate:
            _wait_for(self.d, self.gate, self.t)
        else:
            time.sleep(self.t)
        _flag(self.d, f'root_woke.{os.getpid()}')


class SpawnPass(BasePass):
    """map() n sub-tasks and await them all; checks the values it gets back."""

    def __init__(self, d: str, n: int, t: float, gate: str = '', pad: int = 0) -> None:
        self.d, self.n, self.t, self.gate, self.pad = d, n, t, gate, pad

    async def run(self, circuit, data) -> None:  # type: ignore
        _flag(self.d, f'root_spawn.{os.getpid()}')
        pad = os.urandom(self.pad) if self.pad else b''
        args = [(self.d, i, self.t, self.gate, pad) for i in range(self.n)]
        _flag(self.d, f'root_mapping.{os.getpid()}')
        fut = get_runtime().map(sub_task, args)
        _flag(self.d, f'root_mapped.{os.getpid()}')
        res = await fut
        if list(res) != [i * i for i in range(self.n)]:
            raise RuntimeError('C14: wrong sub-task results %r' % (res,))
        _flag(self.d, f'root_joined.{os.getpid()}')


def workflow(d: str, n_sub: int = 4, t_sub: float = 1.0, t_sleep: float = 1.0,
             gate_sub: str = '', gate_sleep: str = '', pad: int = 0) -> list[BasePass]:
    return [
        MarkPass(d, 0),
        SpawnPass(d, n_sub, t_sub, gate_sub, pad),
        MarkPass(d, 1),
        SleepPass(d, t_sleep, gate_sleep),
        MarkPass(d, 2),
    ]


EXPECTED_MARKS = 3
