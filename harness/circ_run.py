"""History runner shared by C04 (program order), C05 (view consistency), C16 (pickling)."""
from __future__ import annotations

import multiprocessing as mp
import random

import circ_common as cc
from bqskit.ir.circuit import Circuit

STRUCT_ONLY = {'fold', 'unfold_all', 'compress', 'copy', 'pickle', 'batch_unfold', 'noop'}
SPEC = {'append', 'extend', 'append_circuit', 'iadd', 'insert', 'insert_circuit', 'pop', 'batch_pop', 'replace',
        'batch_replace', 'replace_with_circuit', 'unfold', 'append_qudit', 'insert_qudit', 'pop_qudit', 'renumber',
        'clear', 'compress', 'copy', 'noop'}


class HistoryTimeout(BaseException):
    """raised by the watchdog: a call (or reading the circuit) did not return"""


def _alarm(signum, frame):
    raise HistoryTimeout()


class watchdog:
    """context manager: raise HistoryTimeout in the main thread after `seconds` of CPU time of this process (a looping
    implementation burns CPU; CPU time does not depend on the load of the box), with a wall-clock backstop of 15x."""

    def __init__(self, seconds):
        self.seconds = seconds

    def __enter__(self):
        import signal
        self.old = (signal.signal(signal.SIGPROF, _alarm), signal.signal(signal.SIGALRM, _alarm))
        signal.setitimer(signal.ITIMER_PROF, self.seconds)
        signal.setitimer(signal.ITIMER_REAL, 15 * self.seconds)

    def __exit__(self, *a):
        import signal
        signal.setitimer(signal.ITIMER_PROF, 0)
        signal.setitimer(signal.ITIMER_REAL, 0)
        signal.signal(signal.SIGPROF, self.old[0])
        signal.signal(signal.SIGALRM, self.old[1])
        return False


HISTORY_TIMEOUT = 90   # CPU seconds per history (a history normally takes well under a second, at most ~6 s)


def run_history(args):
    """Run one random history under a watchdog: a call that never returns is a finding, not a hung check."""
    state = dict(steps=[], findings=[], hist=[], last=None, seed=args[0], n=0, rads=())
    try:
        with watchdog(HISTORY_TIMEOUT):
            return _run_history(args, state)
    except HistoryTimeout:
        last = state['last']
        if last is not None:
            state['findings'].append(dict(kind='hang', step=max(0, len(state['steps']) - 1), call=last[1], pre=last[0],
                                          detail=f'no return within {HISTORY_TIMEOUT}s of CPU time'))
        return dict(seed=state['seed'], n=state['n'], rads=state['rads'], steps=state['steps'],
                    findings=state['findings'], hist=state['hist'][:len(state['steps'])])


def _run_history(args, state):
    """Run one random history on the implementation.  Returns a dict with the model
    script, the implementation lines and the oracle findings."""
    seed, max_len, want = args
    rng = random.Random(seed)
    n = rng.randint(1, 6)
    rads = tuple(rng.choice([2, 2, 2, 3]) for _ in range(n))
    c = Circuit(n, list(rads))
    steps = state['steps']
    findings = state['findings']
    hist = state['hist']
    state['n'], state['rads'] = n, rads
    last = None
    for step in range(rng.randint(1, max_len)):
        try:
            call = cc.gen_call(rng, c)
        except Exception as e:
            # reading the circuit (iteration / surround) raised on a reachable state: the previous call broke it
            if last is not None:
                findings.append(dict(kind='iteration_raised', step=step - 1, call=last[1], pre=last[0],
                                     detail=type(e).__name__ + ':' + str(e)[:120]))
            break
        pre = cc.snap(c)
        last = (pre, call)
        state['last'] = last
        out = cc.apply_impl(c, call)
        post = cc.snap(c)
        hist.append(call)
        if call[0] == 'reparam_block':
            # for the model and the reference this is `replace` by the same block with new parameters
            # (the snapshot shows a block with the parameters an evaluation uses: the operation's own)
            old = cc.find_op([list(cy) for cy in pre[2]], call[1][0], call[1][1])
            new = (old[0], old[1], old[2], tuple(call[2]), old[4], cc.set_params(old[5], call[2]))
            call = ('replace', call[1], new)
        cmd = cc.model_cmd(call)
        iv = None
        if 'views' in want:
            # the implementation's incrementally maintained views, to be compared with the views the
            # Coq model (coq/circuit/CViews.v) derives from the implementation's own post-state grid
            try:
                iv = cc.impl_views(c)
            except Exception as e:   # an accessor failed: the views are corrupt (check_views reports it too)
                iv = ('raised', type(e).__name__ + ':' + str(e)[:120])
        steps.append((cc.fmt(pre), cmd, f'{out} | {cc.fmt(post)}', call[0], cc.fmt(post), iv))
        ok = out.kind != 'E'
        if out.kind == 'E' and out.val.startswith('Internal'):
            findings.append(dict(kind='internal_error', step=step, call=call, detail=out.val, pre=pre))
        if 'order' in want and ok:
            try:
                if call[0] in SPEC:
                    exp = cc.ref_apply(pre, call)
                    if not cc.grouped_ok(exp, post):
                        findings.append(dict(kind='order', step=step, call=call, pre=pre, post=post,
                                             expected_timelines=cc.TL(exp), observed_timelines=cc.TL(post)))
                if call[0] == 'fold' and cc.region_verdict(pre, call[1]) != 'ok':
                    findings.append(dict(kind='fold_accepted_invalid_region', step=step, call=call, pre=pre, post=post,
                                         detail=cc.region_verdict(pre, call[1])))
                if call[0] in STRUCT_ONLY or call[0] == 'unfold':
                    if cc.UTL(pre) != cc.UTL(post):
                        findings.append(dict(kind='structure_only_changed_program', step=step, call=call, pre=pre, post=post))
                if call[0] in ('add', 'mul') and out.kind == 'C':
                    if call[0] == 'add':
                        exp = cc.ref_apply(cc.ref_apply((pre[0], pre[1], ()), ('iadd', pre, tuple(range(pre[0])), False)),
                                           ('iadd', call[1], tuple(range(pre[0])), False))
                    else:
                        exp = (pre[0], pre[1], ())
                        for _ in range(call[1]):
                            exp = cc.ref_apply(exp, ('iadd', pre, tuple(range(pre[0])), False))
                    if not cc.grouped_ok(exp, out.val):
                        findings.append(dict(kind='order', step=step, call=call, pre=pre, post=out.val))
                if call[0] == 'imul' and call[1] >= 1:
                    exp = pre
                    for _ in range(call[1] - 1):
                        exp = cc.ref_apply(exp, ('iadd', pre, tuple(range(pre[0])), False))
                    if not cc.grouped_ok(exp, post):
                        findings.append(dict(kind='order', step=step, call=call, pre=pre, post=post))
            except cc.SpecError:
                pass
            except Exception as e:   # the oracle itself failed: report, never hide
                findings.append(dict(kind='oracle_raised', step=step, call=call, detail=repr(e)[:200], pre=pre))
        if 'views' in want:
            bad = cc.check_views(c)
            if bad:
                findings.append(dict(kind='views', step=step, call=call, symptoms=[b[0] for b in bad], detail=bad[:3], pre=pre))
                # a corrupted object makes every later step meaningless
                break
        if 'pickle' in want and ok and step % 3 == 0:
            import pickle
            try:
                d = pickle.loads(pickle.dumps(c))
                if cc.snap(d) != post or d != c or cc.check_views(d):
                    findings.append(dict(kind='pickle', step=step, call=call, pre=post, post=cc.snap(d)))
                e = c.copy()
                if cc.snap(e) != post or e != c:
                    findings.append(dict(kind='copy', step=step, call=call, pre=post, post=cc.snap(e)))
            except Exception as ex:
                findings.append(dict(kind='pickle_raised', step=step, call=call, detail=repr(ex)[:200], pre=post))
    return dict(seed=seed, n=n, rads=rads, steps=steps, findings=findings, hist=hist)


def run_many(seeds, max_len, want, procs=14):
    args = [(s, max_len, want) for s in seeds]
    with mp.get_context('fork').Pool(procs) as pool:
        return pool.map(run_history, args, chunksize=max(1, len(args) // (procs * 4)))


def model_script(results):
    """One `set <pre>` + command pair per modelled step, and one `set <post>` + `views` pair per step
    whose implementation views were recorded; returns (lines, index) where index holds, per pair,
    (what, result idx, step idx) with what in {'step', 'views'}; the answer of pair j is line 2*j+1."""
    lines, index = [], []
    for ri, r in enumerate(results):
        for si, st in enumerate(r['steps']):
            pre, cmd, impl, kind, post, iv = st
            if cmd is not None:
                lines.append('set ' + pre)
                lines.append(cmd)
                index.append(('step', ri, si))
            if iv is not None:
                lines.append('set ' + post)
                lines.append('views')
                index.append(('views', ri, si))
    return lines, index


def shrink_history(hist_seed, max_len, want, pred):
    """cheap shrinking: shortest prefix of the same seeded history that still shows the finding"""
    return None
