HOOK_COMMITS = []

CHECKS = [
]

import json as _json
from pathlib import Path as _Path
_have = {c['property_id'] for c in CHECKS}
for _f in sorted((_Path(__file__).resolve().parent.parent / 'manifest.d').glob('C*.json')):
    _d = _json.loads(_f.read_text())
    if _d['property_id'] not in _have:
        CHECKS.append(_d)
        _have.add(_d['property_id'])
CHECKS.sort(key=lambda c: c['property_id'])

_PENDING = 'machinery not built yet in this commit (build in progress, see DESIGN.md section 7)'
NOT_APPLICABLE = [dict(property_id='C%02d' % i, reason=_PENDING) for i in range(1, 21)
                  if 'C%02d' % i not in {c['property_id'] for c in CHECKS}]
