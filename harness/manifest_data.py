HOOK_COMMITS = []

CHECKS = [
    dict(
        property_id='C20',
        text='Rocq theorems over an executable model of CouplingGraph (connectivity test proved equal to reachability for every graph; more utilities being added) tied to /repo by an extracted-model correspondence that is exhaustive over all labelled graphs on <=5 (quick) / <=6 (thorough) vertices plus random graphs to 12 vertices, and a textbook oracle evaluated on the implementation.',
        note='Trusted: Coq kernel, ExtrOcamlBasic extraction, OCaml driver, the python oracle; functions without a theorem yet are covered by correspondence + oracle only (listed in evidence).',
        technique='Rocq proof over executable model + extracted-model correspondence (exhaustive small graphs)',
    ),
]

_PENDING = 'machinery not built yet in this commit (build in progress, see DESIGN.md section 7)'
NOT_APPLICABLE = [dict(property_id='C%02d' % i, reason=_PENDING) for i in range(1, 21)
                  if 'C%02d' % i not in {c['property_id'] for c in CHECKS}]
