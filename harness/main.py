"""CLI:  ./check <ID> [--tier quick|thorough] [--replay path]"""
from __future__ import annotations

import argparse
import importlib
import json
import os
import sys
import traceback
from pathlib import Path

sys.path.insert(0, str(Path(__file__).resolve().parent))
import vf  # noqa: E402


def main() -> int:
    ap = argparse.ArgumentParser()
    ap.add_argument('prop')
    ap.add_argument('--tier', default=os.environ.get('VERIF_TIER', 'quick'))
    ap.add_argument('--replay', default=None)
    a = ap.parse_args()
    seed = int(os.environ.get('VERIF_SEED', '0') or 0)
    tier = a.tier if a.tier in ('quick', 'thorough') else 'quick'
    ctx = vf.Ctx(a.prop, tier, seed)
    mod = importlib.import_module(f'props.{a.prop.lower()}')
    try:
        if a.replay:
            data = json.loads(Path(a.replay).read_text())
            ctx.build(**getattr(mod, 'BUILD', {}))
            mod.replay(ctx, data)
        else:
            mod.run(ctx)
    except Exception:
        # the machinery itself failed: the property is no longer shown
        ctx.broken_obligation('check machinery raised', traceback.format_exc())
    return ctx.finish()


if __name__ == '__main__':
    sys.exit(main())
