#!/bin/bash
# Lead's tool: run every registered quick (or $1 = thorough) check in /verif against /repo, sequentially; summary on stdout.
cd "$(dirname "$0")"
tier=${1:-quick}
for i in 01 02 03 04 05 06 07 08 09 10 11 12 13 14 15 16 17 18 19 20; do
  t0=$(date +%s)
  out=$(./check C$i --tier $tier 2>&1); rc=$?
  t1=$(date +%s)
  echo "C$i rc=$rc wall=$((t1-t0))s $(echo "$out" | grep -c '^KNOWN-FINDING') known; $(echo "$out" | grep '^VIOLATION' | head -2 | tr '\n' ' ')"
done
