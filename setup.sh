#!/bin/bash
# Build the whole framework offline from files on disk: regenerate gen/*.v from
# /repo, full .vo build of the Coq development, extraction + OCaml drivers.
cd "$(dirname "$0")"
export VERIF_REPO=${VERIF_REPO:-/repo}
export PYTHONPATH=$VERIF_REPO PYTHONHASHSEED=0 BQSKIT_VERIF=1 OMP_NUM_THREADS=1 OPENBLAS_NUM_THREADS=1
ulimit -s unlimited 2>/dev/null
exec /venv/bin/python harness/setup_all.py
