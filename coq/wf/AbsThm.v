(* Soundness of the collecting semantics [exec] w.r.t. the relational abstract semantics [wsem]:
   every state reachable by any terminating abstract run (any predicate outcomes, any number of loop
   iterations, any family of block runs) is in the computed set.  One induction on the AST.  Loops: the
   fuel only bounds the SEARCH for a post-fixed point; closure of the returned set is checked by [loop]
   itself, so exhausted fuel yields [None], never a wrong answer. *)
From Coq Require Import List Bool Arith Lia PArith MSets.MSetPositive.
Import ListNotations.
From BQ Require Import wf.WfAst wf.State wf.Contracts wf.Abs.

Lemma smem_In : forall s l, smem s l = true <-> In s l.
Proof.
  induction l as [|x r IH]; simpl.
  - split; [discriminate | tauto].
  - rewrite orb_true_iff, astate_eqb_eq, IH. split; intros [H|H]; auto.
Qed.

Lemma pos_of_inj : forall a b, pos_of a = pos_of b -> a = b.
Proof.
  induction a as [|x a IH]; intros [|y b] H; simpl in H.
  - reflexivity.
  - destruct y; discriminate.
  - destruct x; discriminate.
  - destruct x, y; try discriminate; injection H as H; apply IH in H; subst; reflexivity.
Qed.

Lemma code_inj : forall a b, code a = code b -> a = b.
Proof.
  intros a b H. apply pos_of_inj in H. unfold bits in H.
  destruct a as [a1 a2 a3 a4 a5 a6 d a7 a8 m a9 a10 a11 cc v w a12 a13 a14].
  destruct b as [b1 b2 b3 b4 b5 b6 d' b7 b8 m' b9 b10 b11 cc' v' w' b12 b13 b14]. simpl in H.
  injection H as -> -> -> -> -> -> Hd1 Hd2 -> -> Hm1 Hm2 -> -> -> Hc Hv1 Hv2 Hw1 Hw2 Hw3 -> -> ->.
  assert (d = d') as -> by (destruct d, d'; simpl in *; congruence).
  assert (m = m') as -> by (destruct m, m'; simpl in *; congruence).
  assert (cc = cc') as -> by (destruct cc, cc'; simpl in *; congruence).
  assert (v = v') as -> by (destruct v, v'; simpl in *; congruence).
  assert (w = w') as -> by (destruct w, w'; simpl in *; congruence).
  reflexivity.
Qed.

Lemma codes_In : forall l k, PositiveSet.In k (codes l) <-> exists x, In x l /\ code x = k.
Proof.
  induction l as [|y l IH]; intros k; simpl.
  - split.
    + intros H. exfalso. eapply PositiveSet.empty_spec; eauto.
    + intros [x [[] _]].
  - rewrite PositiveSet.add_spec, IH. split.
    + intros [->|[x [Hx <-]]]; eauto.
    + intros [x [[->|Hx] <-]]; eauto.
Qed.

Lemma dedup_from_In : forall l seen x,
  In x (dedup_from seen l) <-> In x l /\ ~ PositiveSet.In (code x) seen.
Proof.
  induction l as [|y l IH]; intros seen x; simpl.
  - tauto.
  - destruct (PositiveSet.mem (code y) seen) eqn:E.
    + rewrite IH. apply PositiveSet.mem_spec in E. split.
      * intros [H1 H2]. auto.
      * intros [[->|H1] H2]; [contradiction | auto].
    + assert (Hn : ~ PositiveSet.In (code y) seen).
      { intro A. apply PositiveSet.mem_spec in A. congruence. }
      simpl. rewrite IH, PositiveSet.add_spec. split.
      * intros [->|[H1 H2]]; [auto | split; auto].
      * intros [[->|H1] H2]; [auto|].
        destruct (Pos.eq_dec (code x) (code y)) as [Ec|Ec].
        -- apply code_inj in Ec. auto.
        -- right. split; auto. intros [A|A]; contradiction.
Qed.

Lemma sdedup_In : forall x a, In x (sdedup a) <-> In x a.
Proof.
  intros. unfold sdedup. rewrite dedup_from_In. split; [tauto|]. intros H. split; auto.
  intro A. eapply PositiveSet.empty_spec; eauto.
Qed.

Lemma sunion_In : forall x a b, In x (sunion a b) <-> In x a \/ In x b.
Proof.
  intros x a b. unfold sunion. rewrite in_app_iff, dedup_from_In. split.
  - intros [H|[H _]]; auto.
  - intros [H|H]; auto.
    destruct (PositiveSet.mem (code x) (codes b)) eqn:E.
    + apply PositiveSet.mem_spec in E. apply codes_In in E. destruct E as [y [Hy Ey]].
      apply code_inj in Ey. subst. auto.
    + right. split; auto. intro A. apply PositiveSet.mem_spec in A. congruence.
Qed.

Lemma ssubset_In : forall a b x, ssubset a b = true -> In x a -> In x b.
Proof.
  unfold ssubset. intros a b x H Hx. rewrite forallb_forall in H. specialize (H _ Hx).
  apply PositiveSet.mem_spec in H. apply codes_In in H. destruct H as [y [Hy Ey]].
  apply code_inj in Ey. subst. auto.
Qed.

Lemma bmem_In : forall b l, bmem b l = true <-> In b l.
Proof.
  unfold bmem. intros b l. rewrite existsb_exists. split.
  - intros [x [Hx E]]. apply eqb_prop in E. subst. auto.
  - intros H. exists b. split; auto. apply eqb_reflx.
Qed.

Section Sound.
Variable c : config.
Variable fuel : nat.

(* ---- loops ------------------------------------------------------------------------------------- *)
Lemma closed_iter : forall (step : astate -> astate -> nat -> Prop) cont stop (R : sset),
  (forall x y k, In x R -> cont x = true -> step x y k -> In y R) ->
  forall s s' k, iter_rel step cont stop s s' k -> In s R -> In s' (filter stop R).
Proof.
  intros step cont stop R Hcl s s' k H. induction H as [s Hs | s m s' k1 k2 Hc Hst _ IH]; intros Hin.
  - apply filter_In. auto.
  - apply IH. eapply Hcl; eauto.
Qed.

Lemma loop_sound : forall (f : sset -> option sset) (step : astate -> astate -> nat -> Prop) cont stop,
  (forall X X' x y k, f X = Some X' -> In x X -> step x y k -> In y X') ->
  forall n R R', loop f cont stop n R = Some R' ->
  forall s s' k, In s R -> iter_rel step cont stop s s' k -> In s' R'.
Proof.
  intros f step cont stop Hf. induction n as [|n IH]; intros R R' HL s s' k Hin Hit; simpl in HL.
  - discriminate.
  - destruct (f (filter cont R)) as [N|] eqn:EN; [|discriminate].
    destruct (ssubset N R) eqn:ES.
    + injection HL as <-. eapply closed_iter; eauto.
      intros x y k0 Hx Hc Hs. eapply ssubset_In; eauto.
      eapply Hf; eauto. apply filter_In; auto.
    + eapply IH; eauto. apply sunion_In. auto.
Qed.

(* ---- ForEachBlockPass -------------------------------------------------------------------------- *)
Lemma fe_triples_sound : forall (f : sset -> option sset) (step : astate -> astate -> nat -> Prop) flt s,
  (forall sb F sb' k, f [sb] = Some F -> step sb sb' k -> In sb' F) ->
  forall L T, fe_triples_on f flt s L = Some T ->
  forall sb sb' k (acc : bool), In sb L -> step sb sb' k ->
    (if acc then accept_ok flt s sb sb' else reject_ok flt s sb sb') = true ->
    In (sb, sb', acc) T.
Proof.
  intros f step flt s Hf. induction L as [|x L IH]; intros T HT sb sb' k acc Hin Hst Hok; unfold fe_triples_on in *; simpl in *.
  - contradiction.
  - destruct (f [x]) as [F|] eqn:EF; [|discriminate].
    match type of HT with match ?e with _ => _ end = _ => destruct e as [T0|] eqn:ET0; [|discriminate] end.
    injection HT as <-. apply in_or_app. destruct Hin as [->|Hin].
    + left. apply in_flat_map. exists sb'. split; [eapply Hf; eauto|].
      apply in_or_app. destruct acc; rewrite Hok; simpl; auto.
    + right. eapply IH; eauto.
Qed.

Lemma forallb_false_ex : forall (A : Type) (p : A -> bool) l,
  forallb p l = false -> exists x, In x l /\ p x = false.
Proof.
  induction l as [|a l IH]; simpl; intros H; [discriminate|].
  apply andb_false_iff in H. destruct H as [H|H].
  - exists a. auto.
  - destruct (IH H) as [x [Hx Px]]. exists x. auto.
Qed.

Lemma bit_opts_sound : forall v cov g (runs T : list brun),
  bit_ok v cov (forallb (res_bit g) runs) = true -> (forall r, In r runs -> In r T) ->
  In v (bit_opts cov g T).
Proof.
  intros v cov g runs T H Hsub. unfold bit_opts. destruct v; simpl; auto. right.
  simpl in H. apply orb_true_iff in H. destruct H as [H|H].
  - apply negb_true_iff in H. apply forallb_false_ex in H. destruct H as [r [Hr Pr]].
    assert (E : existsb (fun r => negb (res_bit g r)) T = true).
    { apply existsb_exists. exists r. split; auto. rewrite Pr. auto. }
    rewrite E, orb_true_r. simpl. auto.
  - rewrite H. simpl. auto.
Qed.


(* ---- the block runs depend on the circuit-level state only through [fe_key] ---------------------- *)
Lemma fe_key_inits : forall s, block_inits c (fe_key s) = block_inits c s.
Proof. intros s. unfold block_inits, fe_key, mk_block, block_deps; simpl. destruct (blk1 s), (wd s); reflexivity. Qed.

Lemma fe_key_accept : forall flt s sb sb', accept_ok flt (fe_key s) sb sb' = accept_ok flt s sb sb'.
Proof. intros. unfold accept_ok, all_cg, resp_verdicts, cpl_verdict, cn_real, fe_key; simpl. reflexivity. Qed.

Lemma fe_key_reject : forall flt s sb sb', reject_ok flt (fe_key s) sb sb' = reject_ok flt s sb sb'.
Proof. intros. unfold reject_ok, has_cg, resp_verdicts, cpl_verdict, cn_real, fe_key; simpl. reflexivity. Qed.

Lemma fe_key_triples : forall f flt s, fe_triples f c flt (fe_key s) = fe_triples f c flt s.
Proof.
  intros f flt s. unfold fe_triples. rewrite fe_key_inits.
  generalize (block_inits c s) as L. induction L as [|x L IH]; simpl; [reflexivity|].
  unfold fe_triples_on in *. simpl. rewrite IH.
  destruct (f [x]) as [F|]; [|reflexivity].
  match goal with |- match ?e with _ => _ end = _ => destruct e; [|reflexivity] end.
  erewrite flat_map_ext; [reflexivity|]. intros a. simpl. rewrite fe_key_accept, fe_key_reject. reflexivity.
Qed.

Lemma fe_table_lookup : forall f flt keys tb k T,
  fe_table f c flt keys = Some tb -> fe_lookup k tb = Some T -> fe_triples f c flt k = Some T.
Proof.
  intros f flt. induction keys as [|x keys IH]; intros tb k T HT HL; simpl in HT.
  - injection HT as <-. discriminate.
  - destruct (fe_triples f c flt x) as [Tx|] eqn:Ex; [|discriminate].
    destruct (fe_table f c flt keys) as [tb0|] eqn:Etb; [|discriminate].
    injection HT as <-. simpl in HL. destruct (astate_eqb k x) eqn:Ek.
    + apply astate_eqb_eq in Ek. subst. injection HL as <-. auto.
    + eapply IH; eauto.
Qed.

Lemma fe_post_sound : forall s (runs T : list brun) m q p n d,
  (forall r, In r runs -> In r T) ->
  fe_choice_ok s runs m q p n d = true ->
  In (fe_result c s m q p n (fe_sem_of s runs) (fe_warned_of s runs) d) (fe_post c s T).
Proof.
  intros s runs T m q p n d Hsub Hok. unfold fe_choice_ok in Hok.
  repeat (apply andb_prop in Hok; destruct Hok as [Hok ?]).
  unfold fe_post. apply sdedup_In.
  apply in_flat_map. exists m. split; [eapply bit_opts_sound; eauto|].
  apply in_flat_map. exists q. split; [eapply bit_opts_sound; eauto|].
  apply in_flat_map. exists p. split; [eapply bit_opts_sound; eauto|].
  apply in_flat_map. exists n. split; [eapply bit_opts_sound; eauto|].
  apply in_flat_map. exists (fe_sem_of s runs). split.
  { unfold fe_sem_of. apply in_or_app. destruct (sem s) eqn:Es; simpl.
    - match goal with |- context [forallb ?f runs] => destruct (forallb f runs) eqn:EF end; auto.
      right. apply forallb_false_ex in EF. destruct EF as [[[sb sb'] acc] [Hx Px]].
      assert (E : existsb (fun r : brun => let '(_, sb'0, acc0) := r in acc0 && negb (sem sb'0)) T = true).
      { apply existsb_exists. exists (sb, sb', acc). split; auto. destruct acc; [|discriminate]. rewrite Px. auto. }
      rewrite E. simpl. auto.
    - right. simpl. auto. }
  apply in_flat_map. exists (fe_warned_of s runs). split.
  { unfold fe_warned_of. apply in_or_app. destruct (warned s) eqn:Ew; simpl; auto.
    match goal with |- context [existsb ?f runs] => destruct (existsb f runs) eqn:EF end; auto.
    left. apply existsb_exists in EF. destruct EF as [[[sb sb'] acc] [Hx Px]].
    assert (E : existsb (fun r : brun => let '(_, sb'0, _) := r in warned sb'0) T = true).
    { apply existsb_exists. exists (sb, sb', acc). split; auto. }
    rewrite E. simpl. auto. }
  apply in_map. unfold dep_ok, dep_opts in *. destruct (dep s), d; simpl in *; auto; discriminate.
Qed.

(* ---- the main theorem ---------------------------------------------------------------------------- *)
Theorem exec_sound : forall w X X' s s' k,
  exec c fuel w X = Some X' -> In s X -> wsem c w s s' k -> In s' X'.
Proof.
  induction w as [ | l | a IHa b IHb | p t IHt e IHe | p b IHb | p b IHb | flt cf eb body IHb | inner IHi ip op vt];
    intros X X' s s' k HE Hin HS; simpl in HE, HS.
  - (* Skip *) destruct HS as [-> _]. injection HE as <-. auto.
  - (* Leaf *) destruct HS as [HS _]. injection HE as <-. apply sdedup_In. apply in_flat_map. eauto.
  - (* Seq *) destruct HS as [m [k1 [k2 [H1 [H2 _]]]]].
    destruct (exec c fuel a X) as [Y|] eqn:EA; [|discriminate]. eauto.
  - (* IfThenElse *)
    destruct (exec c fuel t (filter (may c p true) X)) as [A|] eqn:EA; [|discriminate].
    destruct (exec c fuel e (filter (may c p false) X)) as [B|] eqn:EB; [|discriminate].
    injection HE as <-. apply sunion_In. destruct HS as [[Hm H]|[Hm H]].
    + left. eapply IHt; eauto. apply filter_In; auto.
    + right. eapply IHe; eauto. apply filter_In; auto.
  - (* While *) eapply (loop_sound (exec c fuel b) (wsem c b));
      [intros; eapply IHb; eauto | exact HE | exact Hin | exact HS].
  - (* DoWhile *) destruct HS as [m [k1 [k2 [H1 [H2 _]]]]].
    destruct (exec c fuel b X) as [Y|] eqn:EB; [|discriminate].
    eapply (loop_sound (exec c fuel b) (wsem c b));
      [intros; eapply IHb; eauto | exact HE | eapply IHb; eauto | exact H2].
  - (* ForEach *)
    destruct HS as [runs [m [q [p [n [d [HF [Hok [-> _]]]]]]]]].
    remember (sdedup (map fe_key X)) as keys eqn:Hk. clear Hk.
    destruct (fe_table (exec c fuel body) c flt keys) as [tb|] eqn:Etb; [|discriminate].
    revert X' HE. induction X as [|x X IHX]; intros X' HE; [contradiction|]. simpl in HE.
    destruct (fe_lookup (fe_key x) tb) as [T|] eqn:ET; [|discriminate].
    match type of HE with match ?e with _ => _ end = _ => destruct e as [A|] eqn:EA; [|discriminate] end.
    injection HE as <-. apply sunion_In. destruct Hin as [->|Hin].
    + left. apply fe_post_sound; auto.
      intros r Hr. apply in_map_iff in Hr. destruct Hr as [[[[sb sb'] acc] kb] [<- Hr]].
      rewrite Forall_forall in HF. specialize (HF _ Hr). simpl in HF. destruct HF as [Hrun Hsem].
      apply andb_prop in Hrun. destruct Hrun as [Hmem Hacc]. apply smem_In in Hmem. simpl.
      eapply fe_table_lookup in ET; eauto. rewrite fe_key_triples in ET. unfold fe_triples in ET.
      eapply (fe_triples_sound (exec c fuel body) (wsem c body)); eauto.
      intros sb0 F sb0' k0 HF0 Hs0. eapply IHb; eauto. simpl; auto.
    + right. apply IHX; auto.
  - (* EmbedPerms *) destruct HS as [-> _]. injection HE as <-. auto.
Qed.

(* ---- the syntactic error-pass bound ----------------------------------------------------------------- *)
Lemma iter_zero : forall (step : astate -> astate -> nat -> Prop) cont stop,
  (forall x y k, step x y k -> k <= 0) ->
  forall s s' k, iter_rel step cont stop s s' k -> k <= 0.
Proof.
  intros step cont stop H s s' k Hi. induction Hi as [|s m s' k1 k2 _ Hs _ IH]; [lia|].
  apply H in Hs. lia.
Qed.

Lemma list_max_le : forall l N, Forall (fun x => x <= N) l -> list_max l <= N.
Proof. intros l N H. apply list_max_le. auto. Qed.

Theorem err_bound_sound : forall w N, err_bound w = Some N ->
  forall s s' k, wsem c w s s' k -> k <= N.
Proof.
  induction w as [ | l | a IHa b IHb | p t IHt e IHe | p b IHb | p b IHb | flt cf eb body IHb | inner IHi ip op vt];
    intros N HB s s' k HS; simpl in HB, HS.
  - destruct HS as [_ ->]. lia.
  - destruct HS as [_ ->]. injection HB as <-. lia.
  - destruct (err_bound a) as [x|]; [|discriminate]. destruct (err_bound b) as [y|]; [|discriminate].
    injection HB as <-. destruct HS as [m [k1 [k2 [H1 [H2 ->]]]]].
    specialize (IHa _ eq_refl _ _ _ H1). specialize (IHb _ eq_refl _ _ _ H2). lia.
  - destruct (err_bound t) as [x|]; [|discriminate]. destruct (err_bound e) as [y|]; [|discriminate].
    injection HB as <-. destruct HS as [[_ H]|[_ H]].
    + specialize (IHt _ eq_refl _ _ _ H). lia.
    + specialize (IHe _ eq_refl _ _ _ H). lia.
  - destruct (err_bound b) as [[|x]|]; try discriminate. injection HB as <-.
    eapply (iter_zero (wsem c b)); [intros x0 y0 k0 Hxy; eapply (IHb 0); eauto | exact HS].
  - destruct (err_bound b) as [[|x]|]; try discriminate. injection HB as <-.
    destruct HS as [m [k1 [k2 [H1 [H2 ->]]]]].
    assert (k2 <= 0) by (eapply (iter_zero (wsem c b)); [intros x0 y0 k0 Hxy; eapply (IHb 0); eauto | exact H2]).
    specialize (IHb _ eq_refl _ _ _ H1). lia.
  - destruct HS as [runs [m [q [p [n [d [HF [_ [_ ->]]]]]]]]].
    apply list_max_le. apply Forall_forall. intros x Hx. apply in_map_iff in Hx.
    destruct Hx as [[[[sb sb'] acc] kb] [<- Hr]]. rewrite Forall_forall in HF.
    specialize (HF _ Hr). simpl in HF. destruct HF as [_ Hs]. simpl. eapply IHb; eauto.
  - destruct HS as [_ ->]. injection HB as <-. lia.
Qed.

End Sound.
