(* One contract per leaf pass: [leaf_post c l s] is the list of abstract states the pass may leave
   when started in [s] ([] = the pass raises, compile() returns nothing).  Each contract is
   CLASSIFIED: [ProvedElsewhere] (the pass has a model and a theorem in this development: C04/C05/C08/
   C09/C11) or [AssumedAndTested] (numerical leaf: the decision skeleton is C10/C03's, the optimiser is
   an oracle; the contract is exercised by the real-compile() runs of C01/C02 and by C10's harness).
   The end-to-end theorems of C01/C02 are RELATIVE to these contracts.  The Hoare-triple lemmas at the
   end restate the load-bearing part of every contract in pre/post form. *)
From Coq Require Import List Bool Arith.
Import ListNotations.
From BQ Require Import wf.WfAst wf.State.

Inductive cclass := ProvedElsewhere | AssumedAndTested.

Definition leaf_class (l : leaf) : cclass :=
  match l with
  | LSetSeed | LNoop | LLog _ | LLogError => ProvedElsewhere      (* do not touch circuit or the tracked data *)
  | LUnfold | LExtractMeas | LRestoreMeas => ProvedElsewhere      (* C04 unfold_all, C01_measurements *)
  | LSetModel | LSetTarget _ | LExtractConn | LRestoreConn => ProvedElsewhere   (* C11 data passes *)
  | LQuick _ | LExtend | LGroupSingle => ProvedElsewhere          (* C08 partitioners regroup only *)
  | LGreedyPlace | LSabreLayout | LSabreRoute | LApplyPlacement => ProvedElsewhere   (* C09 *)
  | LSubtopology _ | LPamVerify => ProvedElsewhere                (* data only *)
  | LFill | LSynth _ _ _ _ | LRebase2Q _ | LScan _ _ | LGeneralSQ | LZXZXZ
  | LPamLayout | LPamRoute => AssumedAndTested
  end.

(* error-introducing leaves: each may move the circuit by at most the success threshold *)
Definition leaf_err (l : leaf) : nat :=
  match l with
  | LSynth _ _ _ _ | LRebase2Q _ | LScan _ _ | LPamRoute => 1
  | _ => 0
  end.

Definition havoc (f : bool -> astate -> astate) (l : list astate) : list astate :=
  flat_map (fun s => [f true s; f false s]) l.
(* a bit that can only improve (operations are removed): true stays, false may become true *)
Definition improve (g : astate -> bool) (f : bool -> astate -> astate) (l : list astate) : list astate :=
  flat_map (fun s => if g s then [s] else [s; f true s]) l.
(* a bit that can only get worse (operations are added) *)
Definition worsen (g : astate -> bool) (f : bool -> astate -> astate) (l : list astate) : list astate :=
  flat_map (fun s => if g s then [s; f false s] else [s]) l.
Definition cond_set (b : bool) (f : bool -> astate -> astate) (l : list astate) : list astate :=
  if b then map (f true) l else havoc f l.

(* a pass that rewrites operations while a measurement placeholder is (still / again) in the circuit *)
Definition rewrites (s : astate) : astate :=
  match ms s with MIn | MBack => set_msbad true s | _ => s end.
(* a pass that changes placement / mappings after the measurements were put back *)
Definition remaps (s : astate) : astate :=
  match ms s with MBack => set_msbad true s | _ => s end.

Definition cn_real (s : astate) : bool := match cn s with CReal => true | CAll => false end.
Definition dsucc (d : depth) : depth := match d with D0 => D1 | D1 => D2 | _ => D3 end.

Definition leaf_post_raw (c : config) (l : leaf) (s : astate) : list astate :=
  match l with
  | LSetSeed | LNoop | LLogError | LExtend | LSubtopology _ | LPamVerify => [s]
  | LLog w => [if w then set_warned true s else s]
  | LUnfold => [set_blocks D0 false false false s]
  | LExtractMeas => [match ms s with MIn | MBack => set_ms MOut s | _ => s end]
  | LRestoreMeas =>
      [match ms s with MOut => set_ms MBack s | MBack => set_msbad true s | _ => s end]
  | LSetModel =>
      (* data.model := the configuration's model; data.placement := range(num_qudits).  Gate-set
         membership and coupling are relative to the model: unknown afterwards. *)
      havoc set_mqn (havoc set_sqn (havoc set_cpl [remaps (set_plid true (set_conn CReal (sv s) s))]))
  | LSetTarget _ => [set_tgt true s]
  | LQuick _ =>
      [match dep s with
       | D0 => set_blocks D1 true true false s
       | d => set_blocks (dsucc d) (sqab s) (mqab s) false s end]
  | LGroupSingle =>
      [match dep s with D0 => set_blocks D1 true false true s | _ => set_blocks D3 false false false s end]
  | LFill =>
      (* every top-level single-qudit gate becomes get_general_sq_gate() *)
      match dep s with
      | D0 => [rewrites (set_sqn (gsn c) s)]
      | _ => havoc set_sqn [rewrites s]
      end
  | LExtractConn => [set_conn CAll (match cn s with CReal => SReal | CAll => SAll end) s]
  | LRestoreConn =>
      match sv s with SNone => [] | SReal => [set_conn CReal SNone s] | SAll => [set_conn CAll SNone s] end
  | LSynth _ g _ _ =>
      (* circuit := synthesize(data.target): a fresh circuit built from the layer generator's gates *)
      let s0 := rewrites (set_noph true (set_blocks D0 false false false (set_sem (tgt s) s))) in
      match g with
      | LgDefault | LgModelMQ =>
          cond_set (cn_real s && negb (many_model c)) set_cpl
            (cond_set (negb (many_model c)) set_nomany (havoc set_sqn [set_mqn true s0]))
      | LgSingle =>
          if nosq_model c then [] else
          (* a product of single-qudit gates: exact on one qudit, otherwise whatever the search returns *)
          match wd s with
          | W1 => [set_sqn true s0]
          | WAny => set_sqn true s0 :: havoc set_sem [set_sqn true (set_mqn true (set_cpl true (set_nomany true s0)))]
          | _ => havoc set_sem [set_sqn true (set_mqn true (set_cpl true (set_nomany true s0)))]
          end
      end
  | LRebase2Q _ =>
      (* every non-native 2-qudit gate is replaced in place by native 2-qudit gates + general 1-qudit gates,
         instantiated against data.target *)
      let s0 := rewrites (set_sem (sem s && tgt s) s) in
      let l1 := if gsn c then [s0] else worsen sqn set_sqn [s0] in
      match dep s with
      | D0 => if nomany s then map (set_mqn true) l1 else improve mqn set_mqn l1
      | _ => improve mqn set_mqn l1
      end
  | LScan _ _ =>
      (* operations are only removed (the rest re-instantiated against data.target) *)
      improve mqn set_mqn (improve sqn set_sqn (improve cpl set_cpl (improve nomany set_nomany
        [rewrites (set_sem (sem s && tgt s) s)])))
  | LGeneralSQ =>
      match wd s with
      | W1 | WAny => if has_gen c then [rewrites (set_blocks D0 false false false (set_sqn true s))] else []
      | _ => [] end
  | LZXZXZ =>
      match wd s with
      (* emits RZ (U1 when only U1 is native) and SX (RX when only RX is native), whatever the predicate said *)
      | W1 | WAny => cond_set (zx_native c) set_sqn [rewrites (set_blocks D0 false false false s)]
      | _ => [] end
  | LGreedyPlace | LSabreLayout | LPamLayout => [remaps (set_plid false s)]
  | LSabreRoute =>
      (* SWAPs are inserted so that every gate is executable under data.placement; a gate on > 2 qudits only
         needs a CONNECTED (not pairwise coupled) location *)
      cond_set (cn_real s && nomany s) set_cpl
        (worsen mqn set_mqn [rewrites (remaps (set_tgt false s))])
  | LPamRoute =>
      let ok := match dep s with D0 => false | _ => mqab s end in
      cond_set (ok && cn_real s && negb (many_model c)) set_cpl
        (cond_set (ok && negb (many_model c)) set_nomany
          (havoc set_mqn (havoc set_sqn [rewrites (remaps (set_tgt false s))])))
  | LApplyPlacement =>
      let s0 := rewrites (remaps (set_plid true (set_fullw true (if fullw s && plid s then s else set_tgt false s)))) in
      if fullw s then [s0] else map (fun w => set_wd w s0) (filter (wle (wd s)) all_w)
  end.

Definition leaf_post (c : config) (l : leaf) (s : astate) : list astate :=
  map (norm c) (leaf_post_raw c l s).
