(* Workflow AST shared by C01 / C02: the tree of passes that bqskit.compiler.compile.build_workflow
   returns, as data.  Terms of [pass] are GENERATED from the live Workflow objects by
   harness/gen/gen_workflows.py (coq/gen/Workflows.v); nothing here is specific to one workflow.
   No proofs in this file. *)
From Coq Require Import List Bool Arith.
Import ListNotations.

(* ---- predicates (bqskit/passes/control/predicates/*.py) -------------------------------- *)
Inductive pred :=
| PWidthLt (k : nat)                    (* WidthPredicate(k): circuit.num_qudits < k *)
| PMultiPhysical                        (* every gate of circuit.gate_set with >=2 qudits is in model.gate_set *)
| PSinglePhysical                       (* every gate of circuit.gate_set with <=1 qudit is in data.gate_set *)
| PPhysical                             (* model.is_compatible(circuit, placement) *)
| PMany (chk_circuit chk_model : bool)  (* ManyQuditGatesPredicate *)
| PNoSQInModel | PHasGeneralSQ | PZX | PAllConstSQ   (* functions of the model's gate set only *)
| PChange | PGateCount                  (* history dependent: left free *)
| PNot (p : pred) | PAnd (p q : pred) | POr (p q : pred).

(* ---- leaf options that change behaviour ------------------------------------------------- *)
Inductive lgen :=                       (* layer generator of a search-synthesis pass *)
| LgDefault                             (* None: data.gate_set.build_mq_layer_generator() at run time *)
| LgModelMQ                             (* built at workflow-build time by model.gate_set.build_mq_layer_generator() *)
| LgSingle.                             (* SingleQuditLayerGenerator(None): the model's single-qudit gates *)
Inductive thr := ThrEps | ThrDefault.   (* success_threshold = synthesis_epsilon | the class default 1e-8 *)
Inductive synthk := SkQSearch | SkLeap.
Inductive scanf := ScAll | ScMQ | ScSQ. (* ScanningGateRemovalPass collection filter *)
Inductive tkind := TkUnitary | TkState | TkStateSystem.

Inductive leaf :=
| LSetSeed | LNoop | LLog (warn : bool) | LLogError
| LUnfold | LExtractMeas | LRestoreMeas
| LSetModel | LSetTarget (k : tkind)
| LQuick (block_size : nat) | LExtend | LGroupSingle | LFill
| LExtractConn | LRestoreConn
| LSynth (k : synthk) (g : lgen) (t : thr) (pas : bool)  (* QSearch/LEAP, optionally inside PermutationAwareSynthesisPass *)
| LRebase2Q (t : thr) | LScan (f : scanf) (t : thr)
| LGeneralSQ | LZXZXZ
| LGreedyPlace | LSabreLayout | LSabreRoute
| LSubtopology (block_size : nat) | LPamLayout | LPamRoute | LPamVerify
| LApplyPlacement.

(* ---- ForEachBlockPass replace filters (passes/control/foreach.py gen_replace_filter) ------ *)
Inductive ltkind := LtAll | LtMulti | LtMany.
Inductive rfilter :=
| RAlways
| RLessThan (k : ltkind)
| RRespecting (fully : bool) (k : ltkind).
Inductive cfilter := CfDefault.         (* default_collection_filter: CircuitGate / Constant- / VariableUnitary / Pauli *)

Inductive pass :=
| Skip
| Leaf (l : leaf)
| Seq (a b : pass)                      (* Workflow: right-nested *)
| IfThenElse (c : pred) (t e : pass)    (* on_false = None is [Skip] *)
| While (c : pred) (b : pass)
| DoWhile (c : pred) (b : pass)
| ForEach (flt : rfilter) (cf : cfilter) (errb : bool) (body : pass)
| EmbedPerms (inner : pass) (inp outp vary : bool).

Fixpoint seqs (ps : list pass) : pass :=
  match ps with [] => Skip | [p] => p | p :: r => Seq p (seqs r) end.

(* ---- configuration: the facts about the target model the model-only predicates read -------- *)
Record config := {
  many_model : bool;     (* the gate set has a gate on > 2 qudits *)
  nosq_model : bool;     (* NoSingleQuditGatesInModel *)
  has_gen    : bool;     (* HasGeneralSingleQuditGate *)
  zx_model   : bool;     (* ZXGatePredicate, as the LIVE predicate code answers for the model *)
  allconst   : bool;     (* AllConstantSingleQuditGates *)
  gsn        : bool;     (* gate_set.get_general_sq_gate() is itself in the gate set *)
  zx_native  : bool      (* INDEPENDENT of the predicate code: the gates ZXZXZDecomposition emits for this gate set
                            (RZ, else U1; SX, else RX) are all in the gate set *)
}.

Inductive ikind := KCircuit | KUnitary | KState | KStateSystem.
Record meta := {
  m_kind  : ikind;
  m_level : nat;          (* optimization level 1..4 *)
  m_errthr : bool;        (* error_threshold set *)
  m_seed : bool;          (* seed set *)
  m_width : nat;          (* num_qudits of a unitary/state input (0 for circuits: any width) *)
  m_cfg   : config
}.
