(* Counter-branch reconstruction (NOT verified, no proofs needed): given a start state and a final state
   the collecting semantics says is reachable, search for a trace of [Run.run] that realises it.  A
   returned trace is always re-checked by [run] (wf/Check.v: wf_refutes), so a bug here can only make a
   refutation fail to be found, never make a false one accepted. *)
From Coq Require Import List Bool Arith.
Import ListNotations.
From BQ Require Import wf.WfAst wf.State wf.Contracts wf.Abs wf.Run.

Definition FFUEL : nat := 24.

Definition reach (c : config) (w : pass) (s t : astate) : bool :=
  match exec c FFUEL w [s] with Some X => smem t X | None => false end.

Fixpoint index_of (t : astate) (l : list astate) (i : nat) : option nat :=
  match l with [] => None | x :: r => if astate_eqb t x then Some i else index_of t r (S i) end.

Fixpoint first_some {A B : Type} (f : A -> option B) (l : list A) : option B :=
  match l with [] => None | x :: r => match f x with Some y => Some y | None => first_some f r end end.

(* loop iterations: depth-first, at most n iterations *)
Fixpoint find_iter (succs : astate -> list astate) (fb : astate -> astate -> option tr)
  (cont stop : astate -> bool) (n : nat) (s t : astate) : option (list tr) :=
  if stop s && astate_eqb s t then Some [] else
  match n with
  | 0 => None
  | S n' =>
      if cont s then
        first_some (fun y =>
          match find_iter succs fb cont stop n' y t with
          | Some its => match fb s y with Some it => Some (it :: its) | None => None end
          | None => None
          end) (succs s)
      else None
  end.

Fixpoint all_some {A B : Type} (f : A -> option B) (l : list A) : option (list B) :=
  match l with
  | [] => Some []
  | x :: r => match f x, all_some f r with Some y, Some ys => Some (y :: ys) | _, _ => None end
  end.

Definition succ1 (c : config) (w : pass) (s : astate) : list astate :=
  match exec c FFUEL w [s] with Some X => X | None => [] end.

Fixpoint find (c : config) (w : pass) {struct w} : astate -> astate -> option tr :=
  match w with
  | Skip => fun s t => if astate_eqb s t then Some TSkip else None
  | Leaf l => fun s t => option_map TLeaf (index_of t (leaf_post c l s) 0)
  | Seq a b => fun s t =>
      first_some (fun m =>
        if reach c b m t then
          match find c a s m, find c b m t with
          | Some ta, Some tb => Some (TSeq ta tb)
          | _, _ => None
          end
        else None) (succ1 c a s)
  | IfThenElse p x e => fun s t =>
      match (if may c p true s && reach c x s t then option_map (TIf true) (find c x s t) else None) with
      | Some r => Some r
      | None => if may c p false s && reach c e s t then option_map (TIf false) (find c e s t) else None
      end
  | While p b => fun s t =>
      option_map TLoop (find_iter (succ1 c b) (find c b) (may c p true) (may c p false) 4 s t)
  | DoWhile p b => fun s t =>
      first_some (fun m =>
        match find_iter (succ1 c b) (find c b) (may c p true) (may c p false) 4 m t with
        | Some its => match find c b s m with Some t1 => Some (TDoLoop t1 its) | None => None end
        | None => None
        end) (succ1 c b s)
  | ForEach flt _ _ body => fun s t =>
      match fe_triples (exec c FFUEL body) c flt s with
      | None => None
      | Some T =>
          first_some (fun m => first_some (fun q => first_some (fun p => first_some (fun n => first_some (fun d =>
            (* the largest family of block runs compatible with the bits chosen true *)
            let ok (r : brun) :=
              (negb m || res_bit mqn r) && (negb q || res_bit sqn r) && (negb p || res_bit cpl r)
              && (negb n || res_bit nomany r)
              && (let '(_, sb', acc) := r in (negb (sem t) || negb acc || sem sb') && (warned t || negb (warned sb'))) in
            let runs := filter ok T in
            if fe_choice_ok s runs m q p n d
               && astate_eqb (fe_result c s m q p n (fe_sem_of s runs) (fe_warned_of s runs) d) t
            then
              match all_some (fun r : brun => let '(sb, sb', acc) := r in
                       option_map (fun tb => (sb, tb, acc)) (find c body sb sb')) runs with
              | Some rs => Some (TForEach rs m q p n d)
              | None => None
              end
            else None) (dep_opts s)) bools) bools) bools) bools
      end
  | EmbedPerms _ _ _ _ => fun s t => if astate_eqb s t then Some TEmbed else None
  end.
