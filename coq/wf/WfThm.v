(* Lemmas behind coq/props/C01.v and C02.v: the generated reflective theorems (gen/WorkflowThms.v, one
   [vm_compute] per configuration) lifted through the soundness theorems of the checker. *)
From Coq Require Import List Bool Arith String.
Import ListNotations.
From BQ Require Import wf.WfAst wf.State wf.Contracts wf.ContractsThm wf.Abs wf.AbsThm wf.Run wf.Check wf.Spec.
From BQ Require Import gen.Workflows gen.WorkflowThms.

Definition entry := (string * meta * pass)%type.

Lemma table_c01 : forall n m w, In (n, m, w) wf_table -> c01_check m w = true.
Proof. intros n m w H. pose proof c01_all as A. rewrite Forall_forall in A. exact (A _ H). Qed.
Lemma table_c02 : forall n m w, In (n, m, w) wf_table -> c02_check m w = true.
Proof. intros n m w H. pose proof c02_all as A. rewrite Forall_forall in A. exact (A _ H). Qed.

(* ---- C01 -------------------------------------------------------------------------------------------- *)
Lemma c01_workflow_preserves : forall n m w, In (n, m, w) wf_table ->
  forall s s' k, In s (full_pre m) -> wsem (m_cfg m) w s s' k -> c01_post s' = true.
Proof.
  intros n m w H s s' k Hin HS. apply table_c01 in H. unfold c01_check in H.
  apply andb_prop in H. destruct H as [H _].
  eapply (wf_establishes_sound (m_cfg m) w (full_pre m) c01_post); eauto.
  unfold wf_establishes. destruct (exec (m_cfg m) FUEL w (full_pre m)); [|discriminate].
  apply andb_prop in H. tauto.
Qed.

Lemma c01_error_passes : forall n m w, In (n, m, w) wf_table ->
  forall N, err_budget m = Some N ->
  forall s s' k, wsem (m_cfg m) w s s' k -> k <= N.
Proof.
  intros n m w H N HN s s' k HS. apply table_c01 in H. unfold c01_check, err_ok in H.
  apply andb_prop in H. destruct H as [_ H]. rewrite HN in H.
  destruct (err_bound w) as [b|] eqn:EB; [|discriminate]. apply Nat.leb_le in H.
  pose proof (err_bound_sound (m_cfg m) w b EB s s' k HS). eapply Nat.le_trans; eauto.
Qed.

(* ---- C02 -------------------------------------------------------------------------------------------- *)
Lemma c02_workflow_partial : forall n m w, In (n, m, w) wf_table ->
  forall s s' k, In s (c02_pre m) -> wsem (m_cfg m) w s s' k -> c02_post m s' = true.
Proof.
  intros n m w H s s' k Hin HS. apply table_c02 in H. unfold c02_check in H.
  apply andb_prop in H. destruct H as [H _]. eapply wf_establishes_sound; eauto.
Qed.

Lemma filter_all : forall (A : Type) (f : A -> bool) l, (forall x, f x = true) -> filter f l = l.
Proof. induction l as [|a l IH]; simpl; intros H; [reflexivity|]. rewrite H, IH; auto. Qed.

Lemma no_exn_full : forall m, c02_exns m = [] ->
  c02_pre m = full_pre m /\ forall s, c02_post m s = c02_post_full s.
Proof.
  intros m H. unfold c02_exns in H.
  destruct (many_model (m_cfg m)) eqn:E2; [discriminate|].
  destruct (negb (is_circuit m) || Nat.eqb (m_level m) 4) eqn:E3; [discriminate|].
  destruct (nosq_model (m_cfg m) && is_circuit m) eqn:E4; [discriminate|].
  apply orb_false_iff in E3. destruct E3 as [E3 E5]. apply negb_false_iff in E3.
  split.
  - unfold c02_pre. apply filter_all. intros s. unfold noplace_class. rewrite E3, E5. simpl.
    rewrite andb_false_r. reflexivity.
  - intros s. unfold c02_post, c02_post_full. rewrite E2. rewrite E3 in E4. rewrite andb_true_r in E4.
    rewrite E4. simpl. rewrite !orb_false_r. reflexivity.
Qed.

Lemma c02_workflow_full : forall n m w, In (n, m, w) wf_table -> c02_exns m = [] ->
  forall s s' k, In s (full_pre m) -> wsem (m_cfg m) w s s' k -> c02_post_full s' = true.
Proof.
  intros n m w H HE s s' k Hin HS. destruct (no_exn_full m HE) as [Hp Hq].
  rewrite <- Hq. eapply c02_workflow_partial; eauto. rewrite Hp. auto.
Qed.

Lemma c02_exceptions_refuted : forall n m w, In (n, m, w) wf_table ->
  forall e, In e (c02_exns m) ->
  exists s s' k, In s (full_pre m) /\ exn_cand m e s = true /\ wsem (m_cfg m) w s s' k /\ exn_bad e s' = true.
Proof.
  intros n m w H e He. apply table_c02 in H. unfold c02_check in H.
  apply andb_prop in H. destruct H as [_ H]. rewrite forallb_forall in H.
  apply wf_refutes_sound. auto.
Qed.

Lemma full_post_false : forall e s, exn_bad e s = true -> c02_post_full s = false.
Proof.
  intros e s H. unfold c02_post_full. destruct e; simpl in H; apply negb_true_iff in H; rewrite H;
    rewrite ?andb_false_r; reflexivity.
Qed.

Definition has_entry (f : entry -> bool) : bool := existsb f wf_table.
Lemma has_entry_sound : forall f, has_entry f = true -> exists n m w, In (n, m, w) wf_table /\ f (n, m, w) = true.
Proof.
  unfold has_entry. intros f H. apply existsb_exists in H. destruct H as [[[n m] w] [H1 H2]]. eauto.
Qed.

Lemma c02_many_refuted : forall n m w, In (n, m, w) wf_table -> many_model (m_cfg m) = true ->
  exists s s' k, In s (full_pre m) /\ wsem (m_cfg m) w s s' k /\ cpl s' = false /\ c02_post_full s' = false.
Proof.
  intros n m w H Hs. destruct (c02_exceptions_refuted n m w H ExManyCoupling) as [s [s' [k [H1 [_ [H3 H4]]]]]].
  { unfold c02_exns. rewrite Hs. simpl. auto. }
  exists s, s', k. repeat split; auto.
  - simpl in H4. apply negb_true_iff in H4. auto.
  - eapply full_post_false; eauto.
Qed.

Lemma c02_noplacement_refuted : forall n m w, In (n, m, w) wf_table ->
  negb (is_circuit m) || Nat.eqb (m_level m) 4 = true ->
  exists s s' k, In s (full_pre m) /\ noplace_class m s = true /\ wsem (m_cfg m) w s s' k
                 /\ fullw s' = false /\ c02_post_full s' = false.
Proof.
  intros n m w H Hs. destruct (c02_exceptions_refuted n m w H ExNoPlacement) as [s [s' [k [H1 [H2 [H3 H4]]]]]].
  { unfold c02_exns. rewrite Hs. apply in_or_app. right. apply in_or_app. left. simpl. auto. }
  exists s, s', k. repeat split; auto.
  - simpl in H4. apply negb_true_iff in H4. auto.
  - eapply full_post_false; eauto.
Qed.

Lemma c01_full_from_contracts : forall (conc : Type) (alpha : conc -> astate)
  (cexec : config -> pass -> conc -> conc -> Prop) (preserved : conc -> Prop),
  (forall c w x x', cexec c w x x' -> exists k, wsem c w (alpha x) (alpha x') k) ->
  (forall x', c01_post (alpha x') = true -> preserved x') ->
  forall n m w, In (n, m, w) wf_table ->
  forall x x', In (alpha x) (full_pre m) -> cexec (m_cfg m) w x x' -> preserved x'.
Proof.
  intros conc alpha cexec preserved Hsim Hpost n m w H x x' Hin Hex.
  destruct (Hsim _ _ _ _ Hex) as [k Hk]. apply Hpost. eapply c01_workflow_preserves; eauto.
Qed.

Lemma c01_contract_measurements : forall c,
  triple c LExtractMeas (fun s => ms s = MIn) (fun s s' => ms s' = MOut /\ sem s' = sem s /\ msbad s' = msbad s)
  /\ triple c LRestoreMeas (fun s => ms s = MOut) (fun s s' => ms s' = MBack /\ sem s' = sem s /\ msbad s' = msbad s)
  /\ (forall l, In l [LApplyPlacement; LSabreRoute; LPamRoute; LFill; LGreedyPlace; LSabreLayout; LPamLayout; LSetModel] ->
      triple c l (fun s => ms s = MBack) (fun s s' => msbad s' = true)).
Proof.
  intros c. split; [apply triple_extract_meas | split; [apply triple_restore_meas | intros l Hl; apply triple_after_restore; exact Hl]].
Qed.

(* the C02 analogue of c01_full_from_contracts *)
Lemma c02_full_from_contracts : forall (conc : Type) (alpha : conc -> astate)
  (cexec : config -> pass -> conc -> conc -> Prop) (executable : conc -> Prop),
  (forall c w x x', cexec c w x x' -> exists k, wsem c w (alpha x) (alpha x') k) ->
  (forall x', c02_post_full (alpha x') = true -> executable x') ->
  forall n m w, In (n, m, w) wf_table -> c02_exns m = [] ->
  forall x x', In (alpha x) (full_pre m) -> cexec (m_cfg m) w x x' -> executable x'.
Proof.
  intros conc alpha cexec executable Hsim Hpost n m w H HE x x' Hin Hex.
  destruct (Hsim _ _ _ _ Hex) as [k Hk]. apply Hpost. eapply c02_workflow_full; eauto.
Qed.
