(* What C01 and C02 demand of a generated workflow tree, as a function of the configuration's
   metadata.  HAND-WRITTEN: the translator only instantiates [c01_check] / [c02_check].  The exceptions
   ([c02_exns]) are the input classes for which the faithful model VIOLATES the full statement; each is a
   reproduced finding (known_findings.d/C02.json) and is refuted, not assumed away: [c02_check] demands
   both the weakened theorem and a machine-checked violating run of the full statement. *)
From Coq Require Import List Bool Arith.
Import ListNotations.
From BQ Require Import wf.WfAst wf.State wf.Contracts wf.Abs wf.Check.

Definition mk_init (m q p n : bool) (d : depth) (mm : meas) (fw : bool) (w : wclass) (ph se : bool) : astate :=
  {| mqn := m; sqn := q; cpl := p; nomany := n; sem := se; tgt := true; dep := d; sqab := false; mqab := false;
     ms := mm; msbad := false; plid := true; fullw := fw; cn := CReal; sv := SNone; wd := w;
     warned := false; noph := ph; blk1 := false |}.

Definition wclass_of (n : nat) : wclass :=
  match n with 0 | 1 => W1 | 2 => W2 | 3 => W3 | _ => W4 end.

(* every abstract state an accepted input can start in (fresh PassData: identity placement, real
   connectivity, nothing saved):
   - circuit: any gates (bits free), possibly pre-blocked CircuitGates (depth), with or without measurements
     and barriers, any width, machine as wide as the circuit or wider;
   - unitary: Circuit.from_unitary (one constant gate on all qudits); state / state system: empty circuit. *)
Definition full_pre (m : meta) : sset :=
  let c := m_cfg m in
  sdedup
  match m_kind m with
  | KCircuit =>
      flat_map (fun a => flat_map (fun b => flat_map (fun p => flat_map (fun n =>
      flat_map (fun d => flat_map (fun mm => flat_map (fun fw => flat_map (fun w =>
        map (fun ph => norm c (mk_init a b p n d mm fw w ph true)) bools)
      all_w) bools) [MNone; MIn]) [D0; D1; D3]) bools) bools) bools) bools
  | KUnitary =>
      flat_map (fun a => flat_map (fun p => flat_map (fun fw =>
        [norm c (mk_init a true p (Nat.leb (m_width m) 2) D0 MNone fw (wclass_of (m_width m)) true true)])
      bools) bools) bools
  | KState | KStateSystem =>
      map (fun fw => norm c (mk_init true true true true D0 MNone fw (wclass_of (m_width m)) true false)) bools
  end.

(* ---- C02 ------------------------------------------------------------------------------------------- *)
Definition is_d0 (s : astate) : bool := match dep s with D0 => true | _ => false end.
Definition c02_post_full (s : astate) : bool :=
  mqn s && cpl s && sqn s && plid s && fullw s && is_d0 s.

(* (D10, the missing single-qudit retarget stage of the state / state-system workflows, was an exception class here
   until repo commit df47266 fixed it: those workflows now get the full statement.) *)
Inductive c02_exn :=
| ExManyCoupling (* a gate on > 2 qudits in the model's gate set: the second retarget synthesises with the
                    connectivity extracted, SABRE only asks for a connected location, search synthesis places
                    wide gates on connected (not pairwise coupled) locations *)
| ExNoPlacement  (* no ApplyPlacement is executed: level 4 on a 1-qudit circuit (SeqPAM skipped), and every
                    unitary / state / state-system workflow; the output keeps the input's width *)
| ExNoSQ.        (* gate set without single-qudit gates: compile() only warns (documented best effort) *)

Definition is_circuit (m : meta) : bool := match m_kind m with KCircuit => true | _ => false end.
Definition is_state (m : meta) : bool := match m_kind m with KState | KStateSystem => true | _ => false end.
Definition w1 (s : astate) : bool := match wd s with W1 => true | _ => false end.

(* the input class excluded from the proved statement because of ExNoPlacement: machine wider than input *)
Definition noplace_class (m : meta) (s : astate) : bool :=
  negb (fullw s) && (negb (is_circuit m) || (Nat.eqb (m_level m) 4 && w1 s)).

Definition c02_exns (m : meta) : list c02_exn :=
  (if many_model (m_cfg m) then [ExManyCoupling] else [])
  ++ (if negb (is_circuit m) || Nat.eqb (m_level m) 4 then [ExNoPlacement] else [])
  ++ (if nosq_model (m_cfg m) && is_circuit m then [ExNoSQ] else []).

Definition exn_cand (m : meta) (e : c02_exn) (s : astate) : bool :=
  match e with
  | ExNoSQ => true
  | ExManyCoupling => negb (w1 s)
  | ExNoPlacement => noplace_class m s
  end.
Definition exn_bad (e : c02_exn) (s : astate) : bool :=
  match e with
  | ExNoSQ => negb (sqn s)
  | ExManyCoupling => negb (cpl s)
  | ExNoPlacement => negb (fullw s)
  end.

Definition c02_pre (m : meta) : sset := filter (fun s => negb (noplace_class m s)) (full_pre m).
Definition c02_post (m : meta) (s : astate) : bool :=
  let c := m_cfg m in
  mqn s && (cpl s || many_model c)
  && (sqn s || (nosq_model c && is_circuit m && warned s))
  && plid s && fullw s && is_d0 s.

(* proved part AND, for every exception class of the configuration, a machine-checked run of the faithful
   model that violates the full statement *)
Definition c02_check (m : meta) (w : pass) : bool :=
  wf_establishes (m_cfg m) w (c02_pre m) (c02_post m)
  && forallb (fun e => wf_refutes (m_cfg m) w (full_pre m) (exn_cand m e) (exn_bad e)) (c02_exns m).

(* ---- C01 ------------------------------------------------------------------------------------------- *)
Definition meas_ok (s : astate) : bool :=
  negb (msbad s) && match ms s with MNone | MBack => true | _ => false end.
Definition c01_post (s : astate) : bool := sem s && meas_ok s && is_d0 s.
(* static budget of error-introducing passes along any branch; levels 3 and 4 loop over such passes, the
   count is then bounded by the number of iterations only *)
Definition err_budget (m : meta) : option nat :=
  match m_level m with 1 => Some 3 | 2 => Some 4 | _ => None end.
Definition err_ok (m : meta) (w : pass) : bool :=
  match err_budget m with
  | None => true
  | Some N => match err_bound w with Some k => Nat.leb k N | None => false end
  end.
(* non-vacuity of the computed set of final states: circuits with and without measurements / placeholders all
   reach the end (a tree whose every branch raises would satisfy any postcondition) *)
Definition c01_nonvac (m : meta) (X : sset) : bool :=
  match m_kind m with
  | KCircuit =>
      existsb (fun s => match ms s with MBack => true | _ => false end) X
      && existsb (fun s => match ms s with MNone => true | _ => false end) X
      && existsb noph X && existsb (fun s => negb (noph s)) X
      && forallb (fun w => existsb (fun s => wle w (wd s)) X) [W1; W2; W3; W4]
  | _ => match X with [] => false | _ => true end
  end.
Definition c01_check (m : meta) (w : pass) : bool :=
  match exec (m_cfg m) FUEL w (full_pre m) with
  | Some X => forallb c01_post X && c01_nonvac m X
  | None => false
  end && err_ok m w.
