(* The verified reflective checker. *)
From Coq Require Import List Bool Arith.
Import ListNotations.
From BQ Require Import wf.WfAst wf.State wf.Contracts wf.Abs wf.AbsThm wf.Run wf.Find.

Definition FUEL : nat := 24.

(* [pre] is given as the finite list of admissible initial states *)
Definition wf_establishes (c : config) (w : pass) (pre : sset) (post : astate -> bool) : bool :=
  match exec c FUEL w pre with
  | Some X => forallb post X
  | None => false
  end.

Theorem wf_establishes_sound : forall c w pre post,
  wf_establishes c w pre post = true ->
  forall s s' k, In s pre -> wsem c w s s' k -> post s' = true.
Proof.
  unfold wf_establishes. intros c w pre post H s s' k Hin HS.
  destruct (exec c FUEL w pre) as [X|] eqn:E; [|discriminate].
  rewrite forallb_forall in H. apply H. eapply exec_sound; eauto.
Qed.

(* the final states the checker computed that violate [post] (diagnostics) *)
Definition wf_bad (c : config) (w : pass) (pre : sset) (post : astate -> bool) : option sset :=
  match exec c FUEL w pre with
  | Some X => Some (filter (fun s => negb (post s)) X)
  | None => None
  end.

(* the same statement for the executable, trace-directed semantics: no trace of outcomes, of whatever
   length (any number of loop iterations, any family of block runs), leads outside [post] *)
Corollary wf_establishes_run : forall c w pre post,
  wf_establishes c w pre post = true ->
  forall s outcomes s' k, In s pre -> run c w outcomes s = Some (s', k) -> post s' = true.
Proof. intros c w pre post H s t s' k Hin HR. eapply wf_establishes_sound; eauto. eapply run_sound; eauto. Qed.

(* ---- refutation: a machine-checked violating run ---------------------------------------------------- *)
Definition check_witness (c : config) (w : pass) (s : astate) (t : tr) (fin : astate) : bool :=
  match run c w t s with Some (fin', _) => astate_eqb fin' fin | None => false end.

(* search (unverified, wf/Find.v) among the initial states satisfying [cand] *)
Definition witness (c : config) (w : pass) (pre : sset) (cand bad : astate -> bool)
  : option (astate * tr * astate) :=
  match exec c FUEL w (filter cand pre) with
  | None => None
  | Some X =>
      first_some (fun fin =>
        if bad fin then
          first_some (fun s =>
            if cand s && reach c w s fin then
              match find c w s fin with
              | Some t => if check_witness c w s t fin then Some (s, t, fin) else None
              | None => None
              end
            else None) pre
        else None) X
  end.

Definition wf_refutes (c : config) (w : pass) (pre : sset) (cand bad : astate -> bool) : bool :=
  match witness c w pre cand bad with
  | Some (s, t, fin) => smem s pre && cand s && bad fin && check_witness c w s t fin
  | None => false
  end.

Theorem wf_refutes_sound : forall c w pre cand bad,
  wf_refutes c w pre cand bad = true ->
  exists s s' k, In s pre /\ cand s = true /\ wsem c w s s' k /\ bad s' = true.
Proof.
  unfold wf_refutes, check_witness. intros c w pre cand bad H.
  destruct (witness c w pre cand bad) as [[[s t] fin]|]; [|discriminate].
  repeat (apply andb_prop in H; destruct H as [H ?]).
  destruct (run c w t s) as [[fin' k]|] eqn:ER; [|discriminate].
  match goal with E : astate_eqb _ _ = true |- _ => apply astate_eqb_eq in E; subst end.
  exists s, fin, k. repeat split; auto.
  - apply smem_In. auto.
  - eapply run_sound; eauto.
Qed.
