(* The FINITE abstract state of a compilation (circuit + PassData) at one nesting level.
   All "every operation satisfies ..." bits speak about the fully unfolded circuit and are EXACT
   truth values (not "unknown"): uncertainty is represented by sets of states.  No proofs here
   except the decidable equality. *)
From Coq Require Import List Bool Arith PArith MSets.MSetPositive.
Import ListNotations.
From BQ Require Import wf.WfAst.

Inductive wclass := W1 | W2 | W3 | W4 | WAny.   (* circuit.num_qudits: 1, 2, 3, >= 4; WAny = unknown (a block) *)
Inductive meas := MNone | MIn | MOut | MBack.   (* no measurements | still in the circuit | extracted | restored *)
Inductive conn := CReal | CAll.                 (* data.model.coupling_graph is the machine's | all-to-all (extracted) *)
Inductive saved := SNone | SReal | SAll.        (* what ExtractModelConnectivityPass stored under its key *)
Inductive depth := D0 | D1 | D2 | D3.           (* nesting depth of CircuitGate blocks; D3 = 3 or more / unknown *)

Record astate := {
  mqn : bool;      (* every multi-qudit gate (placeholders aside) is in the model's gate set *)
  sqn : bool;      (* every single-qudit gate (placeholders aside) is in the model's gate set *)
  cpl : bool;      (* every multi-qudit gate acts on qudits pairwise coupled in the MACHINE graph under data.placement *)
  nomany : bool;   (* no gate on more than two qudits *)
  sem : bool;      (* circuit = original input under (initial_mapping, final_mapping), within the budget *)
  tgt : bool;      (* data.target = what the circuit at this level is meant to implement, in the current frame *)
  dep : depth;
  sqab : bool;     (* every single-qudit gate sits inside a CircuitGate (meaningful when dep <> D0) *)
  mqab : bool;     (* every multi-qudit gate sits inside a CircuitGate *)
  ms : meas;
  msbad : bool;    (* a restored / un-extracted measurement placeholder was disturbed: it is no longer on the right qudits *)
  plid : bool;     (* data.placement is known to be the identity *)
  fullw : bool;    (* circuit.num_qudits = model.num_qudits (for the model SetModelPass installs) *)
  cn : conn;
  sv : saved;
  wd : wclass;
  warned : bool;   (* a WARNING-level LogPass was executed *)
  noph : bool;     (* no barrier / reset placeholders in the circuit at this level *)
  blk1 : bool      (* every CircuitGate at this level acts on ONE qudit (GroupSingleQuditGatePass) *)
}.

Scheme Equality for wclass.
Scheme Equality for meas.
Scheme Equality for conn.
Scheme Equality for saved.
Scheme Equality for depth.

Definition astate_eqb (a b : astate) : bool :=
  eqb (mqn a) (mqn b) && eqb (sqn a) (sqn b) && eqb (cpl a) (cpl b) && eqb (nomany a) (nomany b)
  && eqb (sem a) (sem b) && eqb (tgt a) (tgt b) && depth_beq (dep a) (dep b)
  && eqb (sqab a) (sqab b) && eqb (mqab a) (mqab b) && meas_beq (ms a) (ms b) && eqb (msbad a) (msbad b)
  && eqb (plid a) (plid b) && eqb (fullw a) (fullw b) && conn_beq (cn a) (cn b) && saved_beq (sv a) (sv b)
  && wclass_beq (wd a) (wd b) && eqb (warned a) (warned b) && eqb (noph a) (noph b) && eqb (blk1 a) (blk1 b).

Lemma astate_eqb_eq : forall a b, astate_eqb a b = true <-> a = b.
Proof.
  intros a b; split.
  - unfold astate_eqb; intro H.
    repeat (apply andb_prop in H; destruct H as [H ?]).
    destruct a, b; simpl in *.
    repeat match goal with
    | H : eqb _ _ = true |- _ => apply eqb_prop in H
    | H : depth_beq _ _ = true |- _ => apply internal_depth_dec_bl in H
    | H : meas_beq _ _ = true |- _ => apply internal_meas_dec_bl in H
    | H : conn_beq _ _ = true |- _ => apply internal_conn_dec_bl in H
    | H : saved_beq _ _ = true |- _ => apply internal_saved_dec_bl in H
    | H : wclass_beq _ _ = true |- _ => apply internal_wclass_dec_bl in H
    end; subst; reflexivity.
  - intros ->. unfold astate_eqb.
    destruct b as [a1 a2 a3 a4 a5 a6 d a7 a8 m a9 a10 a11 c s w a12 a13 a14]; simpl.
    rewrite !eqb_reflx.
    destruct d, m, c, s, w; reflexivity.
Qed.

(* ---- setters --------------------------------------------------------------------------------- *)
Definition set_mqn v s := {| mqn := v; sqn := sqn s; cpl := cpl s; nomany := nomany s; sem := sem s; tgt := tgt s; dep := dep s; sqab := sqab s; mqab := mqab s; ms := ms s; msbad := msbad s; plid := plid s; fullw := fullw s; cn := cn s; sv := sv s; wd := wd s; warned := warned s; noph := noph s; blk1 := blk1 s |}.
Definition set_sqn v s := {| mqn := mqn s; sqn := v; cpl := cpl s; nomany := nomany s; sem := sem s; tgt := tgt s; dep := dep s; sqab := sqab s; mqab := mqab s; ms := ms s; msbad := msbad s; plid := plid s; fullw := fullw s; cn := cn s; sv := sv s; wd := wd s; warned := warned s; noph := noph s; blk1 := blk1 s |}.
Definition set_cpl v s := {| mqn := mqn s; sqn := sqn s; cpl := v; nomany := nomany s; sem := sem s; tgt := tgt s; dep := dep s; sqab := sqab s; mqab := mqab s; ms := ms s; msbad := msbad s; plid := plid s; fullw := fullw s; cn := cn s; sv := sv s; wd := wd s; warned := warned s; noph := noph s; blk1 := blk1 s |}.
Definition set_nomany v s := {| mqn := mqn s; sqn := sqn s; cpl := cpl s; nomany := v; sem := sem s; tgt := tgt s; dep := dep s; sqab := sqab s; mqab := mqab s; ms := ms s; msbad := msbad s; plid := plid s; fullw := fullw s; cn := cn s; sv := sv s; wd := wd s; warned := warned s; noph := noph s; blk1 := blk1 s |}.
Definition set_sem v s := {| mqn := mqn s; sqn := sqn s; cpl := cpl s; nomany := nomany s; sem := v; tgt := tgt s; dep := dep s; sqab := sqab s; mqab := mqab s; ms := ms s; msbad := msbad s; plid := plid s; fullw := fullw s; cn := cn s; sv := sv s; wd := wd s; warned := warned s; noph := noph s; blk1 := blk1 s |}.
Definition set_tgt v s := {| mqn := mqn s; sqn := sqn s; cpl := cpl s; nomany := nomany s; sem := sem s; tgt := v; dep := dep s; sqab := sqab s; mqab := mqab s; ms := ms s; msbad := msbad s; plid := plid s; fullw := fullw s; cn := cn s; sv := sv s; wd := wd s; warned := warned s; noph := noph s; blk1 := blk1 s |}.
Definition set_blocks d a b o s := {| mqn := mqn s; sqn := sqn s; cpl := cpl s; nomany := nomany s; sem := sem s; tgt := tgt s; dep := d; sqab := a; mqab := b; ms := ms s; msbad := msbad s; plid := plid s; fullw := fullw s; cn := cn s; sv := sv s; wd := wd s; warned := warned s; noph := noph s; blk1 := o |}.
Definition set_ms v s := {| mqn := mqn s; sqn := sqn s; cpl := cpl s; nomany := nomany s; sem := sem s; tgt := tgt s; dep := dep s; sqab := sqab s; mqab := mqab s; ms := v; msbad := msbad s; plid := plid s; fullw := fullw s; cn := cn s; sv := sv s; wd := wd s; warned := warned s; noph := noph s; blk1 := blk1 s |}.
Definition set_msbad v s := {| mqn := mqn s; sqn := sqn s; cpl := cpl s; nomany := nomany s; sem := sem s; tgt := tgt s; dep := dep s; sqab := sqab s; mqab := mqab s; ms := ms s; msbad := v; plid := plid s; fullw := fullw s; cn := cn s; sv := sv s; wd := wd s; warned := warned s; noph := noph s; blk1 := blk1 s |}.
Definition set_plid v s := {| mqn := mqn s; sqn := sqn s; cpl := cpl s; nomany := nomany s; sem := sem s; tgt := tgt s; dep := dep s; sqab := sqab s; mqab := mqab s; ms := ms s; msbad := msbad s; plid := v; fullw := fullw s; cn := cn s; sv := sv s; wd := wd s; warned := warned s; noph := noph s; blk1 := blk1 s |}.
Definition set_fullw v s := {| mqn := mqn s; sqn := sqn s; cpl := cpl s; nomany := nomany s; sem := sem s; tgt := tgt s; dep := dep s; sqab := sqab s; mqab := mqab s; ms := ms s; msbad := msbad s; plid := plid s; fullw := v; cn := cn s; sv := sv s; wd := wd s; warned := warned s; noph := noph s; blk1 := blk1 s |}.
Definition set_conn c v s := {| mqn := mqn s; sqn := sqn s; cpl := cpl s; nomany := nomany s; sem := sem s; tgt := tgt s; dep := dep s; sqab := sqab s; mqab := mqab s; ms := ms s; msbad := msbad s; plid := plid s; fullw := fullw s; cn := c; sv := v; wd := wd s; warned := warned s; noph := noph s; blk1 := blk1 s |}.
Definition set_wd v s := {| mqn := mqn s; sqn := sqn s; cpl := cpl s; nomany := nomany s; sem := sem s; tgt := tgt s; dep := dep s; sqab := sqab s; mqab := mqab s; ms := ms s; msbad := msbad s; plid := plid s; fullw := fullw s; cn := cn s; sv := sv s; wd := v; warned := warned s; noph := noph s; blk1 := blk1 s |}.
Definition set_warned v s := {| mqn := mqn s; sqn := sqn s; cpl := cpl s; nomany := nomany s; sem := sem s; tgt := tgt s; dep := dep s; sqab := sqab s; mqab := mqab s; ms := ms s; msbad := msbad s; plid := plid s; fullw := fullw s; cn := cn s; sv := sv s; wd := wd s; warned := v; noph := noph s; blk1 := blk1 s |}.
Definition set_noph v s := {| mqn := mqn s; sqn := sqn s; cpl := cpl s; nomany := nomany s; sem := sem s; tgt := tgt s; dep := dep s; sqab := sqab s; mqab := mqab s; ms := ms s; msbad := msbad s; plid := plid s; fullw := fullw s; cn := cn s; sv := sv s; wd := wd s; warned := warned s; noph := v; blk1 := blk1 s |}.

(* Facts that hold of every concrete circuit: a 1-qudit circuit has no multi-qudit gate; if every
   multi-qudit gate is native and the model has no gate on > 2 qudits, the circuit has none either. *)
Definition norm (c : config) (s : astate) : astate :=
  let s := match wd s with W1 => set_mqn true (set_cpl true (set_nomany true s)) | _ => s end in
  if mqn s && negb (many_model c) then set_nomany true s else s.

(* ---- finite sets of states: duplicate-free lists, duplicates detected through an injective encoding
   into [positive] and a PositiveSet of the codes already seen (specifications: wf/AbsThm.v) ---------- *)
Definition sset := list astate.

Definition dbit1 (d : depth) := match d with D0 | D1 => false | _ => true end.
Definition dbit2 (d : depth) := match d with D0 | D2 => false | _ => true end.
Definition mbit1 (m : meas) := match m with MNone | MIn => false | _ => true end.
Definition mbit2 (m : meas) := match m with MNone | MOut => false | _ => true end.
Definition cbit (c : conn) := match c with CReal => false | CAll => true end.
Definition vbit1 (v : saved) := match v with SNone | SReal => false | SAll => true end.
Definition vbit2 (v : saved) := match v with SNone | SAll => false | SReal => true end.
Definition wbit1 (w : wclass) := match w with W1 | W2 | W3 | W4 => false | WAny => true end.
Definition wbit2 (w : wclass) := match w with W1 | W2 | WAny => false | _ => true end.
Definition wbit3 (w : wclass) := match w with W1 | W3 | WAny => false | _ => true end.

Definition bits (s : astate) : list bool :=
  [mqn s; sqn s; cpl s; nomany s; sem s; tgt s; dbit1 (dep s); dbit2 (dep s); sqab s; mqab s;
   mbit1 (ms s); mbit2 (ms s); msbad s; plid s; fullw s; cbit (cn s); vbit1 (sv s); vbit2 (sv s);
   wbit1 (wd s); wbit2 (wd s); wbit3 (wd s); warned s; noph s; blk1 s].
Fixpoint pos_of (l : list bool) : positive :=
  match l with [] => xH | true :: r => xI (pos_of r) | false :: r => xO (pos_of r) end.
Definition code (s : astate) : positive := pos_of (bits s).

Fixpoint smem (s : astate) (l : sset) : bool :=
  match l with [] => false | x :: r => astate_eqb s x || smem s r end.

(* keep the elements of [l] whose code is not in [seen]; first occurrence wins *)
Fixpoint dedup_from (seen : PositiveSet.t) (l : list astate) : list astate :=
  match l with
  | [] => []
  | x :: r =>
      let k := code x in
      if PositiveSet.mem k seen then dedup_from seen r else x :: dedup_from (PositiveSet.add k seen) r
  end.
Definition codes (l : list astate) : PositiveSet.t :=
  fold_right (fun x acc => PositiveSet.add (code x) acc) PositiveSet.empty l.
Definition sdedup (a : sset) : sset := dedup_from PositiveSet.empty a.
(* [b] is assumed duplicate free; the result lists b first *)
Definition sunion (a b : sset) : sset := b ++ dedup_from (codes b) a.
Definition ssubset (a b : sset) : bool :=
  let cb := codes b in forallb (fun s => PositiveSet.mem (code s) cb) a.

Definition wle (a b : wclass) : bool :=
  match a, b with
  | W1, _ => true | W2, W1 => false | W2, _ => true
  | W3, (W1 | W2) => false | W3, _ => true | W4, (W4 | WAny) => true | W4, _ => false
  | WAny, _ => true end.
Definition all_w := [W1; W2; W3; W4].
Definition bools := [true; false].
