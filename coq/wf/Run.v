(* A trace-directed evaluator of the abstract semantics: [run c w t s] replays the run of [w] from [s]
   described by the trace [t] (which leaf alternative, which predicate outcome, how many loop iterations,
   which block runs with which acceptance) and returns the final state, or None when the trace is not a
   run.  [run_sound]: whatever it returns IS a run of [wsem].  Used to machine-check counter-branches
   (refutation theorems) and to hand concrete branches to the harness. *)
From Coq Require Import List Bool Arith.
Import ListNotations.
From BQ Require Import wf.WfAst wf.State wf.Contracts wf.Abs.

Inductive tr :=
| TSkip
| TLeaf (i : nat)                       (* index into leaf_post *)
| TSeq (a b : tr)
| TIf (o : bool) (t : tr)               (* predicate outcome, trace of the branch taken *)
| TLoop (its : list tr)                 (* one trace per iteration; the predicate is true before each, false at the end *)
| TDoLoop (first : tr) (its : list tr)
| TForEach (runs : list (astate * tr * bool)) (m q p n : bool) (d : depth)
| TEmbed.

Fixpoint run_iter (f : tr -> astate -> option (astate * nat)) (cont stop : astate -> bool)
  (its : list tr) (s : astate) : option (astate * nat) :=
  match its with
  | [] => if stop s then Some (s, 0) else None
  | it :: r =>
      if cont s then
        match f it s with
        | Some (m, k1) =>
            match run_iter f cont stop r m with
            | Some (s', k2) => Some (s', k1 + k2)
            | None => None
            end
        | None => None
        end
      else None
  end.

Fixpoint run_blocks (f : tr -> astate -> option (astate * nat)) (rs : list (astate * tr * bool))
  : option (list (brun * nat)) :=
  match rs with
  | [] => Some []
  | (sb, tb, acc) :: r =>
      match f tb sb, run_blocks f r with
      | Some (sb', kb), Some l => Some (((sb, sb', acc), kb) :: l)
      | _, _ => None
      end
  end.

Fixpoint run (c : config) (w : pass) {struct w} : tr -> astate -> option (astate * nat) :=
  match w with
  | Skip => fun t s => match t with TSkip => Some (s, 0) | _ => None end
  | Leaf l => fun t s =>
      match t with
      | TLeaf i => match nth_error (leaf_post c l s) i with Some s' => Some (s', leaf_err l) | None => None end
      | _ => None
      end
  | Seq a b => fun t s =>
      match t with
      | TSeq ta tb =>
          match run c a ta s with
          | Some (m, k1) => match run c b tb m with Some (s', k2) => Some (s', k1 + k2) | None => None end
          | None => None
          end
      | _ => None
      end
  | IfThenElse p x e => fun t s =>
      match t with
      | TIf o t0 => if may c p o s then (if o then run c x t0 s else run c e t0 s) else None
      | _ => None
      end
  | While p b => fun t s =>
      match t with
      | TLoop its => run_iter (run c b) (may c p true) (may c p false) its s
      | _ => None
      end
  | DoWhile p b => fun t s =>
      match t with
      | TDoLoop t1 its =>
          match run c b t1 s with
          | Some (m, k1) =>
              match run_iter (run c b) (may c p true) (may c p false) its m with
              | Some (s', k2) => Some (s', k1 + k2)
              | None => None
              end
          | None => None
          end
      | _ => None
      end
  | ForEach flt _ _ body => fun t s =>
      match t with
      | TForEach rs m q p n d =>
          match run_blocks (run c body) rs with
          | Some runs =>
              let br := map fst runs in
              if forallb (run_ok c flt s) br && fe_choice_ok s br m q p n d
              then Some (fe_result c s m q p n (fe_sem_of s br) (fe_warned_of s br) d, list_max (map snd runs))
              else None
          | None => None
          end
      | _ => None
      end
  | EmbedPerms _ _ _ _ => fun t s => match t with TEmbed => Some (s, 0) | _ => None end
  end.

Lemma run_iter_sound : forall (f : tr -> astate -> option (astate * nat)) (step : astate -> astate -> nat -> Prop)
  cont stop,
  (forall t s s' k, f t s = Some (s', k) -> step s s' k) ->
  forall its s s' k, run_iter f cont stop its s = Some (s', k) -> iter_rel step cont stop s s' k.
Proof.
  intros f step cont stop Hf. induction its as [|it r IH]; intros s s' k H; simpl in H.
  - destruct (stop s) eqn:E; [|discriminate]. injection H as <- <-. constructor. auto.
  - destruct (cont s) eqn:E; [|discriminate].
    destruct (f it s) as [[m k1]|] eqn:E1; [|discriminate].
    destruct (run_iter f cont stop r m) as [[s2 k2]|] eqn:E2; [|discriminate].
    injection H as <- <-. econstructor; eauto.
Qed.

Lemma run_blocks_sound : forall (f : tr -> astate -> option (astate * nat)) (step : astate -> astate -> nat -> Prop),
  (forall t s s' k, f t s = Some (s', k) -> step s s' k) ->
  forall rs runs, run_blocks f rs = Some runs ->
  Forall (fun rk : brun * nat => let '((sb, sb', _), kb) := rk in step sb sb' kb) runs.
Proof.
  intros f step Hf. induction rs as [|[[sb tb] acc] r IH]; intros runs H; simpl in H.
  - injection H as <-. constructor.
  - destruct (f tb sb) as [[sb' kb]|] eqn:E1; [|discriminate].
    destruct (run_blocks f r) as [l|] eqn:E2; [|discriminate].
    injection H as <-. constructor; eauto.
Qed.

Theorem run_sound : forall c w t s s' k, run c w t s = Some (s', k) -> wsem c w s s' k.
Proof.
  intros c. induction w as [ | l | a IHa b IHb | p x IHx e IHe | p b IHb | p b IHb | flt cf eb body IHb | inner IHi ip op vt];
    intros t s s' k H; simpl in H; destruct t; try discriminate; simpl.
  - injection H as <- <-. auto.
  - destruct (nth_error (leaf_post c l s) i) eqn:E; [|discriminate]. injection H as <- <-.
    split; auto. eapply nth_error_In; eauto.
  - destruct (run c a t1 s) as [[m k1]|] eqn:E1; [|discriminate].
    destruct (run c b t2 m) as [[s2 k2]|] eqn:E2; [|discriminate].
    injection H as <- <-. exists m, k1, k2. eauto.
  - destruct (may c p o s) eqn:Em; [|discriminate]. destruct o; [left | right]; eauto.
  - eapply run_iter_sound; eauto.
  - destruct (run c b t s) as [[m k1]|] eqn:E1; [|discriminate].
    destruct (run_iter (run c b) (may c p true) (may c p false) its m) as [[s2 k2]|] eqn:E2; [|discriminate].
    injection H as <- <-. exists m, k1, k2. split; [eauto|]. split; auto. eapply run_iter_sound; eauto.
  - destruct (run_blocks (run c body) runs) as [rr|] eqn:ER; [|discriminate].
    match type of H with (if ?e then _ else _) = _ => destruct e eqn:EC; [|discriminate] end.
    injection H as <- <-. apply andb_prop in EC. destruct EC as [Hall Hch].
    exists rr, m, q, p, n, d. split; [|auto].
    pose proof (run_blocks_sound (run c body) (wsem c body) IHb _ _ ER) as HF.
    rewrite forallb_forall in Hall. rewrite Forall_forall in *. intros [[[sb sb'] acc] kb] Hin.
    split; [apply (Hall (sb, sb', acc)); apply in_map_iff; exists (sb, sb', acc, kb); auto | exact (HF _ Hin)].
  - injection H as <- <-. auto.
Qed.
