(* Executable model of MachineModel.is_compatible (compiler/machine.py) with GateSet.__contains__,
   Circuit.gate_set / coupling_graph (CircuitLocation.pairs) and CouplingGraph.__init__/__contains__
   (qis/graph.py), and of the ForEachBlockPass replace filters _is_respecting /
   _less_than_fn_respecting[_fully] (passes/control/foreach.py).  Circuits are abstracted to their width,
   radixes and list of (gate id, location).  No proofs in this file (wf/IsCompatThm.v). *)
From Coq Require Import List Bool Arith.
Import ListNotations.

Record op := { og : nat; oloc : list nat }.                      (* interned gate, location *)
Record circ := { cw : nat; crad : list nat; cops : list op }.    (* num_qudits, radixes, operations *)
Record mmodel := { mn : nat; mgates : list nat; medges : list (nat * nat); mrad : list nat }.

Definition gmem (g : nat) (l : list nat) : bool := existsb (Nat.eqb g) l.

(* CircuitLocation.pairs: all (min, max) of two distinct qudits of the location *)
Definition loc_pairs (l : list nat) : list (nat * nat) :=
  flat_map (fun q1 => flat_map (fun q2 =>
    if q1 =? q2 then [] else [(Nat.min q1 q2, Nat.max q1 q2)]) l) l.
(* Circuit.coupling_graph: the keys of _graph_info *)
Definition circ_edges (c : circ) : list (nat * nat) := flat_map (fun o => loc_pairs (oloc o)) (cops c).

(* CouplingGraph.__init__: self._edges = {g if g[0] <= g[1] else (g[1], g[0]) for g in graph} *)
Definition edges_norm (es : list (nat * nat)) : list (nat * nat) :=
  map (fun e => if fst e <=? snd e then e else (snd e, fst e)) es.
(* CouplingGraph.__contains__: self._edges.__contains__(o) -- RAW tuple membership *)
Definition raw_mem (x y : nat) (es : list (nat * nat)) : bool :=
  existsb (fun e => (fst e =? x) && (snd e =? y)) es.

Definition wf_circ (c : circ) : bool :=
  forallb (fun o => forallb (fun q => q <? cw c) (oloc o)) (cops c) && (length (crad c) =? cw c).
(* every index the code evaluates is in range (otherwise Python raises IndexError or wraps a negative index) *)
Definition wf_pl (m : mmodel) (c : circ) (pl : list nat) : bool :=
  (cw c <=? length pl) && forallb (fun p => p <? mn m) (firstn (cw c) pl) && (length (mrad m) =? mn m).

Definition placement_of (c : circ) (opl : option (list nat)) : list nat :=
  match opl with Some p => p | None => seq 0 (cw c) end.

(* None: outside the well-formed inputs (the code raises / is unspecified).  The coupling test asks for the
   edge in EITHER orientation (repo commit cf72da2; before it only the raw tuple was tested). *)
Definition is_compatible (m : mmodel) (c : circ) (opl : option (list nat)) : option bool :=
  if mn m <? cw c then Some false
  else if existsb (fun o => negb (gmem (og o) (mgates m))) (cops c) then Some false
  else
    let pl := placement_of c opl in
    if negb (wf_pl m c pl && wf_circ c) then None
    else if existsb (fun e => negb (raw_mem (nth (fst e) pl 0) (nth (snd e) pl 0) (edges_norm (medges m)))
                              && negb (raw_mem (nth (snd e) pl 0) (nth (fst e) pl 0) (edges_norm (medges m))))
                    (circ_edges c) then Some false
    else if existsb (fun ir => negb (snd ir =? nth (nth (fst ir) pl 0) (mrad m) 0))
                    (combine (seq 0 (cw c)) (crad c)) then Some false
    else Some true.

(* is_compatible as of repo commit 3be8a2b (finding C02-F5 repaired): barrier / measurement / reset placeholders
   ([ph g = true]) are skipped by the native-gate test, and when the circuit holds one the coupling test runs over the
   pairs of the remaining operations ({pair for op in circuit if not placeholder for pair in op.location.pairs})
   instead of circuit.coupling_graph.  Width and radix tests are unchanged. *)
Definition strip (ph : nat -> bool) (c : circ) : circ :=
  {| cw := cw c; crad := crad c; cops := filter (fun o => negb (ph (og o))) (cops c) |}.
Definition is_compatible_ph (ph : nat -> bool) (m : mmodel) (c : circ) (opl : option (list nat)) : option bool :=
  if mn m <? cw c then Some false
  else if existsb (fun o => negb (ph (og o)) && negb (gmem (og o) (mgates m))) (cops c) then Some false
  else
    let pl := placement_of c opl in
    let edges := if existsb (fun o => ph (og o)) (cops c) then circ_edges (strip ph c) else circ_edges c in
    if negb (wf_pl m c pl && wf_circ c) then None
    else if existsb (fun e => negb (raw_mem (nth (fst e) pl 0) (nth (snd e) pl 0) (edges_norm (medges m)))
                              && negb (raw_mem (nth (snd e) pl 0) (nth (fst e) pl 0) (edges_norm (medges m))))
                    edges then Some false
    else if existsb (fun ir => negb (snd ir =? nth (nth (fst ir) pl 0) (mrad m) 0))
                    (combine (seq 0 (cw c)) (crad c)) then Some false
    else Some true.

(* ---- the independent check: width, native gates, coupling (symmetric), radixes -------------------- *)
Definition coupled (m : mmodel) (a b : nat) : bool :=
  existsb (fun e => ((fst e =? a) && (snd e =? b)) || ((fst e =? b) && (snd e =? a))) (medges m).
Definition spec (m : mmodel) (c : circ) (pl : list nat) : bool :=
  (cw c <=? mn m)
  && forallb (fun o => gmem (og o) (mgates m)) (cops c)
  && forallb (fun e => coupled m (nth (fst e) pl 0) (nth (snd e) pl 0)) (circ_edges c)
  && forallb (fun ir => snd ir =? nth (nth (fst ir) pl 0) (mrad m) 0) (combine (seq 0 (cw c)) (crad c)).

(* the placement keeps the order of the two qudits of every interacting pair *)
Definition monotone_on (c : circ) (pl : list nat) : bool :=
  forallb (fun e => nth (fst e) pl 0 <=? nth (snd e) pl 0) (circ_edges c).

(* ---- replace filters ----------------------------------------------------------------------------------- *)
(* _is_respecting(circuit, location, model, fully); the edge is accepted in either orientation (repo commit 4f34095) *)
Definition is_respecting (m : mmodel) (b : circ) (loc : list nat) (fully : bool) : bool :=
  if existsb (fun o => (2 <=? length (oloc o)) && negb (gmem (og o) (mgates m))) (cops b) then false
  else if fully && existsb (fun o => (length (oloc o) <? 2) && negb (gmem (og o) (mgates m))) (cops b) then false
  else if existsb (fun e => negb (raw_mem (nth (fst e) loc 0) (nth (snd e) loc 0) (edges_norm (medges m)))
                            && negb (raw_mem (nth (snd e) loc 0) (nth (fst e) loc 0) (edges_norm (medges m))))
                  (circ_edges b) then false
  else true.

(* _less_than_fn_respecting[_fully](new, old, model, fn); [old] = Some block when old.gate is a CircuitGate;
   [fn] = the verdict of the wrapped _less_than* function *)
Definition lt_respecting (m : mmodel) (fully : bool) (new : circ) (old : option circ) (loc : list nat) (fn : bool) : bool :=
  match old with
  | Some o =>
      if negb (is_respecting m o loc fully) then true
      else if negb (is_respecting m new loc fully) then false
      else fn
  | None => fn
  end.
