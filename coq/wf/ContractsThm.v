(* The leaf contracts of wf/Contracts.v restated as Hoare triples, one per leaf kind: for every configuration
   [c], every abstract state [s] satisfying the precondition and every state [s'] the contract allows
   ([In s' (leaf_post c l s)]), the postcondition holds.  These are the statements a reader (and the passes'
   own verification: C04/C05/C08/C09/C10/C11) should compare with the code; [leaf_class] says which of them are
   proved elsewhere in this development and which are assumed-and-tested. *)
From Coq Require Import List Bool Arith.
Import ListNotations.
From BQ Require Import wf.WfAst wf.State wf.Contracts.

(* [norm] only ever sets mqn / cpl / nomany to true *)
Lemma norm_fields : forall c s,
  sqn (norm c s) = sqn s /\ sem (norm c s) = sem s /\ tgt (norm c s) = tgt s /\ dep (norm c s) = dep s
  /\ sqab (norm c s) = sqab s /\ mqab (norm c s) = mqab s /\ ms (norm c s) = ms s /\ msbad (norm c s) = msbad s
  /\ plid (norm c s) = plid s /\ fullw (norm c s) = fullw s /\ cn (norm c s) = cn s /\ sv (norm c s) = sv s
  /\ wd (norm c s) = wd s /\ warned (norm c s) = warned s /\ noph (norm c s) = noph s /\ blk1 (norm c s) = blk1 s.
Proof.
  intros c s. unfold norm. destruct (wd s) eqn:Ew; simpl;
    match goal with |- context [if ?b then _ else _] => destruct b end; simpl; rewrite ?Ew; repeat split; reflexivity.
Qed.

Lemma norm_up : forall c s,
  (mqn s = true -> mqn (norm c s) = true) /\ (cpl s = true -> cpl (norm c s) = true)
  /\ (nomany s = true -> nomany (norm c s) = true).
Proof.
  intros c s. unfold norm. destruct (wd s); simpl;
    match goal with |- context [if ?b then _ else _] => destruct b end; simpl; repeat split; auto.
Qed.

Lemma norm_nomany : forall c s, mqn s = true -> many_model c = false -> nomany (norm c s) = true.
Proof.
  intros c s Hm Hc. unfold norm. destruct (wd s); simpl; rewrite ?Hm, ?Hc; simpl; auto.
Qed.

Ltac inv_post H x :=
  unfold leaf_post in H; apply in_map_iff in H; destruct H as [x [<- H]]; unfold leaf_post_raw in H.
Ltac fin H := simpl in H; repeat (destruct H as [<-|H]); try contradiction.
Ltac nf c x := destruct (norm_fields c x) as (?&?&?&?&?&?&?&?&?&?&?&?&?&?&?&?); destruct (norm_up c x) as (?&?&?).
Ltac simp H P := repeat (progress (simpl in H; rewrite ?P in H)).
Ltac done := repeat split; simpl in *; try congruence; auto.

Definition triple (c : config) (l : leaf) (P : astate -> Prop) (Q : astate -> astate -> Prop) : Prop :=
  forall s s', P s -> In s' (leaf_post c l s) -> Q s s'.

(* passes that touch neither the circuit nor the tracked data *)
Lemma triple_silent : forall c l, In l [LSetSeed; LNoop; LLogError; LExtend; LLog false] ->
  triple c l (fun _ => True) (fun s s' => s' = norm c s).
Proof.
  intros c l Hl s s' _ H. simpl in Hl.
  repeat (destruct Hl as [<-|Hl]); try contradiction; inv_post H x; fin H; reflexivity.
Qed.
Lemma triple_data_only : forall c n, triple c (LSubtopology n) (fun _ => True) (fun s s' => s' = norm c s)
  /\ triple c LPamVerify (fun _ => True) (fun s s' => s' = norm c s)
  /\ triple c (LLog true) (fun _ => True) (fun s s' => warned s' = true /\ sem s' = sem s).
Proof.
  intros c n. split; [|split]; intros s s' _ H; inv_post H x; fin H; try reflexivity.
  nf c (set_warned true s). simpl in *. split; congruence.
Qed.

(* UnfoldPass: no CircuitGate left, same operations (C04 unfold_all) *)
Lemma triple_unfold : forall c, triple c LUnfold (fun _ => True)
  (fun s s' => dep s' = D0 /\ sem s' = sem s /\ sqn s' = sqn s /\ ms s' = ms s /\ (mqn s = true -> mqn s' = true)
               /\ (cpl s = true -> cpl s' = true)).
Proof. intros c s s' _ H. inv_post H x. fin H. nf c (set_blocks D0 false false false s). done. Qed.

(* ExtractMeasurements / RestoreMeasurements (C01_measurements) *)
Lemma triple_extract_meas : forall c, triple c LExtractMeas (fun s => ms s = MIn)
  (fun s s' => ms s' = MOut /\ sem s' = sem s /\ msbad s' = msbad s).
Proof. intros c s s' P H. inv_post H x. rewrite P in H. fin H. nf c (set_ms MOut s). done. Qed.
Lemma triple_restore_meas : forall c, triple c LRestoreMeas (fun s => ms s = MOut)
  (fun s s' => ms s' = MBack /\ sem s' = sem s /\ msbad s' = msbad s).
Proof. intros c s s' P H. inv_post H x. rewrite P in H. fin H. nf c (set_ms MBack s). done. Qed.
Lemma triple_restore_twice : forall c, triple c LRestoreMeas (fun s => ms s = MBack) (fun s s' => msbad s' = true).
Proof. intros c s s' P H. inv_post H x. rewrite P in H. fin H. nf c (set_msbad true s). done. Qed.

(* SetModelPass: placement reset, real connectivity; nothing is known about membership in the new gate set *)
Lemma triple_set_model : forall c, triple c LSetModel (fun s => ms s <> MBack)
  (fun s s' => plid s' = true /\ cn s' = CReal /\ sem s' = sem s /\ msbad s' = msbad s /\ fullw s' = fullw s).
Proof.
  intros c s s' P H. inv_post H x. unfold remaps in H. simpl in H.
  destruct (ms s) eqn:E; try congruence; fin H;
    match goal with |- context [norm c ?y] => nf c y end; done.
Qed.
Lemma triple_set_target : forall c k, triple c (LSetTarget k) (fun _ => True) (fun s s' => tgt s' = true /\ sem s' = sem s).
Proof. intros c k s s' _ H. inv_post H x. fin H. nf c (set_tgt true s). done. Qed.

(* partitioners only regroup (C08) *)
Lemma triple_quick : forall c n, triple c (LQuick n) (fun s => dep s = D0)
  (fun s s' => dep s' = D1 /\ sqab s' = true /\ mqab s' = true /\ sem s' = sem s /\ sqn s' = sqn s
               /\ (mqn s = true -> mqn s' = true) /\ (cpl s = true -> cpl s' = true)).
Proof. intros c n s s' P H. inv_post H x. rewrite P in H. fin H. nf c (set_blocks D1 true true false s). done. Qed.
Lemma triple_group_single : forall c, triple c LGroupSingle (fun s => dep s = D0)
  (fun s s' => dep s' = D1 /\ sqab s' = true /\ blk1 s' = true /\ sem s' = sem s /\ sqn s' = sqn s).
Proof. intros c s s' P H. inv_post H x. rewrite P in H. fin H. nf c (set_blocks D1 true false true s). done. Qed.

(* FillSingleQuditGatesPass: every single-qudit gate becomes the general gate of the gate set *)
Lemma triple_fill : forall c, triple c LFill (fun s => dep s = D0 /\ ms s = MNone)
  (fun s s' => sqn s' = gsn c /\ sem s' = sem s /\ (mqn s = true -> mqn s' = true) /\ (cpl s = true -> cpl s' = true)).
Proof.
  intros c s s' [P1 P2] H. inv_post H x. rewrite P1 in H. unfold rewrites in H. simpl in H. rewrite P2 in H. fin H.
  nf c (set_sqn (gsn c) s). done.
Qed.

(* Extract / RestoreModelConnectivityPass *)
Lemma triple_extract_conn : forall c, triple c LExtractConn (fun s => cn s = CReal)
  (fun s s' => cn s' = CAll /\ sv s' = SReal /\ sem s' = sem s).
Proof. intros c s s' P H. inv_post H x. rewrite P in H. fin H. nf c (set_conn CAll SReal s). done. Qed.
Lemma triple_restore_conn : forall c, triple c LRestoreConn (fun s => sv s = SReal)
  (fun s s' => cn s' = CReal /\ sv s' = SNone /\ sem s' = sem s).
Proof. intros c s s' P H. inv_post H x. rewrite P in H. fin H. nf c (set_conn CReal SNone s). done. Qed.
Lemma triple_restore_conn_raises : forall c s, sv s = SNone -> leaf_post c LRestoreConn s = [].
Proof. intros c s P. unfold leaf_post, leaf_post_raw. rewrite P. reflexivity. Qed.

(* search synthesis (QSearch / LEAP, also inside PAS) with the gate set's own layer generator: a fresh circuit
   implementing data.target from native multi-qudit gates; coupled when the model's real graph is in place and it
   has no gate on more than two qudits.  Nothing is promised about the single-qudit gates. *)
Lemma triple_synth : forall c k g t p, g = LgDefault \/ g = LgModelMQ ->
  triple c (LSynth k g t p) (fun s => ms s = MNone)
  (fun s s' => mqn s' = true /\ sem s' = tgt s /\ dep s' = D0
               /\ (many_model c = false -> nomany s' = true)
               /\ (many_model c = false -> cn s = CReal -> cpl s' = true)).
Proof.
  intros c k g t p Hg s s' P H. inv_post H x.
  assert (Hx : In x (cond_set (cn_real s && negb (many_model c)) set_cpl
            (cond_set (negb (many_model c)) set_nomany
               (havoc set_sqn [set_mqn true (rewrites (set_noph true (set_blocks D0 false false false (set_sem (tgt s) s))))])))).
  { destruct Hg as [-> | ->]; exact H. }
  clear H. unfold rewrites in Hx. simpl in Hx. rewrite P in Hx.
  unfold cond_set, cn_real in Hx.
  destruct (many_model c) eqn:Em; destruct (cn s) eqn:Ec; simpl in Hx;
    repeat (destruct Hx as [<-|Hx]); try contradiction;
    match goal with |- context [norm c ?y] => nf c y; pose proof (norm_nomany c y) end;
    simpl in *; repeat split; try congruence; auto; intros; try congruence; auto.
Qed.

(* single-qudit synthesis from the model's single-qudit gates (one-qudit blocks) *)
Lemma triple_sq_synth : forall c k t p, nosq_model c = false ->
  triple c (LSynth k LgSingle t p) (fun s => wd s = W1 /\ ms s = MNone)
  (fun s s' => sqn s' = true /\ sem s' = tgt s /\ dep s' = D0).
Proof.
  intros c k t p Hn s s' [P1 P2] H. inv_post H x. rewrite Hn, P1 in H. unfold rewrites in H. simpl in H. rewrite P2 in H.
  fin H. match goal with |- context [norm c ?y] => nf c y end. done.
Qed.

(* AutoRebase2QuditGatePass: every non-native 2-qudit gate replaced IN PLACE (coupling kept), against data.target *)
Lemma triple_rebase : forall c t, triple c (LRebase2Q t) (fun s => dep s = D0 /\ nomany s = true /\ ms s = MNone)
  (fun s s' => mqn s' = true /\ sem s' = (sem s && tgt s) /\ (cpl s = true -> cpl s' = true) /\ nomany s' = true).
Proof.
  intros c t s s' [P1 [P2 P3]] H. inv_post H x. rewrite P1, P2 in H. unfold rewrites, worsen in H. simpl in H. rewrite P3 in H.
  destruct (gsn c); simpl in H; [|destruct (sqn s); simpl in H]; fin H;
    match goal with |- context [norm c ?y] => nf c y end; done.
Qed.

(* ScanningGateRemovalPass: operations are only removed; what remains is re-instantiated against data.target *)
Lemma triple_scan : forall c f t, triple c (LScan f t) (fun s => ms s = MNone)
  (fun s s' => sem s' = (sem s && tgt s) /\ (mqn s = true -> mqn s' = true) /\ (sqn s = true -> sqn s' = true)
               /\ (cpl s = true -> cpl s' = true) /\ (nomany s = true -> nomany s' = true) /\ dep s' = dep s).
Proof.
  intros c f t s s' P H. inv_post H x. unfold rewrites, improve in H. simpl in H. rewrite P in H. simpl in H.
  destruct (nomany s) eqn:E1; simpl in H; destruct (cpl s) eqn:E2; simpl in H; destruct (sqn s) eqn:E3; simpl in H;
    destruct (mqn s) eqn:E4; simpl in H;
    repeat (destruct H as [<-|H]); try contradiction;
    match goal with |- context [norm c ?y] => nf c y end; simpl in *; repeat split; intros; try congruence; auto.
Qed.

(* GeneralSQDecomposition / ZXZXZDecomposition: exact single-qudit rewrites from circuit.get_unitary() *)
Lemma triple_general_sq : forall c, triple c LGeneralSQ (fun s => ms s = MNone)
  (fun s s' => sqn s' = true /\ sem s' = sem s /\ dep s' = D0 /\ has_gen c = true /\ (wd s = W1 \/ wd s = WAny)).
Proof.
  intros c s s' P H. inv_post H x. unfold rewrites in H.
  destruct (wd s) eqn:Ew; try contradiction; destruct (has_gen c) eqn:Eg; try contradiction;
    simpl in H; rewrite P in H; fin H; match goal with |- context [norm c ?y] => nf c y end; done.
Qed.
Lemma triple_general_sq_raises : forall c s, wd s = W2 \/ wd s = W3 \/ wd s = W4 -> leaf_post c LGeneralSQ s = [].
Proof. intros c s [P|[P|P]]; unfold leaf_post, leaf_post_raw; rewrite P; reflexivity. Qed.
Lemma triple_zxzxz : forall c, zx_native c = true -> triple c LZXZXZ (fun s => ms s = MNone)
  (fun s s' => sqn s' = true /\ sem s' = sem s /\ dep s' = D0).
Proof.
  intros c Hz s s' P H. inv_post H x. unfold rewrites, cond_set in H. rewrite Hz in H.
  destruct (wd s) eqn:Ew; try contradiction; simpl in H; rewrite P in H; fin H;
    match goal with |- context [norm c ?y] => nf c y end; done.
Qed.

(* placement / layout passes only change data.placement (C09) *)
Lemma triple_place : forall c l, In l [LGreedyPlace; LSabreLayout; LPamLayout] ->
  triple c l (fun s => ms s <> MBack)
  (fun s s' => sem s' = sem s /\ sqn s' = sqn s /\ msbad s' = msbad s /\ (mqn s = true -> mqn s' = true)
               /\ (nomany s = true -> nomany s' = true)).
Proof.
  intros c l Hl s s' P H. simpl in Hl.
  repeat (destruct Hl as [<-|Hl]); try contradiction; inv_post H x; unfold remaps in H; simpl in H;
    destruct (ms s) eqn:E; try congruence; fin H; match goal with |- context [norm c ?y] => nf c y end; done.
Qed.

(* GeneralizedSabreRoutingPass: SWAPs inserted until every gate is executable under data.placement (C09) *)
Lemma triple_sabre_route : forall c, triple c LSabreRoute (fun s => ms s = MOut \/ ms s = MNone)
  (fun s s' => sem s' = sem s /\ sqn s' = sqn s /\ msbad s' = msbad s /\ (nomany s = true -> nomany s' = true)
               /\ (cn s = CReal -> nomany s = true -> cpl s' = true)).
Proof.
  intros c s s' P H. inv_post H x. unfold rewrites, remaps, worsen, cond_set, cn_real in H. simpl in H.
  destruct P as [P|P]; rewrite P in H; simpl in H;
    destruct (cn s) eqn:Ec; simp H P; destruct (nomany s) eqn:En; simp H P; destruct (mqn s) eqn:Em; simp H P;
    repeat (destruct H as [<-|H]); try contradiction;
    match goal with |- context [norm c ?y] => nf c y end; simpl in *; repeat split; intros; try congruence; auto.
Qed.

(* PAMRoutingPass substitutes the cached permutation-aware synthesis results (assumed-and-tested) *)
Lemma triple_pam_route : forall c, triple c LPamRoute (fun s => ms s = MOut \/ ms s = MNone)
  (fun s s' => sem s' = sem s /\ msbad s' = msbad s
               /\ (dep s <> D0 -> mqab s = true -> many_model c = false -> cn s = CReal -> cpl s' = true)).
Proof.
  intros c s s' P H. inv_post H x. unfold rewrites, remaps, cond_set, cn_real in H. simpl in H.
  destruct P as [P|P]; rewrite P in H; simpl in H;
    destruct (dep s) eqn:Ed; simp H P; destruct (mqab s) eqn:Eb; simp H P; destruct (cn s) eqn:Ec; simp H P;
    destruct (many_model c) eqn:Em; simp H P;
    repeat (destruct H as [<-|H]); try contradiction;
    match goal with |- context [norm c ?y] => nf c y end; simpl in *; repeat split; intros; try congruence; auto.
Qed.

(* ApplyPlacement: the circuit is embedded in the machine, mappings composed with the placement (C09) *)
Lemma triple_apply_placement : forall c, triple c LApplyPlacement (fun s => ms s = MOut \/ ms s = MNone)
  (fun s s' => plid s' = true /\ fullw s' = true /\ sem s' = sem s /\ sqn s' = sqn s /\ msbad s' = msbad s
               /\ (mqn s = true -> mqn s' = true) /\ (cpl s = true -> cpl s' = true)).
Proof.
  intros c s s' P H. inv_post H x. unfold rewrites, remaps in H. simpl in H.
  destruct P as [P|P]; simp H P;
    destruct (fullw s) eqn:Ef; simp H P; destruct (plid s) eqn:Ep; simp H P;
    try (apply in_map_iff in H; destruct H as [w [<- _]]);
    repeat (destruct H as [<-|H]); try contradiction;
    match goal with |- context [norm c ?y] => nf c y end; simpl in *; repeat split; intros; try congruence; auto.
Qed.

(* the measurement discipline: a circuit-rewriting or re-mapping pass after RestoreMeasurements disturbs them *)
Lemma triple_after_restore : forall c l,
  In l [LApplyPlacement; LSabreRoute; LPamRoute; LFill; LGreedyPlace; LSabreLayout; LPamLayout; LSetModel] ->
  triple c l (fun s => ms s = MBack) (fun s s' => msbad s' = true).
Proof.
  intros c l Hl s s' P H. simpl in Hl.
  repeat (destruct Hl as [<-|Hl]); try contradiction; inv_post H x;
    unfold rewrites, remaps, cond_set, worsen, cn_real in H; simp H P.
  - destruct (fullw s); simp H P; destruct (plid s); simp H P;
      try (apply in_map_iff in H; destruct H as [w [<- _]]); try (fin H);
      match goal with |- context [norm c ?y] => nf c y end; done.
  - destruct (cn s); simp H P; destruct (nomany s); simp H P; destruct (mqn s); simp H P; fin H;
      match goal with |- context [norm c ?y] => nf c y end; done.
  - destruct (dep s); simp H P; destruct (mqab s); simp H P; destruct (cn s); simp H P;
      destruct (many_model c); simp H P; fin H;
      match goal with |- context [norm c ?y] => nf c y end; done.
  - destruct (dep s); simp H P; fin H; match goal with |- context [norm c ?y] => nf c y end; done.
  - fin H; match goal with |- context [norm c ?y] => nf c y end; done.
  - fin H; match goal with |- context [norm c ?y] => nf c y end; done.
  - fin H; match goal with |- context [norm c ?y] => nf c y end; done.
  - fin H; match goal with |- context [norm c ?y] => nf c y end; done.
Qed.

(* every leaf kind is classified *)
Lemma leaf_class_total : forall l, leaf_class l = ProvedElsewhere \/ leaf_class l = AssumedAndTested.
Proof. destruct l; simpl; auto. Qed.
